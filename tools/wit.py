#!/usr/bin/env python3
"""Debug helper: run one witness/replay schedule through the real nodes and the trace judge; print
every violation, divergence count and the client responses.  usage: tools/wit.py <file.json> [keep]"""
import json, os, sys
sys.path.insert(0, os.path.dirname(os.path.abspath(__file__)))
import dv, cluster
p = json.load(open(sys.argv[1]))
wd = dv.workdir("wit")
dv.build_harness("dv-cluster")
traces = cluster.run_harness(wd, [p["steps"]], 0, 0, dv.seed(), p.get("cfg", {"n": 3}), witnesses=False)
res = dv.tlc_trace("DETrace", traces[0], os.path.join(wd, "result.json"), wd)
for v in res["viol"]:
    print("VIOL", json.dumps(v))
print("div", len(res["div"]), [ (d["step"], d["a"], d["what"]) for d in res["div"]][:10])
for line in open(traces[0]):
    r = json.loads(line)
    for e in r.get("ev", []):
        if e.get("e") in ("ClientResp", "ClientInvoke", "LeaderNotify"):
            print(r.get("step"), json.dumps(e))
print(wd)
if len(sys.argv) > 2:
    for line in open(traces[0]):
        r = json.loads(line)
        nd = r["st"]["nodes"]
        print(r["step"], json.dumps(r["a"])[:80], r.get("applied"),
              " ".join("%s:%s%s/L%d/c%d/a%d/b%d/s%d" % (k, v["role"] if v["up"] else "x", v["term"], len(v["log"]), v["commit"], v["applied"], v.get("base", 0), v.get("snapIdx", 0)) for k, v in sorted(nd.items())),
              "net=%d" % len(r["st"]["net"]))
