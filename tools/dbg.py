#!/usr/bin/env python3
import json, os, sys
sys.path.insert(0, os.path.dirname(os.path.abspath(__file__)))
import dv, cluster
wd = dv.workdir("dbg")
simc = dict(Node="{1,2,3}", MaxTerm=5, MaxLog=6, MaxMsgs=8, Cap=2, Faults=["Crash","Stop","Drop","Dup","Client","Heartbeat"], MaxCrash=2, MaxDrop=3)
cfg = cluster.mc_cfg(wd, "sim", simc, cluster.AS_IMPL, ["Emit"], hist=True, emit=45)
scheds,_ = dv.tlc_simulate("MC_core", cfg, wd, int(sys.argv[1]) if len(sys.argv)>1 else 100, 46, dv.seed())
scheds=[cluster.uniquify(s,"t%d"%i) for i,s in enumerate(scheds)]
traces = cluster.run_harness(wd, scheds, 0, 0, 1, {"n":3,"cap":2})
res = dv.tlc_trace("DETrace", traces[0], os.path.join(wd,"res.json"), wd)
print("div", len(res["div"]), "viol", len(res["viol"]))
print(wd)
json.dump(res, open(os.path.join(wd,"res.json"),"w"))
