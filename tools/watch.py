"""Watch engine (C24): spec/Watch.tla (TLC) + dv-watch (real registry / dispatcher / handler) + WatchTrace.tla.

For C24:
  1. TLC model-checks Watch.tla exhaustively for the repaired design (Dev = {}): the C24 invariants hold
     (so they are satisfiable); vacuity controls must be violated.
  2. TLC model-checks the as-implemented model (Dev = deviations of the current code): the safety monitors
     must hold; for the monitors the deviations break, TLC yields the shortest witness schedule.
  3. Schedules: the witnesses, TLC-simulated behaviours of the as-implemented model, and seeded random
     schedules with the full operation alphabet; each followed by a drain epilogue.
  4. dv-watch executes every schedule step by step on the real WatchRegistry + WatchDispatcher::run +
     DefaultStateMachineHandler::apply_chunk (broadcast path) on a paused single-threaded runtime and records
     the events every watcher's receiver returns.
  5. TLC (WatchTrace.tla) folds the schedule through the operators of Watch.tla (ground truth) and evaluates
     the C24 monitors on the OBSERVED sequences (layer 1) and observed = spec's sequences (layer 2).
  6. Layer-1 failures are matched against the known findings; a witness of step 2 that does not reproduce on
     the real code is a modelling error (exit 2), never a verdict.
"""
import json
import os
import random
import re
import shutil
import time

import dv

ENGINE = {"name": "watch",
          "kind": "Watch.tla (TLC exhaustive + simulation) + dv-watch step harness over the real WatchRegistry / "
                  "WatchDispatcher / handler broadcast path + WatchTrace.tla trace judge"}
PROPS = {"C24": {}}
MANIFEST_INFO = {
    "C24": dict(
        technique="TLA+/TLC model checking of Watch.tla + TLC trace validation (WatchTrace.tla) of step-wise executions of the real watch subsystem",
        category="model_checking",
        text=("watch streams: TLC checks the model of the watch pipeline (apply -> bounded broadcast channel with "
              "overwrite-on-overflow -> dispatcher loop iteration by iteration -> per-watcher bounded channels with the "
              "reserved CANCELED slot; register / drop / receive / heartbeat interleaved at every point) against the C24 "
              "monitors (only own key / prefix, only committed changes, strictly increasing revisions, nothing after "
              "CANCELED, no silent gap) exhaustively for the bounds in the evidence file; witness schedules, "
              "TLC-simulated schedules and seeded random schedules are executed step by step on the real WatchRegistry "
              "+ WatchDispatcher::run + DefaultStateMachineHandler::apply_chunk (one dispatcher loop iteration per "
              "step) and TLC judges the sequences the real watchers received with the same monitor operators and "
              "compares them with the model's sequences."),
        note=("trusted: TLC, the in-memory reference state machine behind the handler, the harness' stepping of the "
              "dispatcher through tokio's cooperative budget (measured at start-up), the wiring copied from "
              "NodeBuilder::build; bounds: <= 3 watchers, broadcast buffer 2, watcher buffer 1-2, schedule lengths as "
              "reported; exhaustive only at model level within the reported constants; progress-revision "
              "staleness is reported as an observation, it is not part of C24's statement"),
        ref="DESIGN.md sections 2-3 (C24), design_parts/watch.md"),
}

AS_IMPL = ["LaggedWatchEventsDropped", "ProgressRevisionFromStaleCounter"]
W3 = ["w1", "w2", "w3"]
TARGETS = [{"kind": "exact", "path": ["a", "x"]}, {"kind": "exact", "path": ["a"]},
           {"kind": "prefix", "path": ["a"]}, {"kind": "prefix", "path": []}]
OPS = [{"c": "put", "key": ["a", "x"], "good": True}, {"c": "del", "key": ["a", "x"], "good": True},
       {"c": "put", "key": ["a"], "good": True}, {"c": "put", "key": ["b"], "good": True},
       {"c": "cas", "key": ["a", "x"], "good": True}, {"c": "cas", "key": ["a", "x"], "good": False},
       {"c": "noop", "key": [], "good": True}]

TIER = {
    "quick": dict(
        mc=[dict(name="w2-o4", W=["w1", "w2"], ops="MC_OpsTiny", buf=1, maxops=4, hb=1)],
        sim=dict(num=40, depth=22), rnd=240, rnd_len=28, workers=8, timeout=900),
    "thorough": dict(
        mc=[dict(name="w2-o4", W=["w1", "w2"], ops="MC_OpsTiny", buf=1, maxops=4, hb=1),
            dict(name="w2-o5-b2", W=["w1", "w2"], ops="MC_OpsTiny", buf=2, maxops=5, hb=1),
            dict(name="w3-o4-nohb", W=W3, ops="MC_OpsSmall", buf=1, maxops=4, hb=0, design=False)],
        sim=dict(num=3000, depth=30), rnd=4000, rnd_len=40, workers=8, timeout=2700),
}


def write_cfg(path, W, targets, ops, qcap, buf, maxops, maxbatch, hb, dev, emit, invariants, view=True,
              spec="Spec"):
    lines = ["SPECIFICATION " + spec, "CONSTANTS",
             "  W = " + dv.tla_set(W), "  Targets <- " + targets, "  Ops <- " + ops,
             "  QCap = %d" % qcap, "  BufCap = %d" % buf, "  MaxOps = %d" % maxops, "  MaxBatch = %d" % maxbatch,
             "  MaxHb = %d" % hb, "  Dev = " + dv.tla_set(dev), "  EmitDepth = %d" % emit]
    if view:
        lines.append("VIEW view")
    lines.append("CHECK_DEADLOCK FALSE")
    lines += ["INVARIANT " + i for i in invariants]
    with open(path, "w") as f:
        f.write("\n".join(lines) + "\n")
    return path


def unescape(s):
    return s.replace('\\"', '"').replace("\\\\", "\\")


def mc(wd, c, dev, invariants, workers, timeout, tag):
    cfg = write_cfg(os.path.join(wd, "%s-%s.cfg" % (c["name"], tag)), c["W"], "MC_TargetsFixed", c["ops"], 2,
                    c["buf"], c["maxops"], 1, c["hb"], dev, 0, invariants)
    rc, out, dt = dv.tlc("MC_watch", cfg, wd, workers=workers, timeout=timeout)
    st = dv.tlc_stats(out)
    st["secs"] = round(dt, 1)
    st["ok"] = "Model checking completed. No error has been found." in out
    st["violated"] = re.findall(r"Error: Invariant (\S+) is violated", out)
    st["witness"] = [json.loads(unescape(m.group(1))) for m in re.finditer(r'<<"WITNESS", "(.*)">>', out)]
    if not st["ok"] and not st["violated"]:
        raise dv.ToolError("TLC failed on Watch.tla (%s %s):\n%s" % (c["name"], tag, out[-3000:]))
    return st


def epilogue(ws):
    """drain: one dispatcher iteration, then every watcher empties its buffer; repeated"""
    ep = []
    for _ in range(10):
        ep.append({"a": "Disp"})
        for w in ws:
            ep += [{"a": "Recv", "w": w}] * 3
    return ep


def random_schedule(rng, length):
    ws = list(W3)
    s = []
    nops = 0
    for _ in range(length):
        r = rng.random()
        if r < 0.16:
            s.append({"a": "Register", "w": rng.choice(ws), "t": rng.choice(TARGETS)})
        elif r < 0.20:
            s.append({"a": "Drop", "w": rng.choice(ws)})
        elif r < 0.40:
            k = 1 if rng.random() < 0.7 else 2
            s.append({"a": "Apply", "ops": [rng.choice(OPS) for _ in range(k)]})
            nops += k
        elif r < 0.74:
            s.append({"a": "Disp"})
        elif r < 0.95:
            s.append({"a": "Recv", "w": rng.choice(ws)})
        else:
            s.append({"a": "Hb"})
    return s


def run_harness(wd, cases, tag):
    cp = os.path.join(wd, "cases-%s.ndjson" % tag)
    op = os.path.join(wd, "trace-%s.ndjson" % tag)
    with open(cp, "w") as f:
        for c in cases:
            f.write(json.dumps(c) + "\n")
    rc, out, dt = dv.run([dv.harness_bin("dv-watch"), "run", "--cases", cp, "--out", op, "--scratch",
                          os.path.join(wd, "scratch")], timeout=3000, check=False)
    if rc != 0:
        raise dv.ToolError("dv-watch failed (rc=%d):\n%s" % (rc, out[-3000:]))
    recs = []
    with open(op) as f:
        for line in f:
            recs.append(json.loads(line))
    return op, recs, dt


def judge(wd, trace_path, qcap, buf, tag, dev):
    cfg = write_cfg(os.path.join(wd, "judge-%s.cfg" % tag), W3, "TraceTargets", "TraceOps", qcap, buf, 1000, 2, 1000,
                    dev, 0, ["Done"], view=False, spec="TSpec")
    outp = os.path.join(wd, "judge-%s.json" % tag)
    rc, out, dt = dv.tlc("WatchTrace", cfg, wd, workers=1, env={"TRACE": trace_path, "OUT": outp},
                         timeout=3000, java_opts="-Xss1g -Xmx6g")
    if not os.path.exists(outp):
        raise dv.ToolError("trace judge produced no result:\n" + out[-4000:])
    with open(outp) as f:
        return json.load(f), dt


def check(prop, tier):
    t0 = time.time()
    wd = dv.workdir("watch-" + prop)
    try:
        return _check(prop, tier, TIER[tier], wd, t0)
    finally:
        shutil.rmtree(wd, ignore_errors=True)


def _harness_root():
    # binding self-test only (see snapxfer.py)
    root = os.environ.get("DV_HARNESS_ROOT")
    if root:
        dv.HARNESS = root


def _check(prop, tier, T, wd, t0):
    _harness_root()
    dv.build_harness("dv-watch")
    rng = random.Random(dv.seed())
    mc_stats = []
    phases = {}
    states = transitions = 0
    c0 = T["mc"][0]
    # 0. which of the listed deviations does the current tree show?  The shortest witness of each deviation
    #    (TLC, full deviation list) is executed on the real code and judged.
    probes = []
    for inv, mon in (("GapWitness", "NoSilentGap"), ("ProgressWitness", "ProgressNotBehind")):
        st = mc(wd, c0, AS_IMPL, [inv], 4, T["timeout"], "wit-" + mon)
        if not st["witness"]:
            raise dv.ToolError("the model with all listed deviations does not violate %s" % mon)
        probes.append((mon, st["witness"][0]))
    witnesses = [(mon, c0, s) for mon, s in probes]
    # 3. schedules
    groups = {(2, 1): [], (2, 2): []}
    for mon, c, s in witnesses:
        groups[(2, c["buf"])].append(("wit-" + mon, s, W3))
    cfg = write_cfg(os.path.join(wd, "sim.cfg"), W3, "MC_TargetsAny", "MC_OpsSmall", 2, 1,
                    T["sim"]["depth"], 1, 2, AS_IMPL, T["sim"]["depth"], ["Emit"], view=False)
    scheds, sim_secs = dv.tlc_simulate("MC_watch", cfg, wd, T["sim"]["num"], T["sim"]["depth"] + 1,
                                       dv.seed(), timeout=T["timeout"])
    phases["simulate"] = round(sim_secs, 1)
    for i, s in enumerate(scheds):
        groups[(2, 1 + i % 2)].append(("sim-%d" % i, s, W3))
    for buf in (1, 2):
        for i in range(T["rnd"] // 2):
            groups[(2, buf)].append(("rnd%d-%d" % (buf, i), random_schedule(rng, T["rnd_len"]), W3))

    # 4. real code
    traces = {}
    by_id = {}
    div0 = []
    for (qcap, buf), items in groups.items():
        cases = [{"id": cid, "qcap": qcap, "bufcap": buf, "steps": s + epilogue(ws)} for cid, s, ws in items]
        tag = "q%db%d" % (qcap, buf)
        tp, recs, hsecs = run_harness(wd, cases, tag)
        phases["harness-" + tag] = round(hsecs, 1)
        traces[(qcap, buf)] = (tp, len(cases), tag)
        for r in recs:
            by_id[r["id"]] = dict(qcap=qcap, bufcap=buf, steps=r["steps"], obs=r["obs"])
            if r.get("errors"):
                bad = [e for e in r["errors"] if e["what"] != "panic"]
                if bad:
                    raise dv.ToolError("harness step failed in %s: %s" % (r["id"], bad[:3]))
                div0.append({"id": r["id"], "what": "panic in the code under test: " + r.get("panic", "")})

    # 5. judge (TLC).  First against the model with every listed deviation; the witnesses tell which of the
    #    deviations the current tree shows; if some are gone, the model without them is the one bound to the code.
    def judge_all(dv_set):
        out = []
        for (qcap, buf), (tp, n, tag) in traces.items():
            res, jsecs = judge(wd, tp, qcap, buf, tag, dv_set)
            phases["judge-" + tag] = round(jsecs, 1)
            if len(res) != n:
                raise dv.ToolError("judge returned %d results for %d behaviours" % (len(res), n))
            out += res
        return out

    results = judge_all(AS_IMPL)
    pr = {j["id"]: j for j in results if j["id"].startswith("wit-")}
    dev = []
    if any(v["m"] == "NoSilentGap" and v["cause"] == "broadcast-lagged" for v in pr["wit-NoSilentGap"]["viol"]):
        dev.append("LaggedWatchEventsDropped")
    if pr["wit-ProgressNotBehind"]["progress"]:
        dev.append("ProgressRevisionFromStaleCounter")
    for d in AS_IMPL:
        if d not in dev:
            print("NOTE property=%s listed deviation %s is not shown by the current tree any more" % (prop, d))
    if dev != AS_IMPL:
        results = judge_all(dev)

    for c in T["mc"]:
        # 1. repaired design (the largest configuration is only run for the model bound to the code)
        if c.get("design", True) or not dev:
            st = mc(wd, c, [], ["C24_Safety", "C24_NoSilentGap", "Obs_Progress"], T["workers"], T["timeout"], "design")
            if not st["ok"]:
                raise dv.ToolError("Watch.tla (Dev = {}) violates %s in %s" % (st["violated"], c["name"]))
            mc_stats.append(dict(config=c["name"], dev="{}", constants=c, distinct_states=st["distinct"],
                                 states_generated=st["generated"], depth=st["depth"], secs=st["secs"]))
            states += st["distinct"]
            transitions += st["generated"]
        if not dev:
            continue
        # 2. as implemented: safety monitors hold on the whole space
        st = mc(wd, c, dev, ["C24_Safety"], T["workers"], T["timeout"], "asimpl")
        if not st["ok"]:
            raise dv.ToolError("as-implemented Watch.tla violates %s in %s: model and invariants disagree"
                               % (st["violated"], c["name"]))
        mc_stats.append(dict(config=c["name"], dev="as-implemented " + ",".join(dev), constants=c,
                             distinct_states=st["distinct"], states_generated=st["generated"], depth=st["depth"],
                             secs=st["secs"]))
        states += st["distinct"]
        transitions += st["generated"]


    viol, div, observations = [], list(div0), []
    total = 0
    nontrivial = set()
    samples = []
    counts = dict(lagged=0, cancelled=0, delivered_events=0, witness=len(witnesses), simulated=0, random=0)
    for j in results:
        total += 1
        for v in j["viol"]:
            viol.append(v)
        if j["div"]:
            div.append({"id": j["id"], "what": "delivered sequences differ from the model's", "watchers": j["div"]})
        if j["progress"]:
            observations.append({"id": j["id"], "watchers": j["progress"]})
        if not j["quiescent"]:
            raise dv.ToolError("epilogue did not drain behaviour " + j["id"])
        nd = sum(j["delivered"].values()) if isinstance(j["delivered"], dict) else 0
        counts["delivered_events"] += nd
        counts["lagged"] += 1 if j["lagged"] else 0
        counts["cancelled"] += 1 if j["cancelled"] else 0
        counts["model_cancelled"] = counts.get("model_cancelled", 0) + (1 if j["mcancelled"] else 0)
        if j["id"].startswith("sim"):
            counts["simulated"] += 1
        elif j["id"].startswith("rnd"):
            counts["random"] += 1
        if nd >= 2 and (j["lagged"] or j["cancelled"] or nd >= 4):
            nontrivial.add(json.dumps(by_id[j["id"]]["steps"], sort_keys=True))
            if len(samples) < 3 and (j["lagged"] or j["cancelled"]):
                b = by_id[j["id"]]
                samples.append({"id": j["id"], "bufcap": b["bufcap"], "lagged": j["lagged"],
                                "cancelled": j["cancelled"], "received": b["obs"],
                                "schedule": [x["a"] + (":" + x["w"] if "w" in x else "") for x in b["steps"][:30]]})

    known = dv.load_known() + dv.load_known_part("watch")
    known_hits, new = dv.classify(prop, viol, known=known)
    # vacuity: the schedules exercised lag, cancellation and delivery (judged on the model's side, so that a
    # broken implementation cannot hide behind it)
    if not new and (counts["lagged"] == 0 or counts.get("model_cancelled", 0) == 0 or counts["delivered_events"] == 0):
        raise dv.ToolError("schedules never exercised lag / cancel / delivery: %s" % counts)
    replay_paths = []
    seen = set()
    for v in new:
        sig = (v["m"], v["cause"])
        if sig in seen or len(replay_paths) >= 5:
            continue
        seen.add(sig)
        b = by_id[v["id"]]
        replay_paths.append(dv.save_replay(prop, {"engine": "watch", "property": prop, "qcap": b["qcap"],
                                                  "bufcap": b["bufcap"], "steps": b["steps"], "violation": v,
                                                  "received": b["obs"]}))
    cov = {
        "states": states, "transitions": transitions,
        "traces_validated_against_impl": total,
        "samples": samples or [{"note": "no sample"}],
        "evaluations": total, "distinct_nontrivial": len(nontrivial),
        "rule": "behaviours = witness schedules of the as-implemented model + TLC-simulated schedules + seeded random "
                "schedules, each executed step by step on the real registry / dispatcher / handler and judged by "
                "WatchTrace.tla; non-trivial = at least 2 events were received by watchers and (the broadcast "
                "channel lagged, or a watcher was cancelled, or at least 4 events were received); distinct by schedule",
        "model_checking": mc_stats, "behaviour_counts": counts, "phase_secs": phases,
        "deviations_listed": AS_IMPL, "deviations_shown_by_current_tree": dev,
        "monitor_failures": len(viol),
        "monitor_failures_by_signature": _count(viol),
        "conformance_divergences": div[:20], "conformance_divergence_count": len(div),
        "observations": {"progress_revision_behind_delivered_event": len(observations),
                         "note": "progress events carry the dispatcher's last_applied counter, which nothing updates "
                                 "after start-up (builder.rs last_applied_ref); not part of C24's statement"},
        "known_findings_hit": sorted({"%s/%s/%s" % (k["property"], k["monitor"], k["cause"]) for k, _ in known_hits}),
        "exhaustive": False,
    }
    level = "model_checking"
    dv.write_evidence(prop, tier, level, cov,
                      ["dispatcher stepped one loop iteration at a time on one thread: register / drop / apply happen "
                       "between iterations, not inside dispatch_to_map",
                       "in-memory reference state machine behind the real handler; watch wiring copied from "
                       "NodeBuilder::build (no full node, no gRPC stream layer)",
                       "prev_kv values and event values are not judged",
                       "bounds: <= 3 watchers, broadcast buffer 2, watcher buffer 1-2"],
                      time.time() - t0, len(new))
    if div:
        print("NOTE property=%s %d behaviour(s) differ from the model without violating the property "
              "(evidence level downgraded)" % (prop, len(div)))
    return dv.finish(prop, known_hits, new, replay_paths)


def _count(viol):
    c = {}
    for v in viol:
        k = "%s/%s" % (v["m"], v["cause"])
        c[k] = c.get(k, 0) + 1
    return c


def replay(prop, path):
    with open(path) as f:
        p = json.load(f)
    wd = dv.workdir("watch-replay-" + prop)
    try:
        _harness_root()
        dv.build_harness("dv-watch")
        tp, recs, _ = run_harness(wd, [{"id": "replay", "qcap": p["qcap"], "bufcap": p["bufcap"],
                                        "steps": p["steps"]}], "replay")
        res, _ = judge(wd, tp, p["qcap"], p["bufcap"], "replay", AS_IMPL)
        viol = [v for j in res for v in j["viol"]]
        for v in viol:
            print("reproduced:", json.dumps(v, sort_keys=True))
        print("received:", json.dumps(recs[0]["obs"], sort_keys=True))
        known = dv.load_known() + dv.load_known_part("watch")
        known_hits, new = dv.classify(prop, viol, known=known)
        return dv.finish(prop, known_hits, new, [path] if new else [])
    finally:
        shutil.rmtree(wd, ignore_errors=True)
