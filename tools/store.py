"""Store engine: BufLog.tla / LogStore.tla / MetaStore.tla (TLC as enumerator and oracle) +
dv-store (real BufferedRaftLog, File / RocksDB log and meta stores).

For every property TLC explores the complete state graph of the reference specification over a
small domain and emits it (states with the expected answer of every query, edges with operation,
arguments and expected result).  dv-store walks the paths of that graph on the real component and
compares every observation with the expectation of the spec state.  A mismatch is a concrete,
replayable operation sequence; its cause class is computed from the observed answers.
"""
import json
import os
import re
import shutil
import time

import dv

ENGINE = {"name": "store",
          "kind": "BufLog.tla / LogStore.tla / MetaStore.tla (TLC emits the reference state graph with expected "
                  "observations), dv-store path walker over the real BufferedRaftLog, File/RocksDB log and meta stores"}

PROPS = {}
MANIFEST_INFO = {}

THREADS = 6


def known():
    return dv.load_known() + dv.load_known_part("store")


# Binding self-test only: DV_STORE_HARNESS names a copy of the harness workspace whose path dependencies point to a
# scratch worktree of /repo carrying a seeded mutation or a candidate fix (never /repo itself).
_ALT = os.environ.get("DV_STORE_HARNESS")


def build():
    if not _ALT:
        return dv.build_harness("dv-store")
    rc, out, dt = dv.run(["cargo", "build", "--offline", "-p", "dv-store"], cwd=_ALT, timeout=3600, check=False)
    if rc != 0:
        raise dv.ToolError("harness build failed:\n" + out[-6000:])


def binp():
    return os.path.join(_ALT, "target", "debug", "dv-store") if _ALT else dv.harness_bin("dv-store")


# ---------------------------------------------------------------------------------------------
# TLC graph emission
# ---------------------------------------------------------------------------------------------
def _unescape(s):
    return s.replace('\\"', '"').replace("\\\\", "\\")


def tlc_graph(module, wd, constants, invariants, workers=6, timeout=1500, name="graph"):
    """Run TLC with Emit = TRUE and write the emitted graph (one record per line: 'S <state json>' /
    'E <edge json>') to <wd>/<name>.ndjson. Returns (path, n_states, n_edges, stats)."""
    cfg = os.path.join(wd, name + ".cfg")
    c = dict(constants)
    c["Emit"] = "TRUE"
    dv.write_cfg(cfg, constants=c, invariants=list(invariants) + ["EmitState"])
    rc, out, dt = dv.tlc(module, cfg, wd, workers=workers, timeout=timeout, java_opts="-Xss1g -Xmx12g")
    st = dv.tlc_stats(out)
    st["secs"] = round(dt, 1)
    if "Model checking completed. No error has been found." not in out:
        bad = re.findall(r"Error: Invariant (\S+) is violated", out)
        raise dv.ToolError("TLC on %s: %s\n%s" % (module, bad or "failed", out[-3000:]))
    path = os.path.join(wd, name + ".ndjson")
    ns = ne = 0
    with open(path, "w") as f:
        for m in re.finditer(r'^<<"(STATE|EDGE)", "(.*)">>$', out, re.M):
            if m.group(1) == "STATE":
                ns += 1
                f.write("S " + _unescape(m.group(2)) + "\n")
            else:
                ne += 1
                f.write("E " + _unescape(m.group(2)) + "\n")
    if not ns or not ne:
        raise dv.ToolError("TLC emitted no graph for %s:\n%s" % (module, out[-2000:]))
    if ns != st["distinct"]:
        raise dv.ToolError("graph emission incomplete: %d states emitted, %d distinct" % (ns, st["distinct"]))
    return path, ns, ne, st


# ---------------------------------------------------------------------------------------------
# C19
# ---------------------------------------------------------------------------------------------
C19_TIER = {
    "quick": dict(MaxIdx=3, MaxTerm=3, MaxLApp=2, depth=3, random=2500, rlen=10, max_runs=300000),
    "thorough": dict(MaxIdx=4, MaxTerm=3, MaxLApp=2, depth=4, random=60000, rlen=12, max_runs=800000),
}


def c19_graph(wd, T):
    consts = {"MaxIdx": T["MaxIdx"], "MaxTerm": T["MaxTerm"], "MaxLApp": T["MaxLApp"]}
    return tlc_graph("BufLog", wd, consts, ["TypeOK", "OnPath", "QueriesConsistent"], name="buflog-graph")


def _short_op(o):
    if o["k"] == "F":
        return "foca(prev=%d/%d,[%s])" % (o["p"], o["pt"], ",".join("%d:%d" % (e["i"], e["t"]) for e in o["es"]))
    if o["k"] == "L":
        return "leader_append(term=%d,n=%d)" % (o["t"], o["n"])
    if o["k"] == "P":
        return "purge(%d:%d)" % (o["i"], o["t"])
    return "reset"


def _pair(s):
    m = re.match(r"^\((\d+), (\d+)\)$", s)
    return (int(m.group(1)), int(m.group(2))) if m else None


def c19_judge(fail):
    """(monitor, cause) of one failing operation sequence, computed from what the real log answered."""
    path, k, ms = fail["path"], fail["step"], fail["mismatches"]
    op = path[k]
    res = [m for m in ms if m["q"] == "result"]
    if op["k"] == "L" and res:
        exp, got = _pair(res[0]["exp"]), _pair(res[0]["got"])
        if exp and got:
            # the log handed out an index that is not last_log_id.index + 1
            return ("LeaderAppendIndex", "allocated-index-beyond-next" if got[0] > exp[0]
                    else "allocated-index-not-after-last-log-id")
        return ("LeaderAppendIndex", "other")
    if res:
        return ("OperationResult", "other")
    if any(m["got"].startswith("panic") or "corrupt" in m["got"] or m["got"].startswith("Err") for m in ms):
        return ("QueryAnswers", "other")
    # answers that can only come from a purge boundary recorded before the last reset
    resets = [i for i, o in enumerate(path[:k + 1]) if o["k"] == "R" or (o["k"] == "F" and o["p"] == 0)]
    if resets and not any(o["k"] == "P" for o in path[resets[-1]:k + 1]):
        pur = [o for o in path[:resets[-1]] if o["k"] == "P"]
        if pur:
            b = pur[-1]
            if all((m["q"] == "entry_term" and m["arg"] == str(b["i"]) and m["exp"] == "0" and m["got"] == str(b["t"]))
                   or (m["q"] == "last_log_id" and m["exp"] == "(0, 0)" and m["got"] == "(%d, %d)" % (b["i"], b["t"]))
                   for m in ms):
                return ("QueryAnswers", "purge-boundary-survives-reset")
    return ("QueryAnswers", "other")


def run_buflog(wd, gpath, T, extra):
    out = os.path.join(wd, "buflog-result.json")
    cmd = [binp(), "buflog", "--graph", gpath, "--max-idx", str(T["MaxIdx"]),
           "--max-term", str(T["MaxTerm"]), "--out", out] + extra
    dv.run(cmd, timeout=3000)
    with open(out) as f:
        return json.load(f)


def check_c19(tier):
    t0 = time.time()
    T = C19_TIER[tier]
    wd = dv.workdir("store-C19")
    build()
    gpath, ns, ne, st = c19_graph(wd, T)
    res = run_buflog(wd, gpath, T, ["--depth", str(T["depth"]), "--random", str(T["random"]), "--rlen", str(T["rlen"]),
                                    "--seed", str(dv.seed()), "--threads", str(THREADS), "--max-runs", str(T["max_runs"])])
    viol = []
    for f in res["fails"]:
        m, c = c19_judge(f)
        viol.append({"p": "C19", "m": m, "cause": c, "fail": f})
    known_hits, new = dv.classify("C19", viol, known=known())
    replay_paths = []
    seen = set()
    for v in sorted(new, key=lambda v: len(v["fail"]["path"])):
        key = (v["m"], v["cause"], v["fail"]["mismatches"][0]["q"])
        if key in seen:
            continue
        seen.add(key)
        replay_paths.append(dv.save_replay("C19", {"engine": "store", "property": "C19", "consts": T,
                                                   "path": v["fail"]["path"], "step": v["fail"]["step"],
                                                   "monitor": v["m"], "cause": v["cause"],
                                                   "mismatches": v["fail"]["mismatches"][:8]}))
        if len(replay_paths) >= 5:
            break
    causes = {}
    for v in viol:
        k = "%s/%s" % (v["m"], v["cause"])
        causes[k] = causes.get(k, 0) + 1
    first = {}
    for v in sorted(viol, key=lambda v: len(v["fail"]["path"])):
        k = "%s/%s" % (v["m"], v["cause"])
        if k not in first:
            first[k] = {"sequence": [_short_op(o) for o in v["fail"]["path"]],
                        "mismatches": [[m["q"], m["arg"], "expected " + m["exp"], "got " + m["got"]]
                                       for m in v["fail"]["mismatches"][:4]]}
    runs = res["runs"] + res["random_runs"]
    cov = {
        "states": st["distinct"], "transitions": st["generated"],
        "traces_validated_against_impl": runs,
        "evaluations": runs, "distinct_nontrivial": res["nontrivial"],
        "rule": "cases = operation sequences on a fresh BufferedRaftLog that are paths of the TLC state graph of "
                "BufLog.tla (all Raft-consistent universes over the bounds): every distinct sequence of log-changing "
                "operations up to the depth below, each followed by every rejected/idempotent request enabled in its "
                "final state, plus seeded random walks; after the last operation the result and the answer of every "
                "query (first/last id, last log id, is_empty, last_entry, entry_term/entry for every index, "
                "first/last index for every term, every range read) are compared with the spec state; non-trivial = "
                "the sequence contains a conflict truncation, a purge or a reset; distinct by operation sequence",
        "samples": [[_short_op(o) for o in s] for s in res["samples"]] or [{"note": "no sample"}],
        "bounds": {k: T[k] for k in ("MaxIdx", "MaxTerm", "MaxLApp")},
        "graph_states": ns, "graph_edges": ne, "universes": res["graph_universes"], "tlc_secs": st["secs"],
        "dfs_depth": T["depth"], "dfs_complete": not res["truncated"], "dfs_nodes": res["dfs_nodes"],
        "distinct_sequences_executed": res["runs"], "probes_run": res["probes_run"],
        "random_walks": res["random_runs"], "random_walk_length": T["rlen"],
        "failing_sequences": len(viol), "failing_by_cause": causes, "shortest_failing_by_cause": first,
        "known_findings_hit": sorted({"%s/%s/%s" % (k["property"], k["monitor"], k["cause"]) for k, _ in known_hits}),
        "exhaustive": False,
    }
    dv.write_evidence("C19", tier, "model_checking", cov,
                      ["the reference is the plain log of BufLog.tla (RaftLog trait contract); TLC checks its own "
                       "consistency invariants (TypeOK, OnPath, QueriesConsistent) on the whole graph",
                       "inputs are restricted to requests that can reach one node in a run of Raft (entries of a tree "
                       "of logs, one chain per term, sender terms not below the node's term)",
                       "in-memory LogStore behind the buffered log (the store is not the subject of C19)",
                       "sequences that extend a failing sequence are not explored (their expectation is void)"],
                      time.time() - t0, len(new))
    rc = dv.finish("C19", known_hits, new, replay_paths)
    shutil.rmtree(wd, ignore_errors=True)
    return rc


def replay_c19(path):
    with open(path) as f:
        payload = json.load(f)
    T = payload["consts"]
    wd = dv.workdir("replay-C19")
    build()
    gpath, ns, ne, st = c19_graph(wd, T)
    res = run_buflog(wd, gpath, T, ["--replay", path])
    if not res.get("found"):
        raise dv.ToolError("the recorded sequence is not a path of the specification graph")
    viol = []
    for f in res["fails"]:
        m, c = c19_judge(f)
        viol.append({"p": "C19", "m": m, "cause": c, "fail": f})
        print("reproduced: %s/%s after %s: %s" % (m, c, " ; ".join(_short_op(o) for o in f["path"]),
                                                   json.dumps(f["mismatches"][:4])))
    known_hits, new = dv.classify("C19", viol, known=known())
    shutil.rmtree(wd, ignore_errors=True)
    return dv.finish("C19", known_hits, new, [path] if new else [])


# ---------------------------------------------------------------------------------------------
# C20
# ---------------------------------------------------------------------------------------------
C20_TIER = {
    "quick": dict(MaxIdx=3, NVal=2, walks=200, wlen=30, dfs_depth=1, dfs_depth_rocksdb=1, reopen_pct=25, cp_walks=10, cp_len=8),
    "thorough": dict(MaxIdx=4, NVal=2, walks=600, wlen=40, dfs_depth=2, dfs_depth_rocksdb=1, reopen_pct=20, cp_walks=120, cp_len=10),
}


def c20_graph(wd, T):
    return tlc_graph("LogStore", wd, {"MaxIdx": T["MaxIdx"], "NVal": T["NVal"]}, ["TypeOK", "AnswersConsistent"],
                     name="logstore-graph")


def _sop(o):
    k = o["k"]
    es = lambda o: ",".join("%d=%d" % (e["i"], e["v"]) for e in o["es"])
    if k == "persist":
        return "persist[%s]" % es(o)
    if k == "replace":
        return "replace_range(%d,[%s])" % (o["from"], es(o))
    if k == "truncate":
        return "truncate(%d)" % o["from"]
    if k == "purge":
        return "purge(%d:%d)" % (o["i"], o["t"])
    return k


def _maxkey(content):
    ks = [i for i, v in enumerate(content) if v]
    return max(ks) if ks else 0


def _cached_last_index(engine, path, exp_content, upto):
    """Value of the engine's cached last index after step `upto`, following the rule by which the engine
    updates the cache (named deviation LastIndexCacheFollowsLastCall), given that the contents agreed so far."""
    c = 0
    for j in range(upto + 1):
        o = path[j]
        k = o["k"]
        if engine == "file":
            if k == "persist":
                c = max(e["i"] for e in o["es"])
            elif k in ("truncate", "replace"):
                c = _maxkey(exp_content[j])
            elif k == "reset":
                c = 0
        else:
            if k == "persist":
                c = max(e["i"] for e in o["es"])
            elif k == "truncate":
                c = max(o["from"] - 1, 0)
            elif k == "replace":
                c = o["es"][-1]["i"] if o["es"] else max(o["from"] - 1, 0)
            elif k == "reset":
                c = 0
    return c


def _file_order_broken(path, exp_content, upto):
    """True if, up to step `upto`, some batch was appended to the file that is not in ascending index order or
    starts at or below an index the store already held (append order != index order), and a truncation
    (truncate / replace_range) followed it."""
    tainted = False
    for j in range(upto + 1):
        o = path[j]
        k = o["k"]
        before = exp_content[j - 1] if j > 0 else [0] * len(exp_content[0])
        if k in ("truncate", "replace") and tainted:
            return True
        if k in ("persist", "replace") and o.get("es"):
            held = before if k == "persist" else [v if i < o["from"] else 0 for i, v in enumerate(before)]
            idx = [e["i"] for e in o["es"]]
            if idx != sorted(idx) or idx[0] <= _maxkey(held):
                tainted = True
    return False


def c20_judge(f):
    """List of (monitor, cause) that together explain every mismatch of one failing observation."""
    eng, phase, path, k, ms = f["engine"], f["phase"], f["path"], f["step"], f["mismatches"]
    E = "File" if eng == "file" else "RocksDB"
    ph = "Live" if phase == "live" else "Reopen"
    out = set()
    if phase == "apply" or any(m["q"] in ("open", "copy", "query", "result") for m in ms):
        return [(E + ".Operation", "other")]
    expc = f["exp_content"]
    exp_now = expc[k]
    got = list(exp_now)
    bad_entry = False
    for m in ms:
        if m["q"] == "entry":
            i = int(m["arg"])
            if m["got"].isdigit():
                got[i] = int(m["got"])
            else:
                got[i] = -1
                bad_entry = True
    content_ms = [m for m in ms if m["q"] in ("entry", "get_entries")]
    content_cause = None
    if content_ms:
        if eng == "rocksdb" and phase == "live" and path[k]["k"] == "truncate":
            # truncate deletes keys >= from in ascending order and stops after the first key >= cached last index
            before = expc[k - 1] if k > 0 else [0] * len(exp_now)
            cache = _cached_last_index(eng, path, expc, k - 1) if k > 0 else 0
            pred = list(before)
            for i in range(path[k]["from"], len(before)):
                if before[i]:
                    pred[i] = 0
                    if i >= cache:
                        break
            content_cause = "truncate-stops-at-stale-last-index-cache" if pred == got and not bad_entry else "other"
        elif eng == "file" and phase != "live":
            content_cause = ("truncate-cuts-file-by-position-after-out-of-order-append"
                             if _file_order_broken(path, expc, k) else "other")
        else:
            content_cause = "other"
        out.add(("%s.%sEntries" % (E, ph), content_cause))
    for m in ms:
        if m["q"] == "load_purge_boundary":
            out.add(("%s.%sPurgeBoundary" % (E, ph),
                     "store-keeps-no-purge-boundary" if eng == "file" and m["got"] == "(0, 0)" else "other"))
        elif m["q"] == "last_index":
            g = int(m["got"]) if m["got"].isdigit() else -1
            if phase == "live" and not content_ms:
                ok = g == _cached_last_index(eng, path, expc, k)
                out.add(("%s.LiveLastIndex" % E, "cache-follows-last-call-not-highest-index" if ok else "other"))
            elif content_ms and content_cause not in (None, "other"):
                # follows from the entries the store holds / reloaded
                if phase == "live":
                    ok = g == _cached_last_index(eng, path, expc, k)
                else:
                    ok = g == max([i for i, v in enumerate(got) if v], default=0)
                out.add(("%s.%sLastIndex" % (E, ph), content_cause if ok else "other"))
            else:
                out.add(("%s.%sLastIndex" % (E, ph), "other"))
    return sorted(out)


def run_logstore(wd, gpath, T, extra):
    out = os.path.join(wd, "logstore-result.json")
    cmd = [binp(), "logstore", "--graph", gpath, "--max-idx", str(T["MaxIdx"]),
           "--scratch", os.path.join(wd, "scratch"), "--out", out] + extra
    dv.run(cmd, timeout=3000)
    with open(out) as f:
        return json.load(f)


def c20_violations(res):
    if res.get("fails_dropped"):
        raise dv.ToolError("the log store walker dropped %d failing observations" % res["fails_dropped"])
    viol = []
    for f in res["fails"]:
        for m, c in c20_judge(f):
            viol.append({"p": "C20", "m": m, "cause": c, "fail": f})
    return viol


def _load_ls_graph(gpath):
    states, edges = {}, {}
    with open(gpath) as f:
        for line in f:
            if line.startswith("S "):
                r = json.loads(line[2:])
                states[json.dumps(r["k"])] = r
            elif line.startswith("E "):
                r = json.loads(line[2:])
                edges.setdefault(json.dumps(r["f"]), []).append(r)
    return states, edges


def _inorder_edges(key, outs):
    """edges a log-structured user makes: appends at the tail in index order, replace_range with an ascending batch
    starting at `from`, any truncate / purge / reset / flush"""
    ents = json.loads(key)[0]
    last = max([i + 1 for i, v in enumerate(ents) if v], default=0)
    res = []
    for e in outs:
        o = e["op"]
        if o["k"] == "persist":
            idx = [x["i"] for x in o["es"]]
            if idx == list(range(last + 1, last + 1 + len(idx))):
                res.append(e)
        elif o["k"] == "replace":
            idx = [x["i"] for x in o["es"]]
            if o["from"] <= last + 1 and idx == list(range(o["from"], o["from"] + len(idx))):
                res.append(e)
        elif o["k"] == "truncate":
            if o["from"] <= last + 1:
                res.append(e)
        else:
            res.append(e)
    return res


def c20_file_crash_points(wd, T, gpath, nwalks, wlen):
    """File log store: crash points INSIDE store calls. The system calls of scripted in-order operation sequences
    (strace) are replayed on FsModel.tla by TLC (MetaStoreTrace.tla), which emits the process-crash image at every call
    boundary; each image is loaded by a fresh FileLogStore and must equal the LogStore.tla state before or after the
    operation in flight (for a two-entry persist also the state with only its first entry)."""
    import random
    import store_fs
    states, edges = _load_ls_graph(gpath)
    init = next(k for k in states if not any(json.loads(k)[0]) and json.loads(k)[1] == [0, 0])
    rng = random.Random(dv.seed() * 7919 + 13)
    runs, events_all = [], []
    for w in range(nwalks):
        key, path = init, []
        for _ in range(wlen):
            cand = _inorder_edges(key, sorted(edges.get(key, []), key=lambda e: json.dumps(e["op"], sort_keys=True)))
            by_kind = {}
            for e in cand:
                by_kind.setdefault(e["op"]["k"], []).append(e)
            kinds = [k for k in ["persist", "persist", "persist", "replace", "replace", "purge", "truncate", "reset", "flush"] if k in by_kind]
            e = rng.choice(by_kind[rng.choice(kinds)])
            path.append((key, e))
            key = json.dumps(e["t"])
        d = os.path.join(wd, "fcp", "w%d" % w)
        os.makedirs(d)
        tr = os.path.join(wd, "fcp-strace-%d.txt" % w)
        ops = [e["op"] for _, e in path]
        dv.run(store_fs.strace_cmd(tr, [binp(), "logstore", "script", "--engine", "file", "--dir", d, "--ops", json.dumps(ops)]),
               timeout=600)
        ev = store_fs.parse(tr, os.path.join(d, "logs"))
        if sum(1 for x in ev if x["e"] == "mark") != 2 * len(ops):
            raise dv.ToolError("strace trace of the log store script lacks marks")
        events_all.append({"e": "newrun"})
        events_all.extend(ev)
        runs.append(path)
        os.remove(tr)
    tp = os.path.join(wd, "fcp-events.ndjson")
    with open(tp, "w") as f:
        for e in events_all:
            f.write(json.dumps(e) + "\n")
    rc, out, dt = dv.tlc("MetaStoreTrace", os.path.join(dv.SPEC, "MetaStoreTrace.cfg"), wd, workers=1, env={"TRACE": tp},
                         timeout=1500, java_opts="-Xss1g -Xmx8g")
    if '<<"DONE", %d>>' % len(events_all) not in out:
        raise dv.ToolError("trace judge did not reach the end of the log store trace:\n" + out[-3000:])
    images = [json.loads(_unescape(m.group(1))) for m in re.finditer(r'^<<"IMAGE", "(.*)">>$', out, re.M)]
    images = [im for im in images if im["kind"] == "process"]
    dirs = []
    for n, im in enumerate(images):
        files = im["img"] if isinstance(im["img"], dict) else {}
        dd = os.path.join(wd, "fcp-img", str(n))
        os.makedirs(os.path.join(dd, "logs"))
        for name, content in files.items():
            with open(os.path.join(dd, "logs", name), "wb") as f:
                f.write(bytes(content))
        im["dir"] = dd
        dirs.append(dd)
    lst, outp = os.path.join(wd, "fcp.list"), os.path.join(wd, "fcp-load.ndjson")
    with open(lst, "w") as f:
        f.write("\n".join(dirs) + "\n")
    dv.run([binp(), "logstore", "load", "--engine", "file", "--max-idx", str(T["MaxIdx"]), "--list", lst, "--out", outp], timeout=1200)
    loaded = {}
    with open(outp) as f:
        for line in f:
            r = json.loads(line)
            loaded[r["dir"]] = r

    def content_of(key):
        return [str(v) for v in states[key]["obs"]["entry"]]

    def target(key, op):
        for e in edges.get(key, []):
            if e["op"] == op:
                return json.dumps(e["t"])
        return None

    viol, inside = [], 0
    for im in images:
        path = runs[im["run"] - 1]
        k = im["op"]                      # 1-based op number: in flight (during) or last completed (after)
        r = loaded[im["dir"]]
        if k == 0:
            continue
        before_key, e = path[k - 1]
        after_key = json.dumps(e["t"])
        op = e["op"]
        allowed = {after_key: "after"}
        if im["phase"] == "during":
            inside += 1
            allowed[before_key] = "before"
            if op["k"] == "persist" and len(op["es"]) == 2:
                t1 = target(before_key, {"k": "persist", "es": op["es"][:1]})
                if t1:
                    allowed[t1] = "first-entry-only"
        got = r.get("entry")
        ok = (not r.get("err")) and any(got == content_of(a) and len(r["all"]) == sum(1 for v in content_of(a) if v != "0")
                                        for a in allowed)
        if ok:
            continue
        # cause from the observed contents
        cause = "other"
        if not r.get("err") and im["phase"] == "during":
            if op["k"] == "replace":
                tt = target(before_key, {"k": "truncate", "from": op["from"]})
                if tt and got == content_of(tt):
                    cause = "replace-range-truncation-visible-without-new-entries"
                else:
                    t2 = [target(tt, {"k": "persist", "es": op["es"][:n]}) for n in range(1, len(op["es"]))] if tt else []
                    if any(x and got == content_of(x) for x in t2):
                        cause = "replace-range-truncation-visible-with-part-of-new-entries"
            elif op["k"] == "purge":
                aft = content_of(after_key)
                kept = [i for i, v in enumerate(aft) if v != "0"]
                have = [i for i, v in enumerate(got) if v != "0"]
                if all(got[i] == aft[i] for i in have) and have == kept[:len(have)] and len(have) < len(kept):
                    cause = "purge-rewrites-file-in-place-kept-entries-missing"
        viol.append({"p": "C20", "m": "File.CrashInsideCall", "cause": cause,
                     "fail": {"engine": "file", "phase": "crash-inside-" + op["k"] if im["phase"] == "during" else "crash-after-" + op["k"],
                              "path": [x[1]["op"] for x in path[:k]], "step": k - 1,
                              "mismatches": [{"q": "entries", "arg": "after event %d" % im["at"],
                                              "exp": " | ".join("%s:%s" % (allowed[a], content_of(a)) for a in allowed),
                                              "got": str(got if not r.get("err") else r.get("err"))}],
                              "exp_content": []}})
    return dict(viol=viol, images=len(images), inside=inside, walks=nwalks, wlen=wlen)


def check_c20(tier):
    t0 = time.time()
    T = C20_TIER[tier]
    wd = dv.workdir("store-C20")
    build()
    gpath, ns, ne, st = c20_graph(wd, T)
    res = run_logstore(wd, gpath, T, ["--walks", str(T["walks"]), "--len", str(T["wlen"]), "--dfs-depth", str(T["dfs_depth"]),
                                      "--dfs-depth-rocksdb", str(T["dfs_depth_rocksdb"]), "--reopen-pct", str(T["reopen_pct"]), "--seed", str(dv.seed()),
                                      "--threads", str(THREADS)])
    viol = c20_violations(res)
    fcp = c20_file_crash_points(wd, T, gpath, T["cp_walks"], T["cp_len"])
    viol += fcp["viol"]
    known_hits, new = dv.classify("C20", viol, known=known())
    replay_paths = []
    seen = set()
    for v in sorted(new, key=lambda v: len(v["fail"]["path"])):
        key = (v["m"], v["cause"])
        if key in seen:
            continue
        seen.add(key)
        f = v["fail"]
        replay_paths.append(dv.save_replay("C20", {"engine": "store", "property": "C20", "consts": T,
                                                   "engine_under_test": f["engine"], "phase": f["phase"],
                                                   "path": f["path"], "step": f["step"], "monitor": v["m"],
                                                   "cause": v["cause"], "mismatches": f["mismatches"][:8]}))
        if len(replay_paths) >= 5:
            break
    causes, first = {}, {}
    for v in sorted(viol, key=lambda v: len(v["fail"]["path"])):
        k = "%s/%s" % (v["m"], v["cause"])
        causes[k] = causes.get(k, 0) + 1
        if k not in first:
            first[k] = {"engine": v["fail"]["engine"], "phase": v["fail"]["phase"],
                        "sequence": [_sop(o) for o in v["fail"]["path"]],
                        "mismatches": [[m["q"], m["arg"], "expected " + m["exp"], "got " + m["got"]]
                                       for m in v["fail"]["mismatches"][:4]]}
    cov = {
        "states": st["distinct"], "transitions": st["generated"],
        "traces_validated_against_impl": res["runs"],
        "evaluations": res["steps"], "distinct_nontrivial": res["distinct_sequences"],
        "rule": "cases = operation sequences that are paths of the TLC state graph of LogStore.tla, executed on a fresh "
                "FileLogStore and a fresh RocksDBLogStore: every path up to dfs_depth (reopen after every step) and seeded "
                "random walks (operation kind first, then uniform; crash-copy reopen at a random subset of steps and at "
                "the end, graceful drop + reopen at the end); after every step last_index, load_purge_boundary, entry(i) "
                "for every index and get_entries for every range are compared with the spec state, live and on the "
                "reopened instance; evaluations = steps executed; distinct_nontrivial = distinct operation sequences "
                "(every sequence contains out-of-order / re-written persists, truncations or purges by construction of "
                "the walk)",
        "samples": [{"engine": s["engine"], "walk": [_sop(o) for o in s["walk"]]} for s in res["samples"]] or [{"note": "none"}],
        "bounds": {"MaxIdx": T["MaxIdx"], "NVal": T["NVal"], "batch": "1 entry or 2 entries with different indexes in either order"},
        "graph_states": ns, "graph_edges": ne, "tlc_secs": st["secs"],
        "walks_per_engine": T["walks"], "walk_length": T["wlen"], "dfs_depth": T["dfs_depth"],
        "steps_executed": res["steps"], "reopen_checks": res["reopens"],
        "file_crash_points_inside_calls": {"walks": fcp["walks"], "walk_length": fcp["wlen"], "images_loaded": fcp["images"],
                                           "images_inside_a_call": fcp["inside"]},
        "graph_edges_covered_by_walks": res["edges_covered_by_walks"],
        "failing_observations_by_signature": res["signature_counts"],
        "file_observations_differing_only_in_missing_purge_boundary": res.get("file_purge_boundary_only_observations", 0),
        "failing_by_cause": causes, "shortest_failing_by_cause": first,
        "known_findings_hit": sorted({"%s/%s/%s" % (k["property"], k["monitor"], k["cause"]) for k, _ in known_hits}),
        "exhaustive": False,
    }
    dv.write_evidence("C20", tier, "model_checking", cov,
                      ["reference = LogStore.tla (map index -> entry, purge boundary of the last purge, last index = highest "
                       "index present); TLC checks TypeOK and AnswersConsistent on the whole graph",
                       "process-crash image = copy of the data directory at a step boundary; crash points inside a store "
                       "call only for FileLogStore (system-call trace replayed on FsModel.tla by TLC, in-order operation "
                       "sequences); RocksDB write batches are trusted to be atomic",
                       "a walk stops at the first step whose live entries differ from the reference; mismatches of "
                       "last_index / purge boundary alone do not stop it (they do not change the contents)",
                       "purge boundaries only move forward; power-loss images are not built for C20"],
                      time.time() - t0, len(new))
    rc = dv.finish("C20", known_hits, new, replay_paths)
    shutil.rmtree(wd, ignore_errors=True)
    return rc


def replay_c20(path):
    with open(path) as f:
        payload = json.load(f)
    T = payload["consts"]
    wd = dv.workdir("replay-C20")
    build()
    gpath, ns, ne, st = c20_graph(wd, T)
    res = run_logstore(wd, gpath, T, ["--replay", path])
    if not res.get("found"):
        raise dv.ToolError("the recorded sequence is not a path of the specification graph")
    viol = c20_violations(res)
    for v in viol:
        f = v["fail"]
        print("reproduced: %s/%s (%s, %s) after %s: %s" % (v["m"], v["cause"], f["engine"], f["phase"],
                                                           " ; ".join(_sop(o) for o in f["path"]),
                                                           json.dumps(f["mismatches"][:3])))
    known_hits, new = dv.classify("C20", viol, known=known())
    shutil.rmtree(wd, ignore_errors=True)
    return dv.finish("C20", known_hits, new, [path] if new else [])


# ---------------------------------------------------------------------------------------------
# C21
# ---------------------------------------------------------------------------------------------
# values saved one after the other: [term, voted_for_id (0 = none), voted_for_term, committed]
C21_VALUES = {
    "quick": [[2, 0, 0, 0], [3, 1, 3, 0], [5, 0, 0, 0], [5, 2, 5, 1]],
    "thorough": [[2, 0, 0, 0], [3, 1, 3, 0], [5, 0, 0, 0], [5, 2, 5, 1], [6, 2, 6, 0], [258, 0, 0, 0], [65536, 3, 65536, 1]],
}


def c21_mc(wd, dev, name):
    cfg = os.path.join(wd, name + ".cfg")
    dv.write_cfg(cfg, constants={"Vals": "{1,2,3}", "Dev": dv.tla_set(dev), "MaxSaves": 3,
                                 "CrashKinds": dv.tla_set(["process", "power"])},
                 invariants=["TypeOK", "C21_OldOrNew", "C21_ReturnedSurvivesProcessCrash"])
    return dv.tlc_mc("MetaStore", cfg, wd, workers=2, timeout=600)


def _load_images(wd, engine, dirs):
    lst = os.path.join(wd, "load-%s.list" % engine)
    out = os.path.join(wd, "load-%s.ndjson" % engine)
    with open(lst, "w") as f:
        f.write("\n".join(dirs) + "\n")
    dv.run([binp(), "metastore", "load", "--engine", engine, "--list", lst, "--out", out], timeout=1200)
    res = {}
    with open(out) as f:
        for line in f:
            r = json.loads(line)
            res[r["dir"]] = r
    return res


def _outcome(r, values):
    """0 = no state, k = k-th value, -1 = some other state, 'err: ..' = load failed"""
    if r.get("err"):
        return "err: " + str(r["err"])[:80]
    if r["state"] is None:
        return 0
    return values.index(r["state"]) + 1 if r["state"] in values else -1


def c21_file(wd, values):
    """File meta store: system-call trace -> FsModel (TLC) -> crash images -> real loader."""
    import store_fs
    d = os.path.join(wd, "file", "meta")
    os.makedirs(d)
    tr = os.path.join(wd, "file-strace.txt")
    cmd = [binp(), "metastore", "run", "--engine", "file", "--dir", d, "--values", json.dumps(values)]
    dv.run(store_fs.strace_cmd(tr, cmd), timeout=600)
    events = store_fs.parse(tr, d)
    marks = [e for e in events if e["e"] == "mark"]
    if len(marks) != 2 * len(values):
        raise dv.ToolError("strace trace has %d marks, expected %d" % (len(marks), 2 * len(values)))
    # the steps of one save as the real code performed them (conformance information)
    steps, inwin, written = [], False, {}
    cur = None
    for e in events:
        if e["e"] == "mark":
            inwin = e["w"] == "begin"
            cur = e["v"]
            if inwin:
                steps.append([])
                written[cur] = {}
            continue
        if inwin:
            steps[-1].append(e["e"] + ("(%s)" % e.get("p") if e.get("p") else ""))
            if e["e"] == "write":
                written[cur][e["p"]] = written[cur].get(e["p"], []) + e["d"]
    tp = os.path.join(wd, "file-events.ndjson")
    with open(tp, "w") as f:
        for e in events:
            f.write(json.dumps(e) + "\n")
    rc, out, dt = dv.tlc("MetaStoreTrace", os.path.join(dv.SPEC, "MetaStoreTrace.cfg"), wd, workers=1,
                         env={"TRACE": tp}, timeout=900)
    if '<<"DONE", %d>>' % len(events) not in out:
        raise dv.ToolError("trace judge did not reach the end of the trace:\n" + out[-3000:])
    st = dv.tlc_stats(out)
    images = [json.loads(_unescape(m.group(1))) for m in re.finditer(r'^<<"IMAGE", "(.*)">>$', out, re.M)]
    dirs = []
    for n, im in enumerate(images):
        files = im["img"] if isinstance(im["img"], dict) else {}
        dd = os.path.join(wd, "file-img", str(n))
        os.makedirs(dd)
        for name, content in files.items():
            with open(os.path.join(dd, name), "wb") as f:
                f.write(bytes(content))
        im["dir"] = dd
        im["files"] = files
        dirs.append(dd)
    loaded = _load_images(wd, "file", dirs)
    encs = {k: v for k, v in written.items()}
    viol, rows = [], []
    for im in images:
        o = _outcome(loaded[im["dir"]], values)
        im["outcome"] = o
        fl = im["files"].get("hard_state.bin")
        if fl is None:
            shape = "absent-file"
        elif not fl:
            shape = "empty-file"
        elif any(fl == d_ for k in encs for d_ in encs[k].values()):
            shape = "complete-record"
        else:
            shape = "partial-record"
        im["shape"] = shape
        rows.append(im)
        if o not in im["allowed"]:
            loads = "no-state" if o == 0 else ("error" if isinstance(o, str) else "other-value")
            mon = "OldOrNew" if im["phase"] == "during" else ("ReturnedValueSurvivesProcessCrash" if im["kind"] == "process"
                                                              else "OldOrNewAfterReturn")
            viol.append({"p": "C21", "m": "File." + mon, "cause": "%s-crash:%s:loads-%s" % (im["kind"], shape, loads),
                         "image": {k: im[k] for k in ("at", "kind", "phase", "allowed", "strict", "files", "outcome")},
                         "engine_under_test": "file"})
    return dict(events=events, steps=steps, images=rows, viol=viol, judge_states=st["distinct"],
                observed_dev=sorted((["RewriteInPlace"] if any("open(hard_state.bin)" in s for s in steps) else []) +
                                    ([] if any(x.startswith("fsync") for s in steps for x in s) else ["NoFsync"])))


def c21_rocksdb(wd, values):
    """RocksDB meta store: image of the data directory after every returned save (killed process), and the
    directory the process leaves when it exits without running destructors."""
    d = os.path.join(wd, "rocksdb", "db")
    copies = os.path.join(wd, "rocksdb", "copies")
    os.makedirs(d)
    os.makedirs(copies)
    dv.run([binp(), "metastore", "run", "--engine", "rocksdb", "--dir", d, "--values",
            json.dumps(values), "--copy-after-each", copies], timeout=600)
    dirs = [os.path.join(copies, "after%d" % (k + 1)) for k in range(len(values))] + [d]
    loaded = _load_images(wd, "rocksdb", dirs)
    viol, rows = [], []
    for k, dd in enumerate(dirs):
        want = min(k + 1, len(values))
        o = _outcome(loaded[dd], values)
        rows.append({"at": "after save %d returned" % want, "kind": "process", "allowed": [want], "outcome": o})
        if o != want:
            loads = "no-state" if o == 0 else ("error" if isinstance(o, str) else "other-value")
            viol.append({"p": "C21", "m": "RocksDB.ReturnedValueSurvivesProcessCrash",
                         "cause": "process-crash:after-return:loads-%s" % loads,
                         "image": rows[-1], "engine_under_test": "rocksdb"})
    return dict(images=rows, viol=viol)


def check_c21(tier):
    t0 = time.time()
    values = C21_VALUES[tier]
    wd = dv.workdir("store-C21")
    build()
    # design level: the repaired procedure satisfies the property, under both crash kinds
    mc = c21_mc(wd, [], "meta-repaired")
    if not mc["ok"]:
        raise dv.ToolError("MetaStore.tla with Dev = {} violates %s" % mc["violated"])
    fr = c21_file(wd, values)
    rr = c21_rocksdb(wd, values)
    # what the model predicts for the deviations observed in the system-call trace
    pred = c21_mc(wd, fr["observed_dev"], "meta-observed") if fr["observed_dev"] else {"violated": [], "distinct": 0, "generated": 0}
    viol = fr["viol"] + rr["viol"]
    known_hits, new = dv.classify("C21", viol, known=known())
    replay_paths = []
    seen = set()
    for v in new:
        key = (v["m"], v["cause"])
        if key in seen:
            continue
        seen.add(key)
        replay_paths.append(dv.save_replay("C21", {"engine": "store", "property": "C21", "tier": tier, "values": values,
                                                   "engine_under_test": v["engine_under_test"], "monitor": v["m"],
                                                   "cause": v["cause"], "image": v["image"]}))
    causes = {}
    for v in viol:
        k = "%s/%s" % (v["m"], v["cause"])
        causes[k] = causes.get(k, 0) + 1
    imgs = fr["images"]
    distinct = {json.dumps([im["kind"], im["phase"], im["files"], im["allowed"]], sort_keys=True) for im in imgs}
    samples = [{"engine": "file", "crash_after_event": im["at"], "kind": im["kind"], "phase": im["phase"],
                "files": {k: len(v) for k, v in im["files"].items()}, "shape": im["shape"],
                "allowed_values": im["allowed"], "loaded": im["outcome"]} for im in imgs[:1] + imgs[len(imgs) // 2:len(imgs) // 2 + 3]]
    samples.append({"engine": "rocksdb", **rr["images"][0]})
    cov = {
        "states": mc["distinct"] + fr["judge_states"], "transitions": mc["generated"] + fr["judge_states"],
        "traces_validated_against_impl": 2,
        "evaluations": len(imgs) + len(rr["images"]), "distinct_nontrivial": len(distinct) + len(rr["images"]),
        "rule": "File: the system calls of FileMetaStore::save_hard_state (strace) for the value sequence below are replayed "
                "on FsModel.tla by TLC (MetaStoreTrace.tla); at every call boundary from the start of a save to just after "
                "its return TLC emits the image a process crash leaves and every image a power loss can leave (stable "
                "entries/contents, plus torn appends) with the set of values the property allows; each image is "
                "materialised and loaded by a fresh FileMetaStore. RocksDB: copy of the data directory after every "
                "returned save (killed process) and the directory left by an exit without destructors, loaded by a fresh "
                "engine. distinct_nontrivial = distinct (crash kind, phase, file contents, allowed set) images + RocksDB images",
        "samples": samples,
        "values_saved": values,
        "file_save_steps_observed": fr["steps"][:2],
        "file_deviations_observed": fr["observed_dev"],
        "model_checking": {"repaired_design": {"Dev": [], "distinct_states": mc["distinct"], "generated": mc["generated"], "ok": mc["ok"]},
                           "observed_design": {"Dev": fr["observed_dev"], "violated": pred["violated"],
                                               "distinct_states": pred["distinct"]}},
        "file_images": len(imgs), "rocksdb_images": len(rr["images"]),
        "violating_images_by_cause": causes,
        "known_findings_hit": sorted({"%s/%s/%s" % (k["property"], k["monitor"], k["cause"]) for k, _ in known_hits}),
        "exhaustive": True,
    }
    dv.write_evidence("C21", tier, "model_checking", cov,
                      ["crash points = system-call boundaries seen by strace (a call is atomic for a process crash)",
                       "power loss = FsModel.tla: only fsync'ed contents and directory entries are guaranteed; appended but "
                       "unsynced bytes may survive as any prefix",
                       "RocksDB: no crash point inside a save call and no power-loss image (atomicity of a WAL record and "
                       "WAL sync behaviour are trusted to RocksDB); first value of a store has allowed set {none, new}",
                       "exhaustive over the call boundaries of the traced save sequence, not over all value sequences"],
                      time.time() - t0, len(new))
    rc = dv.finish("C21", known_hits, new, replay_paths)
    shutil.rmtree(wd, ignore_errors=True)
    return rc


def replay_c21(path):
    with open(path) as f:
        payload = json.load(f)
    values = payload["values"]
    wd = dv.workdir("replay-C21")
    build()
    viol = (c21_file(wd, values)["viol"] if payload["engine_under_test"] == "file" else c21_rocksdb(wd, values)["viol"])
    for v in viol:
        print("reproduced: %s/%s %s" % (v["m"], v["cause"], json.dumps(v["image"])[:400]))
    known_hits, new = dv.classify("C21", viol, known=known())
    shutil.rmtree(wd, ignore_errors=True)
    return dv.finish("C21", known_hits, new, [path] if new else [])


# ---------------------------------------------------------------------------------------------
# C18
# ---------------------------------------------------------------------------------------------
C18_AS_IMPL = ["DurableIndexNeverLowered", "PendingMaxNotLowered"]
C18_TIER = {
    "quick": dict(MaxIdx=4, MaxTerm=3, MaxOps=3, file_sample=0, rocksdb_sample=50),
    "thorough": dict(MaxIdx=4, MaxTerm=3, MaxOps=5, file_sample=0, rocksdb_sample=1200),
}
C18_INV = ["C18_GapFree", "C18_DurableKept", "C18_FlushKept", "C18_NoResurrection"]


def c18_consts(T, dev):
    return {"MaxIdx": T["MaxIdx"], "MaxTerm": T["MaxTerm"], "MaxOps": T["MaxOps"], "Dev": dv.tla_set(dev)}


def run_crashlog(wd, gpath, T, engine, extra=()):
    out = os.path.join(wd, "crashlog-%s.json" % engine)
    cmd = [binp(), "crashlog", "--graph", gpath, "--max-idx", str(T["MaxIdx"]), "--engine", engine,
           "--threads", str(THREADS), "--seed", str(dv.seed()), "--scratch", os.path.join(wd, "scratch"), "--out", out]
    dv.run(cmd + list(extra), timeout=3000)
    with open(out) as f:
        res = json.load(f)
    if res.get("findings_dropped"):
        raise dv.ToolError("the crash walker dropped %d findings" % res["findings_dropped"])
    return res


def _c18_op(o):
    es = lambda o: ",".join("%d:%d" % (e["i"], e["t"]) for e in o["es"])
    k = o["k"]
    if k == "append":
        return "append[%s]" % es(o)
    if k == "conflict":
        return "conflict_append(prev=%d/%d,[%s])" % (o["p"], o["pt"], es(o))
    if k == "resetappend":
        return "append_from_scratch(prev=0,[%s])" % es(o)
    if k == "purge":
        return "purge(%d:%d)" % (o["i"], o["t"])
    return "flush()"


def c18_judge(f):
    """(monitor, cause) of one violation, computed from the operation sequence and the durable indexes the real
    log reported: the violating index lies at or above a conflict truncation that cut at or below the durable
    index reported before it."""
    mon = "%s(%s)" % (f["monitor"], f["crash"] or "-")
    path, durs = f["path"], f["durs"]
    idx = None
    m = re.search(r"index=(\d+)", f["detail"])
    if m:
        idx = int(m.group(1))
    else:
        m = re.search(r"recovered=\[([0-9, ]*)\]", f["detail"])
        if m:
            rec = [int(x) for x in m.group(1).split(",")]
            have = [i for i, v in enumerate(rec) if v]
            gaps = [i for i in range(min(have), max(have)) if not rec[i]] if have else []
            idx = gaps[0] if gaps else None
    if idx is None:
        return mon, "other"
    for j, o in enumerate(path):
        if o["k"] == "conflict":
            d = o["p"] + 1
            before = durs[j - 1] if 0 < j <= len(durs) else 0
            if d <= before and idx >= d:
                return mon, "conflict-truncation-at-or-below-durable-index"
    return mon, "other"


def check_c18(tier):
    t0 = time.time()
    T = C18_TIER[tier]
    wd = dv.workdir("store-C18")
    build()
    # design level: the repaired IO task (both deviations off) satisfies all four invariants
    cfg = os.path.join(wd, "buflogio-repaired.cfg")
    c = c18_consts(T, [])
    c["Emit"] = "FALSE"
    dv.write_cfg(cfg, constants=c, invariants=["TypeOK"] + C18_INV)
    mc = dv.tlc_mc("BufLogIO", cfg, wd, workers=6, timeout=1500)
    if not mc["ok"]:
        raise dv.ToolError("BufLogIO.tla with Dev = {} violates %s:\n%s" % (mc["violated"], mc["output_tail"]))
    # the as-implemented model: what TLC predicts for the current code
    cfg2 = os.path.join(wd, "buflogio-asimpl.cfg")
    c2 = c18_consts(T, C18_AS_IMPL)
    c2["Emit"] = "FALSE"
    dv.write_cfg(cfg2, constants=c2, invariants=["TypeOK"] + C18_INV)
    pred = dv.tlc_mc("BufLogIO", cfg2, wd, workers=6, timeout=1500)
    # graph of the as-implemented model -> real code; if the code no longer behaves like the as-implemented model
    # (e.g. the deviations were repaired), bind it to the repaired model instead
    bound_dev = C18_AS_IMPL
    gpath, ns, ne, st = tlc_graph("BufLogIO", wd, c18_consts(T, C18_AS_IMPL), ["TypeOK"], name="buflogio-graph")
    gated = run_crashlog(wd, gpath, T, "gated")
    ndiv = len({json.dumps(f["path"]) for f in gated["findings"] if f["kind"] == "divergence"})
    if ndiv > max(3, gated["paths"] // 50):
        gpath2, ns2, ne2, st2 = tlc_graph("BufLogIO", wd, c18_consts(T, []), ["TypeOK"], name="buflogio-graph-repaired")
        gated2 = run_crashlog(wd, gpath2, T, "gated")
        ndiv2 = len({json.dumps(f["path"]) for f in gated2["findings"] if f["kind"] == "divergence"})
        if ndiv2 < ndiv:
            bound_dev, gpath, ns, ne, st, gated = [], gpath2, ns2, ne2, st2, gated2
    filer = run_crashlog(wd, gpath, T, "file", ["--sample", str(T["file_sample"])])
    rocks = run_crashlog(wd, gpath, T, "rocksdb", ["--sample", str(T["rocksdb_sample"])])
    allf = gated["findings"] + filer["findings"] + rocks["findings"]
    bad = [f for f in allf if f["kind"] == "oracle-disagreement"]
    if bad:
        raise dv.ToolError("monitors of the harness and TLC's verdict disagree on a conforming state: %s" % json.dumps(bad[0])[:1500])
    div = {}
    for f in allf:
        if f["kind"] == "divergence":
            k = "%s/%s" % (f["engine"], f["monitor"])
            div[k] = div.get(k, 0) + 1
    viol = []
    for f in allf:
        if f["kind"] == "violation":
            m, cse = c18_judge(f)
            viol.append({"p": "C18", "m": m, "cause": cse, "fail": f})
    known_hits, new = dv.classify("C18", viol, known=known())
    replay_paths = []
    seen = set()
    for v in sorted(new, key=lambda v: len(v["fail"]["path"])):
        key = (v["m"], v["cause"], v["fail"]["engine"])
        if key in seen:
            continue
        seen.add(key)
        f = v["fail"]
        replay_paths.append(dv.save_replay("C18", {"engine": "store", "property": "C18", "consts": T,
                                                   "engine_under_test": f["engine"], "path": f["path"],
                                                   "io_step": f["io_step"], "crash": f["crash"], "monitor": v["m"],
                                                   "cause": v["cause"], "detail": f["detail"]}))
        if len(replay_paths) >= 5:
            break
    causes, first = {}, {}
    for v in sorted(viol, key=lambda v: (len(v["fail"]["path"]), v["fail"]["io_step"])):
        k = "%s/%s/%s" % (v["fail"]["engine"], v["m"], v["cause"])
        causes[k] = causes.get(k, 0) + 1
        if k not in first:
            f = v["fail"]
            first[k] = {"sequence": [_c18_op(o) for o in f["path"]], "durable_index_after_each_op": f["durs"],
                        "crash": f["crash"], "io_calls_of_last_op_executed": f["io_step"], "in_flight": f["inflight"],
                        "detail": f["detail"]}
    npaths = gated["paths"] + filer["paths"] + rocks["paths"]
    cov = {
        "states": mc["distinct"] + st["distinct"], "transitions": mc["generated"] + st["generated"],
        "traces_validated_against_impl": npaths,
        "evaluations": gated["crash_checks"] + filer["crash_checks"] + rocks["crash_checks"],
        "distinct_nontrivial": gated["nontrivial"],
        "rule": "cases = every maximal operation sequence of the TLC graph of BufLogIO.tla (append / conflict append / purge / "
                "append from scratch / flush, bounds below) executed on the real BufferedRaftLog: (gated) over an in-memory "
                "LogStore whose every call by the IO task stops at a gate, with a process-crash image (written layer) and a "
                "power-loss image (synced layer) recovered by a fresh BufferedRaftLog at every state between two LogStore "
                "calls and at every operation boundary; (file / rocksdb) over the real engines with a copy of the data "
                "directory reopened at every operation boundary; evaluations = crash images recovered and judged; "
                "distinct_nontrivial = distinct gated sequences containing a conflict truncation, a purge or a reset",
        "samples": [[_c18_op(o) for o in p] for p in gated["samples"]] or [{"note": "none"}],
        "bounds": {k: T[k] for k in ("MaxIdx", "MaxTerm", "MaxOps")},
        "model_checking": {"repaired_design": {"Dev": [], "distinct_states": mc["distinct"], "generated": mc["generated"],
                                               "invariants": C18_INV, "ok": True, "secs": mc["secs"]},
                           "as_implemented": {"Dev": C18_AS_IMPL, "violated": pred["violated"]},
                           "real_code_bound_to_Dev": bound_dev},
        "graph_states": ns, "graph_edges": ne,
        "gated": {k: gated[k] for k in ("total_paths", "paths", "states_visited", "crash_checks", "gate_calls",
                                        "retries_after_divergence")},
        "file": {k: filer[k] for k in ("total_paths", "paths", "crash_checks")},
        "rocksdb": {k: rocks[k] for k in ("total_paths", "paths", "crash_checks")},
        "conformance_divergences": div,
        "violations_by_engine_monitor_cause": causes, "shortest_by_engine_monitor_cause": first,
        "known_findings_hit": sorted({"%s/%s/%s" % (k["property"], k["monitor"], k["cause"]) for k, _ in known_hits}),
        "exhaustive": T["file_sample"] == 0,
    }
    level = "model_checking"
    dv.write_evidence("C18", tier, level, cov,
                      ["one operation outstanding at a time: the IO task runs to quiescence before the next operation starts "
                       "(interleavings of concurrent operations with the IO task are not explored); idle timer disabled",
                       "crash points = between LogStore calls (gated store) / operation boundaries (File, RocksDB: process crash "
                       "by directory copy; no power-loss image, no crash point inside a store call)",
                       "while an operation is in flight the requirement is the one reported before it, restricted to the "
                       "entries it does not touch; an append from scratch (prev_log_index = 0) discards the log on purpose",
                       "monitors are evaluated on observed values and cross-checked with TLC's verdict on every conforming state"],
                      time.time() - t0, len(new))
    rc = dv.finish("C18", known_hits, new, replay_paths)
    shutil.rmtree(wd, ignore_errors=True)
    return rc


def replay_c18(path):
    with open(path) as f:
        payload = json.load(f)
    T = payload["consts"]
    wd = dv.workdir("replay-C18")
    build()
    gpath, ns, ne, st = tlc_graph("BufLogIO", wd, c18_consts(T, C18_AS_IMPL), ["TypeOK"], name="buflogio-graph")
    eng = {"gated-memory": "gated"}.get(payload["engine_under_test"], payload["engine_under_test"])
    res = run_crashlog(wd, gpath, T, eng, ["--replay", path])
    if not res.get("found"):
        raise dv.ToolError("the recorded sequence is not a path of the specification graph")
    viol = []
    for f in res["findings"]:
        if f["kind"] == "violation":
            m, cse = c18_judge(f)
            viol.append({"p": "C18", "m": m, "cause": cse, "fail": f})
            print("reproduced: %s/%s [%s] after %s (io calls executed %s): %s" % (m, cse, f["engine"],
                  " ; ".join(_c18_op(o) for o in f["path"]), f["io_step"], f["detail"]))
    known_hits, new = dv.classify("C18", viol, known=known())
    shutil.rmtree(wd, ignore_errors=True)
    return dv.finish("C18", known_hits, new, [path] if new else [])


# ---------------------------------------------------------------------------------------------
# registry
# ---------------------------------------------------------------------------------------------
_TECH = "TLA+/TLC model-based testing: TLC enumerates the reference specification's state graph and is the oracle; "\
        "dv-store replays its paths into the real component and compares every observation"

CHECKS = {"C19": (check_c19, replay_c19), "C20": (check_c20, replay_c20), "C21": (check_c21, replay_c21), "C18": (check_c18, replay_c18)}

PROPS.update({"C19": {"spec": "BufLog.tla"}, "C20": {"spec": "LogStore.tla"}, "C21": {"spec": "MetaStore.tla"}, "C18": {"spec": "BufLogIO.tla"}})
MANIFEST_INFO.update({
    "C19": dict(technique=_TECH, category="model_checking",
                text="buffered log == plain log: TLC emits the complete state graph of the plain-log reference "
                     "(BufLog.tla: leader append, conflict-aware append, purge, reset over all Raft-consistent entry "
                     "universes within the bounds) with the expected answer of every query; dv-store executes every "
                     "distinct operation sequence up to the stated depth (plus seeded random walks) on the real "
                     "BufferedRaftLog and compares operation results and all query answers",
                note="trusted: TLC, the plain-log reference in BufLog.tla, the in-memory LogStore behind the log; "
                     "bounds (indexes, terms, sequence depth) as reported in the evidence file; exhaustive over "
                     "sequences only up to that depth",
                ref="design_parts/store.md"),
    "C20": dict(technique=_TECH, category="model_checking",
                text="log store contract: TLC emits the complete state graph of the reference store (LogStore.tla: "
                     "persist / truncate / replace_range / purge / reset / flush with arbitrary, out-of-order and "
                     "re-written indexes) with the expected answer of every query; dv-store walks it on the real "
                     "FileLogStore and RocksDBLogStore and compares last_index, purge boundary, entry and range reads "
                     "live, on a fresh instance opened on a crash copy of the data directory, and after graceful reopen",
                note="trusted: TLC, the reference store in LogStore.tla, directory copy at call boundaries as process-crash "
                     "image; crash points inside one store call and power-loss images are not covered; bounds in the "
                     "evidence file; random walks plus all paths up to the stated depth, not exhaustive",
                ref="design_parts/store.md"),
    "C21": dict(technique=_TECH + "; system-call traces (strace) of the real save path judged by TLC over a file-system model",
                category="model_checking",
                text="saved term and vote: MetaStore.tla model-checks save_hard_state as file-system steps over FsModel.tla "
                     "(process crash / power loss at every step; the repaired procedure must satisfy the property); the "
                     "system calls of the real FileMetaStore::save_hard_state are replayed on the same FsModel by TLC "
                     "(MetaStoreTrace.tla), which emits every crash image with the set of values the property allows; "
                     "each image is materialised and loaded by a fresh real store; RocksDBMetaStore is checked on "
                     "copies of its directory after every returned save",
                note="trusted: TLC, FsModel.tla (what survives a process crash / power loss), strace as observer of the "
                     "write path; RocksDB: only call-boundary process-crash images (no crash point inside a save, no "
                     "power-loss image); value sequence as listed in the evidence file",
                ref="design_parts/store.md"),
    "C18": dict(technique=_TECH, category="model_checking",
                text="durable, gap-free prefix after a crash: BufLogIO.tla models the in-memory log, the IO task at "
                     "LogStore-call granularity and a store with written / synced layers; TLC checks that the repaired IO "
                     "task satisfies GapFree / DurableKept / FlushKept / NoResurrection and emits the state graph of the "
                     "as-implemented model; dv-store executes every operation sequence of that graph on the real "
                     "BufferedRaftLog over a gated in-memory LogStore (crash images of both kinds recovered at every "
                     "point between two LogStore calls) and over the real File and RocksDB engines (directory copy at "
                     "operation boundaries), checking conformance of every IO call, durable_index and recovered log and "
                     "judging the property on the observed values",
                note="trusted: TLC, BufLogIO.tla, the gated in-memory store as model of page cache vs stable storage; one "
                     "operation outstanding at a time (no concurrent-operation interleavings); File/RocksDB only process "
                     "crash at operation boundaries; bounds in the evidence file",
                ref="design_parts/store.md"),
})


def check(prop, tier):
    return CHECKS[prop][0](tier)


def replay(prop, path):
    return CHECKS[prop][1](path)
