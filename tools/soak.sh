#!/bin/bash
# usage: tools/soak.sh <seed> [props...]   -- runs the quick check of every (given) property on the current tree with
# VERIF_SEED=<seed>; one line per check in .work/soak-<seed>.log: property rc seconds [VIOLATION lines]
seed=$1; shift
cd /verif
props="$@"
[ -z "$props" ] && props=$(python3 -c "import json; print(' '.join(c['property_id'] if 'property_id' in c else c['id'] for c in json.load(open('MANIFEST.json'))['checks']))" 2>/dev/null)
[ -z "$props" ] && props="C01 C02 C03 C04 C05 C06 C07 C08 C09 C10 C11 C12 C13 C14 C15 C16 C17 C18 C19 C20 C21 C22 C23 C24 C25 C26 C27 C28 C29 C30 C31 C32 C33 C34 C35 C36 C37"
L=.work/soak-$seed.log
for p in $props; do
  t0=$(date +%s)
  VERIF_SEED=$seed ./check $p > .work/soak-$seed-$p.out 2>&1
  rc=$?
  t1=$(date +%s)
  echo "$p rc=$rc secs=$((t1-t0)) $(grep -c KNOWN-FINDING .work/soak-$seed-$p.out) known $(grep VIOLATION .work/soak-$seed-$p.out | head -2 | tr '\n' ' ')" >> $L
done
echo "done seed $seed" >> $L
