"""Cluster engine: DEngine.tla (TLC) + dv-cluster (real Raft nodes) + DETrace.tla (trace judge).

Serves the properties whose subject is the replicated protocol (elections, replication, commit,
apply, client responses, notifications).  For property P:
  1. TLC model-checks the focused configuration(s) of DEngine.tla for P with the repaired design
     (Dev = {}): every invariant of P must hold (otherwise the model is wrong: tool error).
  2. TLC (simulation mode, as-implemented deviations on) generates behaviours; their action labels
     are schedules.
  3. dv-cluster replays the schedules into real d-engine nodes, and additionally runs its own
     seeded random schedules; every step's projected state + events go to an ndjson trace.
  4. TLC evaluates DETrace.tla on the traces: property monitors (layer 1) and conformance with the
     DECore operators (layer 2).
  5. Layer-1 failures of P are matched against known_findings.json; anything else is a VIOLATION.
"""
import json
import os
import time

import dv

AS_IMPL = ["HardStateSavedOnlyOnDrop", "Prev0ResetsFollowerLog", "GappedAppendRequest", "VoteResetOnAnyStepDown",
           "EmptyAEAckReportsWholeLog", "FollowerCommitUsesWholeLog", "SingleNodeFromInitialConfig",
           "BatchPromoteAnySize", "MembershipNotReplayedOnRestart"]

# focused model-checking configurations (constants of DEngine.tla) ------------------------------
MC = {
    # election: fine-grained rounds, crash/restart, message loss
    "elect-q": dict(Node="{1,2,3}", MaxTerm=3, MaxLog=1, MaxMsgs=2, Cap=100, Faults=["Crash", "Drop"],
                    MaxCrash=1, MaxDrop=1),
    "elect-t": dict(Node="{1,2,3}", MaxTerm=3, MaxLog=2, MaxMsgs=3, Cap=100, Faults=["Crash", "Stop", "Drop"],
                    MaxCrash=2, MaxDrop=2),
    # replication / commit: client writes, heartbeats, loss + duplication, one crash
    "repl-q": dict(Node="{1,2,3}", MaxTerm=3, MaxLog=2, MaxMsgs=2, Cap=1,
                   Faults=["Crash", "Drop", "Dup", "Client", "Heartbeat"], MaxCrash=1, MaxDrop=1),
    # (MaxMsgs = 3 does not finish in 50 minutes; this one: 5.0 M distinct states, 21 M generated, 3 min 14 s, 16 workers)
    "repl-t": dict(Node="{1,2,3}", MaxTerm=3, MaxLog=3, MaxMsgs=2, Cap=1,
                   Faults=["Crash", "Drop", "Dup", "Client", "Heartbeat"], MaxCrash=1, MaxDrop=2),
}

MC["member-q"] = dict(Node="{1,2,3}", MaxTerm=3, MaxLog=3, MaxMsgs=2, Cap=100,
                      Faults=["Member", "Drop", "Heartbeat", "Crash"], MaxCrash=1, MaxDrop=1, MaxCfg=2,
                      InitView="<- IV_expand")
MC["member-t"] = dict(Node="{1,2,3}", MaxTerm=3, MaxLog=4, MaxMsgs=3, Cap=100,
                      Faults=["Member", "Drop", "Heartbeat", "Crash"], MaxCrash=1, MaxDrop=1, MaxCfg=3,
                      InitView="<- IV_expand")
MC["member4-t"] = dict(Node="{1,2,3,4}", MaxTerm=3, MaxLog=3, MaxMsgs=2, Cap=100,
                       Faults=["Member", "Drop", "Heartbeat"], MaxCrash=0, MaxDrop=1, MaxCfg=2,
                       InitView="<- IV_plus1")

INV = {
    "C01": ["C01_ElectionSafety"],
    "C02": ["C02_VoteOnce", "C02_TermMonotone"],
    "C04": ["C04_LogMatching"],
    "C05": ["C05_LeaderCompleteness", "C05_CommitAgreement"],
    "C07": ["C07_FollowerCommitMatches"],
    "C08": ["C08_GapFree", "C08_ContiguousAE"],
    "C09": ["C09_CommitRule"],
    "C03": ["C03_SoleVoterShortcut", "C01_ElectionSafety"],
    "C26": ["C26_QuorumsIntersect", "C01_ElectionSafety", "C09_CommitRule"],
    "C27": ["C27_LearnersPassive", "C09_CommitRule"],
    "C28": ["C28_ViewAfterRestart"],
}

# per property: MC configs per tier, invariants, what makes a replayed behaviour non-trivial
PROPS = {
    "C01": dict(mc={"quick": ["elect-q"], "thorough": ["elect-t", "repl-t"]}, mech=["StartRound"], min_mech=2,
                rnd_cfgs=[{"n": 3, "cap": 2}, {"n": 3, "cap": 100}, {"n": 4, "cap": 100}]),   # an even number of voters too
    "C02": dict(mc={"quick": ["elect-q"], "thorough": ["elect-t"]}, mech=["DeliverVQ"], min_mech=2),
    "C04": dict(mc={"quick": ["repl-q"], "thorough": ["repl-t"]}, mech=["DeliverAE"], min_mech=2),
    "C05": dict(mc={"quick": ["repl-q"], "thorough": ["repl-t"]}, mech=["DeliverAR"], min_mech=1),
    "C07": dict(mc={"quick": ["repl-q"], "thorough": ["repl-t"]}, mech=["DeliverAE"], min_mech=2),
    "C08": dict(mc={"quick": ["repl-q"], "thorough": ["repl-t"]}, mech=["DeliverAE"], min_mech=1),
    "C09": dict(mc={"quick": ["repl-q"], "thorough": ["repl-t"]}, mech=["DeliverAR"], min_mech=1),
    # apply pipeline / IO held while the commit index moves (scheduler profile "holds")
    "C06": dict(mc={"quick": ["repl-q"], "thorough": ["repl-t"]}, mech=["DeliverAR"], min_mech=1,
                rnd_cfgs=[{"n": 3, "cap": 2}, {"n": 3, "cap": 100}, {"n": 3, "cap": 100, "_profile": "holds"}]),
    "C10": dict(mc={"quick": ["repl-q"], "thorough": ["repl-t"]}, mech=["Client"], min_mech=1,
                rnd_cfgs=[{"n": 3, "cap": 2}, {"n": 3, "cap": 100}, {"n": 3, "cap": 100, "_profile": "holds"}]),
    "C14": dict(mc={"quick": ["repl-q"], "thorough": ["repl-t"]}, mech=["Client"], min_mech=1),
    "C29": dict(mc={"quick": ["repl-q"], "thorough": ["repl-t"]}, mech=["Client"], min_mech=1),
    "C31": dict(mc={"quick": ["elect-q"], "thorough": ["elect-t"]}, mech=["StartRound"], min_mech=1),
}

ENGINE = {"name": "cluster",
          "kind": "DEngine.tla + DECore.tla (TLC), dv-cluster step harness over real Raft nodes, DETrace.tla trace judge"}
_TEXT = ("TLC model-checks the focused configuration of DEngine.tla (node entry points as actions, repaired design) "
         "for this property's invariants; TLC-simulated behaviours of the as-implemented model and seeded random "
         "schedules are replayed step by step into real d-engine Raft nodes (production election / replication / "
         "commit / apply code, simulated transport and storage); TLC then judges every recorded state with the "
         "property monitors of DETrace.tla and checks each step against the DECore operators (conformance).")
_NOTE = ("trusted: TLC, the step harness' projection of node state, the in-memory storage engine and state machine "
         "used in cluster runs; bounds 3 nodes and the constants reported in the evidence file; exhaustive only "
         "at design level within those constants")
_WHAT = {
    "C01": "at most one leader per term", "C02": "one vote per term, term never decreases across crashes",
    "C04": "log matching", "C05": "committed entries are never lost", "C06": "state machine safety",
    "C07": "followers only commit leader-matching entries", "C08": "contiguous requests, gap-free logs",
    "C09": "leader commit rule", "C10": "acknowledged writes are committed and durable",
    "C14": "rejected writes are never applied", "C29": "one correct response per write",
    "C31": "consistent leader notifications",
}
MANIFEST_INFO = {p: dict(technique="TLA+/TLC model checking of DEngine.tla + trace validation of real-node executions (DETrace.tla)",
                         category="model_checking", text=w + ": " + _TEXT, note=_NOTE, ref="DESIGN.md sections 2-3, 9")
                 for p, w in _WHAT.items()}

H_EXPAND = {"initial": {"1": [[1, "F", "A"]], "2": [[1, "F", "A"], [2, "Ln", "P"]], "3": [[1, "F", "A"], [3, "Ln", "P"]]},
            "cap": 100}
H_PLUS1 = {"initial": {"1": [[1, "F", "A"], [2, "F", "A"], [3, "F", "A"]], "2": [[1, "F", "A"], [2, "F", "A"], [3, "F", "A"]],
                       "3": [[1, "F", "A"], [2, "F", "A"], [3, "F", "A"]],
                       "4": [[1, "F", "A"], [2, "F", "A"], [3, "F", "A"], [4, "Ln", "P"]]}, "cap": 100}
_MEMBER = dict(sim=dict(Node="{1,2,3}", MaxTerm=5, MaxLog=7, MaxMsgs=8, Cap=100,
                        Faults=["Crash", "Stop", "Drop", "Client", "Heartbeat", "Member"], MaxCrash=2, MaxDrop=2,
                        MaxCfg=4, InitView="<- IV_expand"),
               hcfg=H_EXPAND, rnd_cfgs=[H_EXPAND, H_PLUS1], profile="member")
for _p, _mech in (("C03", ["StartRound"]), ("C26", ["Join"]), ("C27", ["Join"]), ("C28", ["Restart"])):
    PROPS[_p] = dict(mc={"quick": ["member-q"], "thorough": ["member-t", "member4-t"]}, mech=_mech, min_mech=1, **_MEMBER)
def mc_lease(wd, tier, workers):
    """Lease.tla: repaired design must satisfy C12_LeaseExclusive; each as-implemented deviation is run too
    and its (expected) counterexample recorded."""
    out = []
    consts = dict(F="{2,3}", LeaseDur=2, ETmin=3, MaxClock=6 if tier == "quick" else 7, MaxInFlight=2)
    for dev in ([], ["LeaseAnchoredAtLastSendTs"], ["VotersIgnoreRecentLeader"]):
        cfg = os.path.join(wd, "lease-%d.cfg" % len(out))
        c = dict(consts)
        c["Dev"] = dv.tla_set(dev)
        dv.write_cfg(cfg, constants=c, invariants=["C12_LeaseExclusive"])
        st = dv.tlc_mc("Lease", cfg, wd, workers=workers, timeout=1500)
        if not dev and not st["ok"]:
            raise dv.ToolError("Lease.tla (Dev={}) violates C12_LeaseExclusive:\n" + st["output_tail"])
        out.append({"config": "Lease.tla Dev=%s" % (dev or "{}"), "constants": consts, "distinct_states": st["distinct"],
                    "states_generated": st["generated"], "depth": st["depth"], "secs": st["secs"],
                    "invariant_holds": st["ok"]})
        if dev:
            break_ = True
    return out


def mc_compaction(wd, tier, workers):
    """Compaction.tla (C33): the repaired design must satisfy the purge invariants and the catch-up liveness property
    under fairness (design = as implemented here); two mutants are run too and their (expected) counterexamples
    recorded (a mutant that is NOT refuted is a tool error: the property would be vacuous)."""
    out = []
    consts = dict(MaxIdx=6 if tier == "quick" else 8, Threshold=2, Retained=1, Cap=2)
    for dev in ([], ["M_NextIndexNotAdvancedAfterSnapshot"], ["M_SnapshotBelowBoundaryMinus1"]):
        cfg = os.path.join(wd, "compaction-%d.cfg" % len(out))
        c = dict(consts)
        c["Dev"] = dv.tla_set(dev)
        dv.write_cfg(cfg, spec="FairSpec", constants=c,
                     invariants=["C33_PurgeSafe", "C33_PrevTermKnown", "C33_FollowerSane"], properties=["C33_CatchUp"])
        st = dv.tlc_mc("Compaction", cfg, wd, workers=min(workers, 4), timeout=1500)
        if not dev and not st["ok"]:
            raise dv.ToolError("Compaction.tla (Dev={}) violates %s:\n%s" % (st["violated"], st["output_tail"]))
        if dev and st["ok"]:
            raise dv.ToolError("Compaction.tla: mutant %s is not refuted" % dev)
        out.append({"config": "Compaction.tla Dev=%s" % (dev or "{}"), "constants": consts,
                    "distinct_states": st["distinct"], "states_generated": st["generated"], "depth": st["depth"],
                    "secs": st["secs"], "invariant_holds": st["ok"], "violated": st["violated"],
                    "liveness_checked": "C33_CatchUp under WF of replication, commit, apply and write steps"})
    return out


# three voters and a learner every node knows from its initial configuration
_FULL4 = [[1, "F", "A"], [2, "F", "A"], [3, "F", "A"], [4, "Ln", "P"]]
H_LEARNER = {"initial": {str(n): _FULL4 for n in (1, 2, 3, 4)}, "cap": 100}
_READS = dict(hcfg={"n": 3, "cap": 100}, rnd_cfgs=[{"n": 3, "cap": 100}, {"n": 5, "cap": 100}, H_LEARNER], profile="reads")
PROPS["C11"] = dict(mc={"quick": ["repl-q"], "thorough": ["repl-t"]}, mc_custom=[mc_lease, lambda *a: mc_client(*a)], client=60, mech=["Client"], min_mech=2, **_READS)
PROPS["C12"] = dict(mc={"quick": [], "thorough": []}, mc_custom=mc_lease, mech=["Client"], min_mech=2, **_READS)
_SNAP = {"n": 3, "cap": 100, "snapshot": True, "snap_threshold": 3, "retained": 1}
PROPS["C33"] = dict(mc={"quick": ["repl-q"], "thorough": ["repl-t"]}, mc_custom=[mc_compaction], mech=["DeliverSnap", "Restart"], min_mech=1, level="exploration",
                    hcfg=_SNAP, rnd_cfgs=[_SNAP, dict(_SNAP, retained=2, snap_threshold=4)])
PROPS["C30"] = dict(mc={"quick": ["repl-q"], "thorough": ["repl-t"]}, mech=["Client"], min_mech=2, level="exploration",
                    hcfg={"n": 3, "cap": 2}, rnd_cfgs=[{"n": 3, "cap": 2}, {"n": 3, "cap": 100, "general_timeout_ms": 50}], profile="reads")
PROPS["C32"] = dict(mc={"quick": ["repl-q"], "thorough": ["repl-t"]}, mech=["Crash", "DropMsg", "DropVQ"], min_mech=2, level="exploration")
_WHAT.update({"C33": "log compaction never discards needed entries (purge only of committed, snapshotted entries; lagging peers served by log or snapshot, also after leader restart)"})
_WHAT.update({"C30": "no accepted request is silently dropped (every request is answered once every deadline has passed and leaders have ticked)",
              "C32": "the cluster recovers once faults stop (bounded fair quiet period after every explored fault history)"})
_WHAT.update({"C11": "linearizable reads are linearizable", "C12": "lease reads only under a valid, exclusive leader lease"})
_WHAT.update({"C03": "a node skips vote collection only when it is the only voter",
              "C26": "membership changes never allow two disjoint quorums",
              "C27": "learners never vote, never start elections, never count toward quorums until promoted",
              "C28": "membership survives restart"})
MANIFEST_INFO = {p: dict(technique="TLA+/TLC model checking of DEngine.tla + trace validation of real-node executions (DETrace.tla)",
                         category=PROPS[p].get("level", "model_checking"), text=w + ": " + _TEXT, note=_NOTE,
                         ref="DESIGN.md sections 2-3, 9")
                 for p, w in _WHAT.items()}
for _p in ("C30", "C32", "C33"):
    MANIFEST_INFO[_p]["technique"] = ("TLA+ trace judge (DETrace.tla) over executions of real nodes with a deterministic "
                                      "fault-free epilogue; DEngine.tla safety model checked with TLC as the base")
    MANIFEST_INFO[_p]["note"] = _NOTE + "; the liveness part is bounded exploration (epilogue of fixed length), not a TLC liveness proof"

MANIFEST_INFO["C11"]["technique"] = ("TLA+/TLC model checking of DEngine.tla, of the client-layer model DEClient.tla (apply lag, read index, "
                                    "Path A / Path B, lease shortcut; BFS from the settled state) and of Lease.tla + trace validation of "
                                    "real-node executions (DETrace.tla) on TLC-generated, model-mutant and random schedules")
MANIFEST_INFO["C12"]["technique"] = ("TLA+/TLC model checking of Lease.tla (explicit clock, lease deviations) + trace validation of real-node "
                                    "executions with a controlled lease clock (DETrace.tla)")
MANIFEST_INFO["C33"]["technique"] = ("TLA+/TLC model checking of Compaction.tla (purge safety invariants and the catch-up LIVENESS property under "
                                    "weak fairness, mutants refuted) + TLA+ trace judge (DETrace.tla: purge monitors, snapshot-vs-log "
                                    "conformance, catch-up after the recovery epilogue) over executions of real nodes with snapshots enabled")

TIER = {
    "quick": dict(sim_num=60, sim_depth=45, rnd_runs=80, rnd_depth=60, workers=8, mc_timeout=900),
    "thorough": dict(sim_num=1500, sim_depth=60, rnd_runs=1500, rnd_depth=80, workers=16, mc_timeout=3000),
}


def mc_cfg(wd, name, consts, dev, invariants, hist=False, emit=0):
    c = dict(consts)
    faults = c.pop("Faults")
    cfg = os.path.join(wd, name + ".cfg")
    constants = {k: v for k, v in c.items()}
    constants["Dev"] = dv.tla_set(dev)
    constants["Faults"] = dv.tla_set(faults)
    constants.setdefault("InitView", "<- IV_all")
    constants.setdefault("MaxCfg", 0)
    constants["HistOn"] = "TRUE" if hist else "FALSE"
    constants["EmitDepth"] = emit
    dv.write_cfg(cfg, constants=constants, invariants=invariants, constraint="Bound",
                 view=None if hist else "stateView")
    return cfg


def mc_client_cfg(wd, name, consts, dev, invariants, hist=False, led=True, emit=0):
    """configuration of MC_client.tla (client layer on top of DEngine); led: start from the settled state"""
    c = dict(consts)
    faults = c.pop("Faults")
    cfg = os.path.join(wd, name + ".cfg")
    constants = {k: v for k, v in c.items()}
    constants["Dev"] = dv.tla_set(dev)
    constants["Faults"] = dv.tla_set(faults)
    constants.setdefault("InitView", "<- IV_all")
    constants.setdefault("MaxCfg", 0)
    constants["HistOn"] = "TRUE" if hist else "FALSE"
    constants["EmitDepth"] = emit
    constants.setdefault("Eager", "{}")
    constants.setdefault("MaxLevel", 1000)
    lean = constants.pop("Lean", False)
    dv.write_cfg(cfg, spec="SpecLed" if led else "SpecC", constants=constants, invariants=invariants,
                 constraint="BoundC3", view="cViewLean" if lean else "cView")
    return cfg


# Client-layer model (DEClient.tla / MC_client.tla): explored from the settled state after the first election
# (node 1 leads term 2, no-op committed everywhere, nothing applied yet, nothing in flight; TLC reaches that state
# from Init at depth 13 - configuration `settle` below checks that the hand-written state is the reachable one).
CLIENT = dict(Node="{1,2,3}", MaxTerm=3, MaxLog=3, MaxMsgs=6, Cap=100, Faults=["Client"], MaxCrash=0, MaxDrop=0, MaxReads=1)
MCC = {
    # node 3 never leads in these configurations (TwoLeaders): its state machine follows its commit index
    "client-q": dict(CLIENT, Eager="{3}", MaxLevel=13, Lean=True),
    "client-t": dict(CLIENT, Eager="{3}", MaxLevel=15, Lean=True),
}
R_INVS = ["R_NoStaleRead", "R_AckAfterApply", "R_AckedIsCommittedS", "R_ApplyBehindCommit"]
READ_DEVS = ["ReadServedOnApplyWithoutConfirmation", "AnyAckConfirmsReads", "VotersIgnoreRecentLeader"]


def _ft(a, b):
    return {"from": a, "to": b}


# the schedule that takes real nodes to the settled state (apply pipelines held from the start)
PRE_LED = ([{"a": "LagAll"}, {"a": "Timeout", "n": 1}, {"a": "StartRound", "n": 1},
            dict(a="DeliverVQ", **_ft(1, 2)), dict(a="DeliverVQ", **_ft(1, 3)),
            dict(a="DeliverAE", **_ft(1, 2)), dict(a="DeliverAE", **_ft(1, 3)),
            dict(a="DeliverAR", **_ft(2, 1)), dict(a="DeliverAR", **_ft(3, 1)), {"a": "Heartbeat", "n": 1},
            dict(a="DeliverAE", **_ft(1, 2)), dict(a="DeliverAE", **_ft(1, 3)),
            dict(a="DeliverAR", **_ft(2, 1)), dict(a="DeliverAR", **_ft(3, 1))])


def client_steps(hist, tag):
    """schedule of a DEClient behaviour: one key, distinguishable values"""
    out, k = [], 0
    for st in hist:
        st = dict(st)
        if st.get("a") == "Client":
            st["key"] = "k1"
            if st.get("op") == "put":
                k += 1
                st["val"] = "%s_%d" % (tag, k)
        out.append(st)
    return out


def mc_client(wd, tier, workers):
    """DEClient.tla: the repaired design (Dev = {}) must satisfy the R_ invariants within the depth bound; in the
    thorough tier the as-implemented read deviations are run too and their (expected) counterexample recorded."""
    out = []
    name = "client-q" if tier == "quick" else "client-t"
    runs = [([], name)]
    if tier != "quick":
        runs.append((["ReadServedOnApplyWithoutConfirmation"], "client-q"))
    if tier != "quick":
        # the hand-written settled state is the one TLC reaches from Init (depth 13)
        sc = dict(CLIENT, MaxTerm=2, MaxLog=1, Faults=["Heartbeat"], MaxReads=0)
        cfg = mc_client_cfg(wd, "settle", sc, [], ["SettledIsInitLed"], led=False)
        st = dv.tlc_mc("MC_client", cfg, wd, workers=workers, timeout=1500)
        if not st["ok"]:
            raise dv.ToolError("MC_client: InitLed is not the settled state reachable from Init:\n" + st["output_tail"])
        out.append({"config": "MC_client/settle (InitLed reachable from Init)", "constants": sc,
                    "distinct_states": st["distinct"], "states_generated": st["generated"], "depth": st["depth"],
                    "secs": st["secs"], "invariant_holds": True})
    for dev, cname in runs:
        cfg = mc_client_cfg(wd, "%s-%d" % (cname, len(out)), MCC[cname], dev, R_INVS)
        st = dv.tlc_mc("MC_client", cfg, wd, workers=workers, timeout=3000)
        if not dev and not st["ok"]:
            raise dv.ToolError("DEClient.tla (Dev={}) violates %s:\n%s" % (st["violated"], st["output_tail"]))
        out.append({"config": "MC_client/%s Dev=%s" % (cname, dev or "{}"),
                    "constants": {k: v for k, v in MCC[cname].items()}, "distinct_states": st["distinct"],
                    "states_generated": st["generated"], "depth": st["depth"], "secs": st["secs"],
                    "invariant_holds": st["ok"], "violated": st["violated"]})
    return out


def client_schedules(wd, num, depth, seed_):
    """behaviours of the as-implemented client-layer model (apply lag, reads, lease expiry) from the settled state"""
    consts = dict(CLIENT, MaxTerm=4, MaxLog=5, MaxMsgs=8, Faults=["Client", "Heartbeat", "Drop"], MaxDrop=2, MaxReads=3)
    cfg = mc_client_cfg(wd, "client-sim", consts, AS_IMPL + READ_DEVS, ["EmitC"], hist=True, emit=depth)
    # no symmetry pruning in simulation: every node may stand
    with open(cfg) as f:
        txt = f.read().replace("CONSTRAINT BoundC3", "CONSTRAINT BoundC")
    with open(cfg, "w") as f:
        f.write(txt)
    scheds, secs = dv.tlc_simulate("MC_client", cfg, wd, num, depth + 1, seed_)
    return [PRE_LED + client_steps(s, "c%d" % i) for i, s in enumerate(scheds)], secs


def uniquify(sched, tag):
    """Give every client write of a TLC-generated schedule its own value token."""
    k = 0
    out = []
    for st in sched:
        st = dict(st)
        if st.get("a") == "Client":
            k += 1
            st["val"] = "%s_%d" % (tag, k)
            st["key"] = "k%d" % (1 + k % 2)
        out.append(st)
    return out


def run_harness(wd, schedules, rnd_runs, rnd_depth, seed_, cfg, rnd_cfgs=None, profile="default", witnesses=True,
                prop=None):
    """Replay TLC schedules and run random schedules; returns trace paths."""
    binp = dv.harness_bin("dv-cluster")
    traces = []
    scratch = os.path.join(wd, "snap")
    wits = load_witnesses(prop) if witnesses else []
    if schedules or wits:
        sp = os.path.join(wd, "schedules.ndjson")
        with open(sp, "w") as f:
            for w in wits:
                f.write(json.dumps(w) + "\n")
            for i, s in enumerate(schedules):
                f.write(json.dumps({"id": "tlc-%d" % (i + 1), "cfg": cfg, "steps": s}) + "\n")
        tp = os.path.join(wd, "trace-tlc.ndjson")
        dv.run([binp, "replay", "--schedules", sp, "--out", tp, "--scratch", scratch], timeout=3000)
        traces.append(tp)
    if rnd_runs:
        # half of the random runs with the configured per-request cap, half with the default (100)
        variants = rnd_cfgs or [cfg, dict(cfg, cap=100)]
        for k, c in enumerate(variants):
            tp = os.path.join(wd, "trace-rnd-%d.ndjson" % k)
            c = dict(c)
            prof = c.pop("_profile", profile)          # a variant may bring its own scheduler profile
            dv.run([binp, "random", "--runs", str(max(1, rnd_runs // len(variants))), "--depth", str(rnd_depth),
                    "--seed", str(seed_ + 7919 * k), "--cfg", json.dumps(c), "--profile", prof,
                    "--out", tp, "--scratch", scratch], timeout=3000)
            traces.append(tp)
    return traces


def load_witnesses(prop=None):
    """Hand-written / TLC-counterexample schedules kept as regression witnesses (known findings and
    negative tests); replayed by every cluster check."""
    d = os.path.join(dv.ROOT, "witness", "cluster")
    out = []
    if os.path.isdir(d):
        for fn in sorted(os.listdir(d)):
            if fn.endswith(".json"):
                with open(os.path.join(d, fn)) as f:
                    w = json.load(f)
                if prop is None or not w.get("props") or prop in w["props"]:
                    out.append(w)
    return out


def trace_runs(path):
    """run id -> list of records (labels only) for replay extraction and coverage counting."""
    runs = {}
    with open(path) as f:
        for line in f:
            r = json.loads(line)
            runs.setdefault(r["id"], []).append({"a": r["a"], "applied": r["applied"], "step": r["step"],
                                                 "cfg": r.get("cfgIn")})
    return runs


def check(prop, tier):
    t0 = time.time()
    spec = PROPS[prop]
    T = TIER[tier]
    wd = dv.workdir("cluster-" + prop)
    dv.build_harness("dv-cluster")

    # 1. design level: repaired design must satisfy the invariants of P
    phase = {}
    tp0 = time.time()
    mc_stats = []
    states = transitions = 0
    for name in spec["mc"][tier]:
        cfg = mc_cfg(wd, name, MC[name], [], INV.get(prop, []) or ["C01_ElectionSafety"])
        st = dv.tlc_mc("MC_core", cfg, wd, workers=T["workers"], timeout=T["mc_timeout"])
        if not st["ok"]:
            raise dv.ToolError("model (Dev={}) violates %s in config %s:\n%s" % (st["violated"], name, st["output_tail"]))
        mc_stats.append({"config": name, "constants": {k: (v if not isinstance(v, list) else v) for k, v in MC[name].items()},
                         "distinct_states": st["distinct"], "states_generated": st["generated"],
                         "depth": st["depth"], "secs": st["secs"]})
        states += st["distinct"]
        transitions += st["generated"]

    customs = spec.get("mc_custom") or []
    for fn in (customs if isinstance(customs, (list, tuple)) else [customs]):
        for st in fn(wd, tier, T["workers"]):
            mc_stats.append(st)
            if st.get("invariant_holds", True):
                states += st["distinct_states"]
                transitions += st["states_generated"]

    phase["model_checking"] = round(time.time() - tp0, 1)
    tp0 = time.time()
    # 2. behaviours of the as-implemented model -> schedules
    simc = spec.get("sim") or dict(Node="{1,2,3}", MaxTerm=5, MaxLog=6, MaxMsgs=8, Cap=2,
                                   Faults=["Crash", "Stop", "Drop", "Dup", "Client", "Heartbeat"], MaxCrash=2, MaxDrop=3)
    cfg = mc_cfg(wd, "sim", simc, AS_IMPL, ["Emit"], hist=True, emit=T["sim_depth"])
    scheds, sim_secs = dv.tlc_simulate("MC_core", cfg, wd, T["sim_num"], T["sim_depth"] + 1, dv.seed())
    scheds = [uniquify(s, "t%d" % i) for i, s in enumerate(scheds)]
    client_scheds = []
    if spec.get("client"):
        client_scheds, _ = client_schedules(wd, T["sim_num"] * spec["client"] // 100, 24, dv.seed())
        scheds += client_scheds

    phase["schedule_generation"] = round(time.time() - tp0, 1)
    tp0 = time.time()
    # 3. real code
    hcfg = spec.get("hcfg") or {"n": 3, "cap": 2}
    traces = run_harness(wd, scheds, T["rnd_runs"], T["rnd_depth"], dv.seed(), hcfg,
                         rnd_cfgs=spec.get("rnd_cfgs"), profile=spec.get("profile", "default"), prop=prop)

    phase["real_nodes"] = round(time.time() - tp0, 1)
    tp0 = time.time()
    # 4. judge
    viol, div = [], []
    steps = conf = runs = 0
    for tp in traces:
        res = dv.tlc_trace("DETrace", tp, os.path.join(wd, os.path.basename(tp) + ".result.json"), wd)
        viol += res["viol"]
        div += res["div"]
        steps += res["steps"]
        conf += res["conf"]
        runs += res["runs"]

    phase["trace_judge"] = round(time.time() - tp0, 1)
    # 5. verdict
    known_hits, new = dv.classify(prop, viol)
    replay_paths = []
    if new:
        allruns = {}
        for tp in traces:
            allruns.update(trace_runs(tp))
        seen = set()
        for v in new:
            if v["id"] in seen:
                continue
            seen.add(v["id"])
            recs = allruns.get(v["id"], [])
            steps_ = [r["a"] for r in recs if r["step"] > 0 and r["step"] <= v["step"]]
            rcfg = (recs[0].get("cfg") if recs else None) or hcfg
            replay_paths.append(dv.save_replay(prop, {"engine": "cluster", "property": prop, "cfg": rcfg,
                                                      "steps": steps_, "violation": v}))
            if len(replay_paths) >= 5:
                break

    # evidence: which behaviours exercised the mechanism of P
    nontrivial = set()
    samples = []
    total_runs = 0
    for tp in traces:
        for rid, recs in trace_runs(tp).items():
            total_runs += 1
            labels = [r["a"] for r in recs if r["applied"] and r["step"] > 0]
            n = sum(1 for a in labels if a.get("a") in spec["mech"])
            if n >= spec["min_mech"]:
                nontrivial.add(json.dumps(labels, sort_keys=True))
                if len(samples) < 2:
                    samples.append({"id": rid, "schedule": labels[:25]})
    divsum = {}
    for d in div:
        k = "%s/%s" % (d["a"], d["what"])
        divsum[k] = divsum.get(k, 0) + 1
    cov = {
        "states": states, "transitions": transitions,
        "traces_validated_against_impl": total_runs,
        "samples": samples or [{"note": "no behaviour exercised the mechanism"}],
        "evaluations": total_runs, "distinct_nontrivial": len(nontrivial),
        "rule": "behaviours = TLC-simulated schedules of DEngine.tla (as-implemented deviations on) replayed into real "
                "Raft nodes + seeded random schedules of the step harness; non-trivial = contains >= %d applied "
                "%s step(s); distinct by applied label sequence" % (spec["min_mech"], "/".join(spec["mech"])),
        "model_checking": mc_stats,
        "tlc_schedules": len(scheds), "client_layer_schedules": len(client_scheds), "random_runs": T["rnd_runs"],
        "trace_records_judged": steps, "steps_applied": conf,
        "conformance_divergences": divsum,
        "monitor_failures_all_properties": len(viol),
        "known_findings_hit": sorted({"%s/%s/%s" % (k["property"], k["monitor"], k["cause"]) for k, _ in known_hits}),
        "exhaustive": False, "phase_secs": phase,
    }
    # the level is the one claimed in MANIFEST.json; conformance divergences are reported in the coverage record
    level = spec.get("level", "model_checking")
    cov["conformance_clean"] = not divsum
    dv.write_evidence(prop, tier, level, cov,
                      ["DEngine.tla models the node entry points at harness-step granularity; apply pipeline collapsed",
                       "in-memory storage engine / state machine replace the File and RocksDB engines in the cluster runs",
                       "bounds: 3 nodes, constants as listed per configuration"],
                      time.time() - t0, len(new))
    rc = dv.finish(prop, known_hits, new, replay_paths)
    import shutil
    shutil.rmtree(wd, ignore_errors=True)
    return rc


def replay(prop, path):
    with open(path) as f:
        payload = json.load(f)
    wd = dv.workdir("replay-" + prop)
    dv.build_harness("dv-cluster")
    traces = run_harness(wd, [payload["steps"]], 0, 0, dv.seed(), payload.get("cfg", {"n": 3}), witnesses=False)
    res = dv.tlc_trace("DETrace", traces[0], os.path.join(wd, "result.json"), wd)
    known_hits, new = dv.classify(prop, res["viol"])
    for v in res["viol"]:
        if v["p"] == prop:
            print("reproduced:", json.dumps(v))
    return dv.finish(prop, known_hits, new, [path] if new else [])
