"""Shared machinery of the d-engine verification driver (python3 stdlib only)."""
import hashlib
import json
import os
import re
import shutil
import subprocess
import sys
import time

ROOT = os.path.dirname(os.path.dirname(os.path.abspath(__file__)))
SPEC = os.path.join(ROOT, "spec")
HARNESS = os.path.join(ROOT, "harness")
WORK = os.path.join(ROOT, ".work")
EVID = os.path.join(ROOT, "evidence")
REPLAYS = os.path.join(ROOT, "replays")
KNOWN = os.path.join(ROOT, "known_findings.json")
# Seeded-change trials only (tools/try_seed_alt.sh): VERIF_ALT names a directory holding a copy of the harness workspace
# whose path dependencies point to a scratch copy of /repo; evidence, replays and scratch data of such a run go there
# too, so that it can run next to the registered checks. The registered checks never set it.
_ALT = os.environ.get("VERIF_ALT")
if _ALT:
    HARNESS = os.path.join(_ALT, "harness")
    WORK = os.path.join(_ALT, "work")
    EVID = os.path.join(_ALT, "evidence")
    REPLAYS = os.path.join(_ALT, "replays")


class ToolError(Exception):
    pass


def seed():
    try:
        return int(os.environ.get("VERIF_SEED", "1"))
    except ValueError:
        return 1


def tier_from_env(default="quick"):
    return os.environ.get("VERIF_TIER", default)


def workdir(name):
    d = os.path.join(WORK, name + "-" + str(os.getpid()))
    shutil.rmtree(d, ignore_errors=True)
    os.makedirs(d, exist_ok=True)
    return d


def run(cmd, cwd=None, env=None, timeout=None, check=True):
    e = dict(os.environ)
    e.update({"CARGO_NET_OFFLINE": "true"})
    if env:
        e.update(env)
    t0 = time.time()
    try:
        p = subprocess.run(cmd, cwd=cwd, env=e, stdout=subprocess.PIPE, stderr=subprocess.STDOUT,
                           timeout=timeout, text=True, errors="replace")
    except subprocess.TimeoutExpired as ex:
        raise ToolError("timeout after %ss: %s" % (timeout, " ".join(cmd))) from ex
    if check and p.returncode != 0:
        raise ToolError("command failed (%d): %s\n%s" % (p.returncode, " ".join(cmd), p.stdout[-4000:]))
    return p.returncode, p.stdout, time.time() - t0


_built = set()


def build_harness(pkg=None):
    """cargo build of the harness against /repo's current working tree (hooks enabled)."""
    key = pkg or "*"
    if key in _built:
        return
    cmd = ["cargo", "build", "--offline"]
    if pkg:
        cmd += ["-p", pkg]
    rc, out, dt = run(cmd, cwd=HARNESS, timeout=3600, check=False)
    if rc != 0:
        raise ToolError("harness build failed:\n" + out[-6000:])
    _built.add(key)


def harness_bin(name):
    return os.path.join(HARNESS, "target", "debug", name)


# ---------------------------------------------------------------------------------------------
# TLC
# ---------------------------------------------------------------------------------------------
def write_cfg(path, spec="Spec", constants=None, invariants=(), properties=(), constraint=None,
              view=None, extra=()):
    lines = ["SPECIFICATION " + spec]
    if constants:
        lines.append("CONSTANTS")
        for k, v in constants.items():
            if isinstance(v, str) and v.startswith("<-"):
                lines.append("  %s %s" % (k, v))
            else:
                lines.append("  %s = %s" % (k, v))
    if constraint:
        lines.append("CONSTRAINT " + constraint)
    if view:
        lines.append("VIEW " + view)
    lines.append("CHECK_DEADLOCK FALSE")
    for i in invariants:
        lines.append("INVARIANT " + i)
    for p in properties:
        lines.append("PROPERTY " + p)
    lines.extend(extra)
    with open(path, "w") as f:
        f.write("\n".join(lines) + "\n")


def tla_set(items):
    return "{" + ",".join(json.dumps(x) if isinstance(x, str) else str(x) for x in items) + "}"


def tlc(module, cfg, wd, workers=8, extra=(), env=None, timeout=1800, java_opts="-Xss1g"):
    """Run TLC on spec/<module>.tla with config file cfg (absolute). Returns (rc, stdout, secs)."""
    e = {"JAVA_TOOL_OPTIONS": java_opts}
    if env:
        e.update(env)
    meta = os.path.join(wd, "meta-" + module + "-" + str(int(time.time() * 1000) % 100000))
    cmd = ["tlc", "-workers", str(workers), "-metadir", meta, "-cleanup", "-noGenerateSpecTE",
           "-config", cfg] + list(extra) + [module + ".tla"]
    rc, out, dt = run(cmd, cwd=SPEC, env=e, timeout=timeout, check=False)
    shutil.rmtree(meta, ignore_errors=True)
    return rc, out, dt


def tlc_stats(out):
    """states generated / distinct / depth from TLC's output."""
    m = re.search(r"(\d+) states generated, (\d+) distinct states found", out)
    d = re.search(r"depth of the complete state graph search is (\d+)", out)
    gen, dist = (int(m.group(1)), int(m.group(2))) if m else (0, 0)
    return {"generated": gen, "distinct": dist, "depth": int(d.group(1)) if d else 0}


def tlc_mc(module, cfg, wd, workers=8, timeout=1800, coverage=False):
    extra = ["-coverage", "1"] if coverage else []
    rc, out, dt = tlc(module, cfg, wd, workers=workers, timeout=timeout, extra=extra)
    st = tlc_stats(out)
    st["secs"] = round(dt, 1)
    violated = re.findall(r"Error: Invariant (\S+) is violated", out) + \
        re.findall(r"Error: Action property (\S+) is violated", out) + \
        re.findall(r"Error: Temporal property (\S+) was violated", out) + \
        re.findall(r"Error: Temporal properties were violated", out)
    st["violated"] = violated
    st["ok"] = ("Model checking completed. No error has been found." in out)
    if not st["ok"] and not violated:
        raise ToolError("TLC failed on %s:\n%s" % (module, out[-3000:]))
    st["output_tail"] = out[-1500:]
    if coverage:
        st["actions"] = tlc_action_coverage(out)
    return st


def tlc_action_coverage(out):
    """per-action counts from -coverage 1 output: '<Action line .. of module X>: distinct:total'"""
    cov = {}
    for m in re.finditer(r"<(\w+) line \d+, col \d+ to line \d+, col \d+ of module (\w+)>: (\d+):(\d+)", out):
        cov[m.group(1)] = max(cov.get(m.group(1), 0), int(m.group(4)))
    return cov


def tlc_simulate(module, cfg, wd, num, depth, seed_, timeout=600):
    """Simulation mode; returns the list of distinct schedules printed by the Emit invariant."""
    rc, out, dt = tlc(module, cfg, wd, workers=1,
                      extra=["-simulate", "num=%d" % num, "-depth", str(depth), "-seed", str(seed_)],
                      timeout=timeout)
    scheds = []
    seen = set()
    for m in re.finditer(r'<<"REPLAY", "(.*)">>', out):
        s = m.group(1).replace('\\"', '"').replace("\\\\", "\\")
        if s in seen:
            continue
        seen.add(s)
        try:
            scheds.append(json.loads(s))
        except json.JSONDecodeError:
            continue
    if not scheds and "Error" in out:
        raise ToolError("TLC simulation failed on %s:\n%s" % (module, out[-3000:]))
    return scheds, dt


def tlc_trace(module, trace_path, out_path, wd, timeout=1800):
    cfg = os.path.join(SPEC, module + ".cfg")
    if os.path.exists(out_path):
        os.remove(out_path)
    rc, out, dt = tlc(module, cfg, wd, workers=1, env={"TRACE": trace_path, "OUT": out_path},
                      timeout=timeout, java_opts="-Xss1g -Xmx8g")
    if not os.path.exists(out_path):
        raise ToolError("trace validation produced no result:\n" + out[-4000:])
    with open(out_path) as f:
        res = json.load(f)
    res["secs"] = round(dt, 1)
    return res


# ---------------------------------------------------------------------------------------------
# Known findings, verdicts, evidence
# ---------------------------------------------------------------------------------------------
def load_known():
    if not os.path.exists(KNOWN):
        return []
    with open(KNOWN) as f:
        return json.load(f).get("findings", [])


def load_known_part(engine):
    """Known-finding entries a component engine keeps in design_parts/<engine>.findings.json."""
    path = os.path.join(ROOT, "design_parts", engine + ".findings.json")
    if not os.path.exists(path):
        return []
    with open(path) as f:
        return json.load(f).get("findings", [])


# Consequences of a listed finding.  The trace judge computes a violation's cause class from the run's history; the
# three classes below mean "an event of a listed root finding happened earlier in this run" (a prev_log_index = 0
# request reset a follower log that held committed entries / a gapped request left a hole in a log / a node lost term
# and vote in a crash).  After such an event the run's state is corrupted and any safety monitor can fire; which ones do
# depends on the schedule.  A violation with such a cause is therefore reported as a consequence of the root finding as
# long as the ROOT is listed with status "known" (when the root is repaired - status "fixed" - its consequences are
# violations again), only for the properties a consequence is possible for, and never hides a violation whose cause
# class is anything else.
CASCADE_ROOTS = {
    "after-prev0-reset": (("C05", "CommittedStable", "prev0-reset"),
                          {"C04", "C05", "C06", "C07", "C08", "C09", "C10", "C11", "C29", "C32", "C33"}),
    "after-gapped-request": (("C08", "GapFree", "gapped-request-appended"),
                             {"C04", "C05", "C06", "C07", "C08", "C09", "C10", "C11", "C29", "C32", "C33"}),
    "after-hard-state-loss": (("C02", "TermMonotone", "after-restart"),
                              {"C01", "C04", "C05", "C06", "C07", "C08", "C09", "C10", "C11", "C12", "C29", "C31", "C32", "C33"}),
}


def classify(prop, violations, known=None):
    """Split violations of `prop` into (known, new). A violation is a dict with at least
    p (property), m (monitor), cause. It is known only if an entry with status=known has the same
    (property, monitor, cause)."""
    known = load_known() if known is None else known
    sigs = {(k["property"], k["monitor"], k["cause"]): k for k in known if k.get("status") == "known"}
    kn, new = [], []
    for v in violations:
        if v.get("p") != prop:
            continue
        sig = (v["p"], v["m"], v.get("cause", ""))
        root = CASCADE_ROOTS.get(v.get("cause", ""))
        if sig in sigs:
            kn.append((sigs[sig], v))
        elif root and root[0] in sigs and prop in root[1]:
            r = sigs[root[0]]
            kn.append(({"property": v["p"], "monitor": v["m"], "cause": v["cause"], "status": "known",
                        "what": "%s fails in a run in which, earlier, %s (consequence of the %s finding %s/%s)"
                                % (v["m"], r["what"], r["property"], r["monitor"], r["cause"])}, v))
        else:
            new.append(v)
    return kn, new


def save_replay(prop, payload):
    os.makedirs(REPLAYS, exist_ok=True)
    blob = json.dumps(payload, sort_keys=True)
    hsh = hashlib.sha1(blob.encode()).hexdigest()[:12]
    path = os.path.join(REPLAYS, "%s-%s.json" % (prop, hsh))
    with open(path, "w") as f:
        f.write(blob + "\n")
    return path


def write_evidence(prop, tier, level, coverage, assumptions, wall_s, violations):
    os.makedirs(EVID, exist_ok=True)
    ev = {"property_id": prop, "tier": tier, "seed": seed(), "level": level, "coverage": coverage,
          "assumptions": assumptions, "wall_s": round(wall_s, 1), "violations": violations}
    path = os.path.join(EVID, prop + ".json")
    with open(path, "w") as f:
        json.dump(ev, f, indent=1, sort_keys=True)
        f.write("\n")
    return path


def finish(prop, known_hits, new_viols, replay_paths):
    """Print KNOWN-FINDING / VIOLATION lines and return the exit code."""
    seen = set()
    for k, v in known_hits:
        key = (k["property"], k["monitor"], k["cause"])
        if key in seen:
            continue
        seen.add(key)
        print("KNOWN-FINDING: property=%s %s" % (prop, k["what"]))
    if new_viols:
        for path in replay_paths:
            print("VIOLATION property=%s replay=%s" % (prop, path))
        return 1
    return 0
