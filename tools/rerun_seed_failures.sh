#!/bin/bash
# usage: tools/rerun_seed_failures.sh <id>...  -- re-runs (alone, 2 threads) the tests that failed in the seed's baseline run
W=/var/tmp/confirm/wt
export CARGO_TARGET_DIR=/var/tmp/confirm/target
for id in "$@"; do
  L=/verif/seeded/$id/baseline.log
  tests=$(sed -n '/^## failures:/,$p' $L | grep -v "^##" | grep -v "file_io_test::test_create_parent_dir_fails_when_permission_denied\|file_io_test::test_delete_permission_denied" | awk '{print $NF}' | sed 's/.*:://' | sort -u)
  [ -z "$tests" ] && { echo "## $id: only the two always-fail tests failed" >> $L; continue; }
  expr=$(for t in $tests; do printf 'test(%s) | ' "$t"; done | sed 's/ | $//')
  cd $W && git reset -q --hard && git clean -qfd && git apply /verif/seeded/$id/patch.diff
  out=$(cargo nextest run --workspace --no-fail-fast --tool-config-file pb:/w/lib/nextest.toml --profile pb --test-threads 2 --offline -E "$expr" 2>&1 | grep -E "^\s+(FAIL|PASS)|Summary" )
  { echo "## re-run of the failed tests alone (--test-threads 2) with the seeded change:"; echo "$out" | grep -E "Summary|FAIL" ; } >> $L
  git reset -q --hard && git clean -qfd
  echo "== $id"; echo "$out" | grep -E "Summary|FAIL"
done
