#!/usr/bin/env python3
"""Mutation-directed witness generation.

For every *model mutant* (a DECore deviation name starting with M_ that breaks one Raft rule) TLC searches the
focused configuration of DEngine.tla (all other deviations off) for the shortest behaviour that violates the
invariant the rule protects.  The behaviour's action labels are a schedule on which the CORRECT implementation must
satisfy the property; an implementation change equivalent to the model mutant fails it.  The schedules are stored under
witness/cluster/gen_<mutant>.json and replayed by the owning checks (regression / negative tests derived from the spec).
Run by hand when the model changes: python3 tools/gen_witnesses.py
"""
import json, os, sys
sys.path.insert(0, os.path.dirname(os.path.abspath(__file__)))
import dv, cluster

REPL = dict(Node="{1,2,3}", MaxTerm=3, MaxLog=3, MaxMsgs=3, Cap=1, Faults=["Drop", "Dup", "Client", "Heartbeat"], MaxCrash=0, MaxDrop=2)
ELECT = dict(Node="{1,2,3}", MaxTerm=3, MaxLog=1, MaxMsgs=3, Cap=100, Faults=["Drop", "Dup"], MaxCrash=0, MaxDrop=2)
MEMBER = dict(cluster.MC["member-q"], Faults=["Member", "Drop", "Heartbeat", "Client"], MaxLog=4, MaxMsgs=3)
MUTANTS = [
    ("M_GrantTwice", ELECT, ["C02_VoteOnce"], ["C02", "C01"]),
    ("M_NoLogCheckOnVote", REPL, ["C05_LeaderCompleteness"], ["C05", "C01"]),
    ("M_LogCheckIndexOnly", REPL, ["C05_LeaderCompleteness"], ["C05", "C04"]),
    ("M_LogCheckTermOnly", REPL, ["C05_LeaderCompleteness"], ["C05", "C04"]),
    ("M_NoTermCheckOnCommit", REPL, ["C09_CommitRule"], ["C09", "C05"]),
    ("M_MinorityCommit", REPL, ["C09_CommitRule"], ["C09", "C05", "C10"]),
    ("M_FollowerCommitNoMin", REPL, ["C07_FollowerCommitMatches"], ["C07", "C06"]),
    ("M_NoTruncateOnConflict", REPL, ["C04_LogMatching"], ["C04", "C05"]),
    ("M_AcceptStaleTermAE", REPL, ["C04_LogMatching", "C05_CommitAgreement", "C07_FollowerCommitMatches"], ["C04", "C05", "C07"]),
    ("M_AcceptStaleAck", REPL, ["C09_CommitRule"], ["C09"]),
    ("M_MatchNotMonotone", REPL, ["C09_CommitRule"], ["C09"]),
    ("M_CountLearners", MEMBER, ["C09_CommitRule"], ["C09", "C27"]),
    ("M_VoteAsLearner", MEMBER, ["C27_LearnersPassive"], ["C27"]),
]
H_DEFAULT = {"n": 3, "cap": 1}

# Client-layer model: configurations, prefix schedule and helpers live in cluster.py
CLIENT = dict(cluster.CLIENT, Eager="{3}", Lean=True)
CLIENT_MUTANTS = [
    # (name, deviations switched on, invariants, properties whose checks replay the schedule)
    ("M_NoApplyGate", ["M_NoApplyGate"], ["R_NoStaleRead"], ["C11", "C10"]),
    ("M_AckAtCommit", ["M_AckAtCommit"], ["R_AckAfterApply"], ["C29", "C10"]),
    ("M_ReadBeforeNoop", ["M_ReadBeforeNoop"], ["R_NoStaleRead"], ["C11"]),
    ("M_ReadIndexIsApplied", ["M_ReadIndexIsApplied"], ["R_NoStaleRead"], ["C11"]),
    # as-implemented deviations: witnesses of known findings
    ("dev_ReadServedOnApplyWithoutConfirmation", ["ReadServedOnApplyWithoutConfirmation"], ["R_NoStaleRead"], ["C11"]),
    ("dev_AnyAckConfirmsReads", ["AnyAckConfirmsReads"], ["R_NoStaleRead"], ["C11"]),
]
PRE_LED = cluster.PRE_LED
client_steps = cluster.client_steps


def gen_client(wd, outdir, only):
    for name, dev, invs, props in CLIENT_MUTANTS:
        if only and name not in only:
            continue
        cfg = cluster.mc_client_cfg(wd, name, CLIENT, dev, invs, hist=True)
        tj = os.path.join(wd, name + ".trace.json")
        rc, out, dt = dv.tlc("MC_client", cfg, wd, workers=8, extra=["-dumpTrace", "json", tj], timeout=1200)
        if not os.path.exists(tj):
            print(name, "no counterexample (%.0fs)" % dt, dv.tlc_stats(out))
            continue
        states = json.load(open(tj))["counterexample"]["state"]
        last = states[-1]
        last = last[1] if isinstance(last, list) else last
        steps = PRE_LED + client_steps(last["hist"], "w" + name[-4:])
        w = {"id": "gen-" + name, "cfg": {"n": 3, "cap": 100}, "props": props, "steps": steps,
             "origin": "shortest TLC counterexample of %s in DEClient.tla (from the settled state) with %s switched on"
                       % ("/".join(invs), ",".join(dev))}
        json.dump(w, open(os.path.join(outdir, "gen_%s.json" % name), "w"))
        print(name, "->", len(steps), "steps (%.0fs)" % dt)


def main():
    wd = dv.workdir("genwit")
    outdir = os.path.join(dv.ROOT, "witness", "cluster")
    only = sys.argv[1:]
    gen_client(wd, outdir, only)
    for name, consts, invs, props in MUTANTS:
        if only and name not in only:
            continue
        cfg = cluster.mc_cfg(wd, name, consts, [name], invs, hist=True)
        # keep hist out of the fingerprint so that BFS gives a shortest counterexample
        with open(cfg) as f:
            txt = f.read().replace("CHECK_DEADLOCK FALSE", "VIEW stateView\nCHECK_DEADLOCK FALSE")
        with open(cfg, "w") as f:
            f.write(txt)
        tj = os.path.join(wd, name + ".trace.json")
        rc, out, dt = dv.tlc("MC_core", cfg, wd, workers=8, extra=["-dumpTrace", "json", tj], timeout=1500)
        if not os.path.exists(tj):
            print(name, "no counterexample (%.0fs)" % dt, dv.tlc_stats(out))
            continue
        tr = json.load(open(tj))
        states = tr["counterexample"]["state"]
        last = states[-1]
        last = last[1] if isinstance(last, list) else last
        hist = last["hist"]
        steps = cluster.uniquify(hist, "w" + name[2:6])
        hcfg = cluster.H_EXPAND if consts is MEMBER else H_DEFAULT
        w = {"id": "gen-" + name, "cfg": hcfg, "props": props, "steps": steps,
             "origin": "shortest TLC counterexample of %s in DEngine.tla with the model mutant %s" % ("/".join(invs), name)}
        json.dump(w, open(os.path.join(outdir, "gen_%s.json" % name), "w"))
        print(name, "->", len(steps), "steps (%.0fs)" % dt)


if __name__ == "__main__":
    main()
