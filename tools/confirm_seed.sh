#!/bin/bash
# usage: tools/confirm_seed.sh <id> <crate> <test-filter> [extra cargo flags, e.g. "--features watch"]
# In a scratch worktree: demo fails with the change, passes without; records the result in seeded/<id>/confirm.log
set -u
id=$1; crate=$2; filt=$3; extra=${4:-}
W=/var/tmp/confirm/wt
export CARGO_TARGET_DIR=/var/tmp/confirm/target
mkdir -p /var/tmp/confirm
if [ ! -d $W ]; then git -C /repo worktree add -q --detach $W HEAD; fi
cd $W && git checkout -q --detach $(git -C /repo rev-parse HEAD) && git reset -q --hard && git clean -qfd
L=/verif/seeded/$id/confirm.log; : > $L
git apply /verif/seeded/$id/patch.diff && git apply /verif/seeded/$id/demo.diff || { echo "apply failed" | tee -a $L; exit 2; }
echo "## with change: cargo test -p $crate --offline --lib $extra -- $filt" >> $L
nice -n 5 cargo test -p $crate --offline --lib $extra -- --test-threads=4 $filt 2>&1 | grep -E "^test |test result|panicked|error(\[|:)" | head -40 >> $L
git apply -R /verif/seeded/$id/patch.diff
echo "## without change" >> $L
nice -n 5 cargo test -p $crate --offline --lib $extra -- --test-threads=4 $filt 2>&1 | grep -E "^test |test result|panicked|error(\[|:)" | head -40 >> $L
git reset -q --hard && git clean -qfd
cat $L
