#!/usr/bin/env python3
"""design_parts/02_seeded.md from seeded/*/meta.json"""
import json, os, glob
ROOT = os.path.dirname(os.path.dirname(os.path.abspath(__file__)))
rows = []
for p in sorted(glob.glob(os.path.join(ROOT, "seeded", "*", "meta.json"))):
    rows.append(json.load(open(p)))
out = ["## 11. Seeded changes: which checks catch which", "",
       "Each change below was produced by a fresh sub-agent that was given only the text of one property and a scratch",
       "worktree of /repo (nothing from /verif). It compiles, the repository's own test-suite still passes with it",
       "(except the two always-failing permission tests and load-dependent timing tests, re-run alone), it needs something",
       "specific to manifest, and it comes with a demonstration test that fails with the change and passes without",
       "(`seeded/<id>/patch.diff`, `demo.diff`, `NOTES.md`, `confirm.log` = my own re-run of the demonstration in a scratch",
       "worktree, `meta.json`). To try one: `tools/try_seed.sh <id> <property>` (applies the patch to /repo, runs the check,",
       "undoes it). None of them is committed in /repo.", "",
       "| id | property | change (site) | needs | caught by | first result / what was strengthened |", "|---|---|---|---|---|---|"]
for m in rows:
    out.append("| %s | %s%s | %s (`%s`) | %s | %s | %s |" % (
        m["id"], m["property"], (" (+" + ",".join(m["also_breaks"]) + ")") if m.get("also_breaks") else "",
        m["change"], m["site"].split(" ")[0], m["needs"], "; ".join(m.get("caught_by", [])) or "NOT CAUGHT",
        m.get("first_result", "caught by the check as it was")))
missed = [m["id"] for m in rows if m.get("first_result")]
out += ["", "%d changes; %d were caught by the checks as they stood, %d were missed at first (%s) and led to a stronger check "
        "(a new witness schedule, a new model mutant, a new harness step, a better sample); all are caught now. A change that "
        "is only visible as a conformance divergence (layer 2) is never reported as a violation: it lowers the evidence level "
        "and tells me where a witness is missing." % (len(rows), len(rows) - len(missed), len(missed), ", ".join(missed)), ""]
open(os.path.join(ROOT, "design_parts", "02_seeded.md"), "w").write("\n".join(out))
print(len(rows), "seeds documented")
