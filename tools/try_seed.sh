#!/bin/bash
# usage: tools/try_seed.sh <seed-id> <prop> [<prop>...]   -- applies seeded/<id>/patch.diff to /repo, runs the checks, undoes it
set -u
id=$1; shift
cd /verif
if ! git -C /repo diff --quiet; then echo "repo dirty"; exit 2; fi
git -C /repo apply /verif/seeded/$id/patch.diff || { echo "patch does not apply"; exit 2; }
# the evidence files committed in /verif must come from the unchanged tree: keep them aside during the trial
rm -rf /verif/.work/evidence.keep && cp -r /verif/evidence /verif/.work/evidence.keep
for p in "$@"; do
  echo "== $id vs $p"
  ./check $p 2>&1 | grep -E "VIOLATION|KNOWN-FINDING|TOOL-ERROR" | cut -c1-220
  echo "rc=${PIPESTATUS[0]}"
  python3 - <<PY
import json
e=json.load(open('/verif/evidence/$p.json'))
print('violations', e.get('violations'), 'level', e['level'], 'div', e['coverage'].get('conformance_divergences'))
PY
done
git -C /repo checkout -- .
rm -rf /verif/evidence && mv /verif/.work/evidence.keep /verif/evidence
git -C /repo status --short | head -3
