#!/bin/bash
# usage: tools/try_seed_alt.sh <seed-id> <prop> [<prop>...]
# Like try_seed.sh, but against a scratch copy of /repo (git worktree /var/tmp/alt/repo) and a copy of the harness
# workspace (/var/tmp/alt/harness, own target dir), so that /repo stays untouched and the registered checks can run meanwhile.
set -u
id=$1; shift
A=/var/tmp/alt
mkdir -p $A
if [ ! -d $A/repo ]; then git -C /repo worktree add -q --detach $A/repo HEAD || exit 2; fi
( cd $A/repo && git checkout -q --detach $(git -C /repo rev-parse HEAD) && git reset -q --hard && git clean -qfd ) || exit 2
rsync -a --delete --exclude target /verif/harness/ $A/harness/
sed -i "s#\"/repo/#\"$A/repo/#g" $A/harness/Cargo.toml
git -C $A/repo apply /verif/seeded/$id/patch.diff || { echo "patch does not apply"; exit 2; }
cd /verif
for p in "$@"; do
  echo "== $id vs $p (alt)"
  VERIF_ALT=$A ./check $p 2>&1 | grep -E "VIOLATION|KNOWN-FINDING|TOOL-ERROR|Error" | cut -c1-220
  echo "rc=${PIPESTATUS[0]}"
  python3 - <<PY
import json
e=json.load(open('$A/evidence/$p.json'))
print('violations', e.get('violations'), 'level', e['level'], 'div', str(e['coverage'].get('conformance_divergences'))[:300])
PY
done
( cd $A/repo && git reset -q --hard )
