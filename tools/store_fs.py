"""strace output -> file-system events of one directory (input of spec/MetaStoreTrace.tla).

strace is run with  -f -y -xx -s <big>  so that every string (paths, data) is hex-escaped and every file
descriptor is annotated with its path.  Only bookkeeping happens here (file-descriptor offsets, path
filtering); what the calls MEAN for a crash is defined by spec/FsModel.tla.
"""
import os
import re

TRACE_CALLS = "openat,open,creat,write,pwrite64,writev,pwritev,ftruncate,truncate,fsync,fdatasync,rename,renameat," \
              "renameat2,unlink,unlinkat,lseek,fallocate,sync_file_range,mkdir"

_HEX = re.compile(r"\\x([0-9a-f]{2})")


def unhex(s):
    return bytes(int(h, 16) for h in _HEX.findall(s))


def strace_cmd(out_path, cmd):
    return ["strace", "-f", "-y", "-xx", "-s", "1000000", "-e", "trace=" + TRACE_CALLS, "-o", out_path] + cmd


def _join_unfinished(lines):
    """merge '<unfinished ...>' / '<... resumed>' pairs per pid (order = completion order)"""
    pending = {}
    for ln in lines:
        m = re.match(r"^(\d+)\s+(.*)$", ln.rstrip("\n"))
        if not m:
            continue
        pid, rest = m.group(1), m.group(2)
        if rest.endswith("<unfinished ...>"):
            pending[pid] = rest[:-len("<unfinished ...>")]
            continue
        r = re.match(r"^<\.\.\. \w+ resumed>(.*)$", rest)
        if r:
            rest = pending.pop(pid, "") + r.group(1)
        yield pid, rest


def parse(trace_path, directory):
    """Returns the list of events (dicts) on files directly inside `directory`, with marks."""
    directory = os.path.realpath(directory)
    events = []
    offs = {}      # (pid-agnostic) fd -> offset ; strace -f of a single process image: fds are shared by its threads
    sizes = {}     # path -> size
    with open(trace_path, errors="replace") as f:
        lines = f.readlines()

    def rel(p):
        p = p.decode(errors="replace")
        if os.path.dirname(p) == directory:
            return os.path.basename(p)
        return None

    for pid, rest in _join_unfinished(lines):
        m = re.match(r"^(\w+)\((.*)\)\s+=\s+(-?\d+|\?)(.*)$", rest)
        if not m:
            continue
        call, args, ret, tail = m.group(1), m.group(2), m.group(3), m.group(4)
        if ret == "?" or int(ret) < 0:
            continue
        ret = int(ret)
        if call == "write":
            a = re.match(r'^(\d+)<((?:\\x..)*)>, "((?:\\x..)*)"(\.\.\.)?, (\d+)$', args)
            if not a:
                continue
            fd, path, data = int(a.group(1)), unhex(a.group(2)), unhex(a.group(3))
            if fd == 2 and data.startswith(b"DVMARK "):
                w = data.decode().split()
                if w[1] in ("begin", "end"):
                    events.append({"e": "mark", "w": w[1], "v": int(w[2])})
                continue
            name = rel(path)
            if name is None:
                continue
            if a.group(4):
                raise ValueError("strace truncated write data; raise -s")
            data = data[:ret]
            off = offs.get(fd, 0)
            events.append({"e": "write", "p": name, "off": off, "d": list(data)})
            offs[fd] = off + len(data)
            sizes[name] = max(sizes.get(name, 0), off + len(data))
        elif call == "pwrite64":
            a = re.match(r'^(\d+)<((?:\\x..)*)>, "((?:\\x..)*)"(\.\.\.)?, (\d+), (\d+)$', args)
            if not a:
                continue
            name = rel(unhex(a.group(2)))
            if name is None:
                continue
            if a.group(4):
                raise ValueError("strace truncated write data; raise -s")
            data = unhex(a.group(3))[:ret]
            off = int(a.group(6))
            events.append({"e": "write", "p": name, "off": off, "d": list(data)})
            sizes[name] = max(sizes.get(name, 0), off + len(data))
        elif call in ("writev", "pwritev"):
            a = re.match(r'^(\d+)<((?:\\x..)*)>', args)
            if a and rel(unhex(a.group(2))) is not None:
                raise ValueError("writev on a traced file is not supported")
        elif call in ("openat", "open", "creat"):
            a = re.search(r'"((?:\\x..)*)", ([A-Z_|0-9a-zx]+)', args)
            r = re.match(r"^<((?:\\x..)*)>", tail)
            if not a or not r:
                continue
            path = unhex(r.group(1))
            name = rel(path)
            flags = a.group(2).split("|")
            if name is None:
                # the directory itself opened (for fsync)
                continue
            creat, trunc = "O_CREAT" in flags or call == "creat", "O_TRUNC" in flags or call == "creat"
            if "O_WRONLY" in flags or "O_RDWR" in flags or creat:
                events.append({"e": "open", "p": name, "creat": creat, "trunc": trunc})
            if trunc:
                sizes[name] = 0
            offs[ret] = sizes.get(name, 0) if "O_APPEND" in flags else 0
        elif call == "lseek":
            a = re.match(r'^(\d+)<((?:\\x..)*)>', args)
            if a and rel(unhex(a.group(2))) is not None:
                offs[int(a.group(1))] = ret
        elif call == "ftruncate":
            a = re.match(r'^(\d+)<((?:\\x..)*)>, (\d+)$', args)
            if a:
                name = rel(unhex(a.group(2)))
                if name is not None:
                    events.append({"e": "ftruncate", "p": name, "len": int(a.group(3))})
                    sizes[name] = int(a.group(3))
        elif call in ("fsync", "fdatasync"):
            a = re.match(r'^(\d+)<((?:\\x..)*)>$', args)
            if a:
                path = unhex(a.group(2)).decode(errors="replace")
                if path == directory:
                    events.append({"e": "fsyncdir"})
                elif os.path.dirname(path) == directory:
                    events.append({"e": "fsync", "p": os.path.basename(path)})
        elif call in ("rename", "renameat", "renameat2"):
            ps = re.findall(r'"((?:\\x..)*)"', args)
            if len(ps) == 2:
                a_, b_ = unhex(ps[0]).decode(errors="replace"), unhex(ps[1]).decode(errors="replace")
                if os.path.dirname(a_) == directory and os.path.dirname(b_) == directory:
                    events.append({"e": "rename", "p": os.path.basename(a_), "q": os.path.basename(b_)})
                    if os.path.basename(a_) in sizes:
                        sizes[os.path.basename(b_)] = sizes.pop(os.path.basename(a_))
        elif call in ("unlink", "unlinkat"):
            ps = re.findall(r'"((?:\\x..)*)"', args)
            if ps:
                a_ = unhex(ps[0]).decode(errors="replace")
                if os.path.dirname(a_) == directory:
                    events.append({"e": "unlink", "p": os.path.basename(a_)})
                    sizes.pop(os.path.basename(a_), None)
    return events
