"""SnapXfer engine (C17): spec/SnapXfer.tla (TLC) + dv-snapxfer (real receiver) + comparison.

For C17:
  1. TLC model-checks SnapXfer.tla exhaustively (all chunk streams up to the tier's bounds with all
     combinations of stream faults and receiver crashes): the C17 invariants must hold for the design
     (Dev = {}); every named deviation must break an invariant (the invariants are not vacuous).
  2. The same exhaustive run prints every complete behaviour (stream items, crash point, expected
     result / acks / durable state after / sequence of durable states).
  3. dv-snapxfer feeds every behaviour through a real tokio channel into the real
     DefaultStateMachineHandler::apply_snapshot_stream_from_leader (chunks from the real sender code,
     in-memory reference state machine and FileStateMachine) and records the durable state (state
     machine content / last applied / snapshot metadata, snapshot directory) at every poll boundary of
     the receiver future and at the end of every attempt.
  4. Layer 1 (property monitors, the only source of VIOLATION): the invariants of the spec evaluated
     on the observed states, with "was the consumed stream complete and valid" taken from the spec.
     Layer 2 (conformance): result class, ack sequence, durable state and its history equal the
     spec's expectation; divergences never raise an alarm, they downgrade the evidence level.
"""
import json
import os
import re
import shutil
import time

import dv

ENGINE = {"name": "snapxfer",
          "kind": "SnapXfer.tla (TLC, exhaustive stream/fault/crash enumeration) + dv-snapxfer harness over the real "
                  "DefaultStateMachineHandler / SnapshotAssembler, conformance of every enumerated behaviour"}
PROPS = {"C17": {}}
MANIFEST_INFO = {
    "C17": dict(
        technique="TLA+/TLC model checking of SnapXfer.tla + replay of every TLC-enumerated behaviour into the real receiver",
        category="model_checking",
        text=("snapshot transfers are all-or-nothing: TLC checks the receiver model (open/validate/write/ack/count/"
              "rename/unpack/apply steps, temp + final files + state machine as durable state) against the C17 "
              "invariants for ALL chunk streams of <= 4 chunks under drop / duplicate / swap / corrupt / leader or term "
              "change / stripped metadata / early close / timeout and receiver crashes (fault budget 2, quick; 2 "
              "attempts and budget 3 in thorough); every enumerated behaviour is replayed through a real tokio channel "
              "into the real DefaultStateMachineHandler::apply_snapshot_stream_from_leader (chunks produced by the real "
              "sender code, reference in-memory state machine and FileStateMachine) and the observed state-machine "
              "content, last_applied, snapshot directory (at every poll boundary of the receiver future and at the end) "
              "are judged by the spec's invariants and compared with the spec's expected outcome."),
        note=("trusted: TLC, the harness' projection of directory listing / state machine content onto the spec's "
              "abstract values, process-crash semantics (what has been written survives; no power-loss model, fsync is "
              "not checked); bounds: streams <= 4 chunks, fault budget as reported in the evidence; exhaustive within "
              "these bounds at spec level and replay level"),
        ref="DESIGN.md sections 2-3 (C17), design_parts/snapxfer.md"),
}

KINDS = ["drop", "dup", "swap", "corrupt", "leader", "term", "nometa", "close", "gap", "crash"]
DEVS = ["NoTruncate", "NoCountCheck", "NoOrderCheck", "NoChecksum", "NoLeaderCheck", "InPlace", "ApplyBeforeRename"]
INVS = ["StateOnlyIfComplete", "FilesOnlyIfComplete", "FinalAtomic", "PrevUntouched", "StateFromFinal",
        "OkMeansReplaced"]

TIER = {
    # name -> (MaxChunks, MaxFaults, Attempts)
    "quick": dict(configs=[("s4f2a1", 4, 2, 1), ("s3f1a2", 3, 1, 2)], sms=["mem", "file"], workers=4,
                  sweep_n=[1, 3], timeout=600, devs=["NoCountCheck", "ApplyBeforeRename"], vacuity=False),
    "thorough": dict(configs=[("s4f2a2", 4, 2, 2), ("s4f3a1", 4, 3, 1)], sms=["mem", "file"], workers=8,
                     sweep_n=[1, 2, 3, 4], timeout=2400, devs=DEVS, vacuity=True),
}

ERR_CLASS = [("No chunk received for", "timeout"), ("Leader changed during transfer", "leader-changed"),
             ("Missing metadata in snapshot stream", "missing-metadata"),
             ("Checksum validation failed", "checksum"), ("Out-of-order chunk", "out-of-order"),
             ("Received chunks(", "count"), ("Failed to unpack", "unpack")]
INIT = {"files": {"prev": "ok", "A": "absent", "B": "absent"}, "sm": "old"}


def cfg_file(wd, name, chunks, faults, attempts, dev, emit, invariants):
    path = os.path.join(wd, name + ".cfg")
    dv.write_cfg(path, constants={"MaxChunks": chunks, "MaxFaults": faults, "Kinds": dv.tla_set(KINDS),
                                  "Attempts": attempts, "Dev": dv.tla_set(dev),
                                  "EmitOn": "TRUE" if emit else "FALSE"},
                 invariants=invariants)
    return path


def parse_replays(out):
    res = []
    for m in re.finditer(r'<<"REPLAY", "(.*)">>', out):
        s = m.group(1).replace('\\"', '"').replace("\\\\", "\\")
        res.append(json.loads(s))
    return res


def run_tlc_emit(wd, name, chunks, faults, attempts, workers, timeout):
    cfg = cfg_file(wd, name, chunks, faults, attempts, [], True, ["C17", "Emit"])
    rc, out, dt = dv.tlc("SnapXfer", cfg, wd, workers=workers, timeout=timeout, extra=["-coverage", "1"])
    st = dv.tlc_stats(out)
    if "Model checking completed. No error has been found." not in out:
        bad = re.findall(r"Error: Invariant (\S+) is violated", out)
        raise dv.ToolError("SnapXfer.tla (Dev = {}) config %s: %s\n%s" % (name, bad or "TLC failed", out[-2500:]))
    behs = parse_replays(out)
    cov = dv.tlc_action_coverage(out)
    for a in ("Edit", "Recv", "Write", "Rename", "Apply", "Crash"):
        if cov.get(a, 0) == 0:
            raise dv.ToolError("vacuous model run: action %s never taken in %s" % (a, name))
    if not behs:
        raise dv.ToolError("TLC emitted no behaviour for " + name)
    return behs, dict(config=name, MaxChunks=chunks, MaxFaults=faults, Attempts=attempts,
                      distinct_states=st["distinct"], states_generated=st["generated"], depth=st["depth"],
                      behaviours=len(behs), secs=round(dt, 1), actions=cov)


def run_dev_checks(wd, workers, devs, vacuity):
    """every named deviation must violate an invariant; the happy path must be reachable"""
    res = {}
    for d in devs:
        cfg = cfg_file(wd, "dev-" + d, 2, 2, 2, [d], False, INVS)
        rc, out, dt = dv.tlc("SnapXfer", cfg, wd, workers=workers, timeout=600)
        bad = re.findall(r"Error: Invariant (\S+) is violated", out)
        if not bad:
            raise dv.ToolError("deviation %s violates no invariant (vacuous invariants?)\n%s" % (d, out[-1500:]))
        res[d] = bad[0]
    if not vacuity:      # quick tier: the emitted behaviours themselves contain successful transfers (checked below)
        return res
    cfg = cfg_file(wd, "vac", 2, 1, 1, [], False, ["NeverReplaced"])
    rc, out, dt = dv.tlc("SnapXfer", cfg, wd, workers=workers, timeout=600)
    if "Invariant NeverReplaced is violated" not in out:
        raise dv.ToolError("the model never replaces the state (vacuous)\n" + out[-1500:])
    return res


def key_of(beh):
    return json.dumps([[a["snap"], a["n"], a["items"], a["crash"]] for a in beh], sort_keys=True)


def to_case(cid, beh, sweep=False):
    c = {"id": cid, "attempts": [{"snap": a["snap"], "n": a["n"], "items": a["items"], "crash": a["crash"]}
                                 for a in beh]}
    if sweep:
        c["sweep"] = True
    return c


def run_harness(wd, cases, sm, tag):
    cp = os.path.join(wd, "cases-%s-%s.ndjson" % (tag, sm))
    op = os.path.join(wd, "obs-%s-%s.ndjson" % (tag, sm))
    with open(cp, "w") as f:
        for c in cases:
            f.write(json.dumps(c) + "\n")
    rc, out, dt = dv.run([dv.harness_bin("dv-snapxfer"), "run", "--cases", cp, "--out", op, "--scratch",
                          os.path.join(wd, "scratch-" + sm), "--sm", sm], timeout=3000, check=False)
    if rc != 0:
        raise dv.ToolError("dv-snapxfer failed (rc=%d):\n%s" % (rc, out[-3000:]))
    res = {}
    fixture = None
    with open(op) as f:
        for line in f:
            r = json.loads(line)
            if "fixture" in r:
                fixture = r["fixture"]
            else:
                res[r["id"]] = r
    return res, fixture, dt


def err_class(o):
    if o["result"] in ("ok", "crashed", "panic"):
        return o["result"]
    for pat, cls in ERR_CLASS:
        if pat in o["err"]:
            return cls
    return "other:" + o["err"][:80]


def exp_class(e):
    r = e["exp"]["result"]
    return "missing-metadata" if r == "missing-metadata-at-end" else r


def cause_of(att):
    """cause class of a violation = what the spec says this attempt is (computed from the behaviour)"""
    e = att["exp"]
    if att["crash"]:
        return "crash-at-" + str(att["crash"][0])
    if e["complete"]:
        return "complete-stream"
    return "stream-" + exp_class(att)


def judge_attempt(att, obs, start):
    """Layer 1: C17 invariants of SnapXfer.tla on the observed durable states of one attempt.
    att: spec attempt (with exp), obs: harness record, start: observed durable state before it."""
    viol = []
    snap = att["snap"]
    complete = att["exp"]["complete"]
    states = list(obs["profile"]) + [obs["after"]]

    def v(mon, what, st):
        viol.append({"p": "C17", "m": mon, "cause": cause_of(att), "what": what, "state": st})

    for st in states:
        files, sm = st["files"], st["sm"]
        if any(c == "bad" for c in files.values()):
            v("FinalAtomic", "a final snapshot file holds something else than a complete snapshot", st)
        if files["prev"] != "ok":
            v("PrevUntouched", "the previous snapshot file was modified or removed", st)
        if sm in ("A", "B") and files[sm] != "ok":
            v("StateFromFinal", "state machine holds a snapshot whose complete final file does not exist", st)
        if sm != start["sm"] and not (complete and sm == snap):
            if not (complete and sm.startswith("other")):
                v("StateOnlyIfComplete", "state machine changed (%s -> %s) although the transfer was not the "
                  "complete valid in-order stream" % (start["sm"], sm), st)
        if files != start["files"]:
            want = dict(start["files"])
            want[snap] = "ok"
            if not (complete and files == want) and not any(c == "bad" for c in files.values()):
                v("FilesOnlyIfComplete", "final snapshot files changed (%s -> %s) although the transfer was not "
                  "the complete valid in-order stream" % (json.dumps(start["files"], sort_keys=True),
                                                           json.dumps(files, sort_keys=True)), st)
    for name in obs.get("extra", []):
        if name.startswith("snapshot-"):
            v("FilesOnlyIfComplete", "unexpected final snapshot file " + name, obs["after"])
    # one violation per monitor is enough
    seen, out = set(), []
    for x in viol:
        if x["m"] not in seen:
            seen.add(x["m"])
            out.append(x)
    return out


def conform_attempt(att, obs):
    """Layer 2: differences between the spec's expectation and the observation."""
    e = att["exp"]
    diffs = []
    if err_class(obs) != exp_class(att):
        diffs.append("result %s (spec %s)" % (err_class(obs), exp_class(att)))
    if obs["acks"] != e["acks"]:
        diffs.append("acks differ")
    if obs["after"] != e["after"]:
        diffs.append("state after differs: %s (spec %s)" % (json.dumps(obs["after"], sort_keys=True),
                                                            json.dumps(e["after"], sort_keys=True)))
    # poll boundaries depend on timing: the observed history must be a subsequence of the spec's history
    # that ends in the same state (the state at the entry of apply_snapshot_from_file is always observed)
    it = iter(e["profile"])
    if not all(any(p == q for q in it) for p in obs["profile"]) or \
            (obs["profile"] and e["profile"] and obs["profile"][-1] != e["profile"][-1]):
        diffs.append("history of durable states differs")
    return diffs


def judge_behaviour(beh, rec):
    viol, diffs = [], []
    start = INIT
    for i, att in enumerate(beh):
        if i >= len(rec["attempts"]):
            diffs.append("attempt %d missing" % i)
            break
        o = rec["attempts"][i]
        for x in judge_attempt(att, o, start):
            x["attempt"] = i
            viol.append(x)
        for d in conform_attempt(att, o):
            diffs.append("attempt %d: %s" % (i, d))
        # after a crash the next attempt starts from what the restarted process finds
        start = o.get("after_restart", o["after"])
        if "after_restart" in o and o["after_restart"] != o["after"]:
            diffs.append("[sm-recovery] attempt %d: state machine after restart differs from the state at the crash: "
                         "%s -> %s" % (i, o["after"]["sm"], o["after_restart"]["sm"]))
    return viol, diffs


def sweep_groups(behs):
    """2-attempt behaviours whose first attempt is the fault-free stream with a crash and whose second
    attempt is fault-free: grouped by everything but the crash point."""
    groups = {}
    for b in behs:
        if len(b) != 2 or b[0]["edits"] or not b[0]["crash"] or b[1]["edits"] or b[1]["crash"]:
            continue
        k = (b[0]["n"], b[1]["snap"], b[1]["n"])
        groups.setdefault(k, []).append(b)
    return groups


def judge_sweep(group, recs):
    """recs: harness records of one sweep case (first attempt cut at poll boundary 0,1,2,..)."""
    viol, diffs = [], []
    full_profile = max((g[0]["exp"]["profile"] for g in group), key=len)
    for rec in recs:
        o = rec["attempts"][0]
        if o["result"] != "crashed":
            continue
        # what the crash leaves behind is what the restarted process finds
        left = o.get("after_restart", o["after"])
        match = [g for g in group if g[0]["exp"]["after"] == left]
        if not match:
            # a crash left a durable state no crash point of the spec allows.  Once the final file is complete
            # (rename done) every chunk had been received and validated: what the state machine makes of a crash
            # inside its own apply_snapshot_from_file is its own recovery contract, not C17's.
            renamed = left["files"][group[0][0]["snap"]] == "ok" and left["files"]["prev"] == "ok"
            fake = dict(group[0][0])
            fake = dict(fake, exp=dict(fake["exp"], complete=renamed), crash=["cut", rec["id"]])
            o2 = dict(o, after=left, profile=o["profile"] if renamed else o["profile"] + [o["after"]])
            vs = judge_attempt(fake, o2, INIT)
            if not vs and not renamed:
                vs = [{"p": "C17", "m": "StateOnlyIfComplete", "cause": "crash-at-cut",
                       "what": "durable state after a crash is none of the spec's: " + json.dumps(left),
                       "state": left}]
            for x in vs:
                x["attempt"] = 0
                x["cut"] = rec["id"]
            viol += vs
            if not vs:
                diffs.append("[sm-recovery] %s: crash inside apply_snapshot_from_file left the state machine at %s"
                             % (rec["id"], left["sm"]))
            continue
        g = match[0]
        it = iter(full_profile)
        if not all(any(p == q for q in it) for p in o["profile"]):
            diffs.append("%s: history before the cut is not part of the spec's history" % rec["id"])
        vs, ds = judge_behaviour(g, rec)
        # the cut attempt's acks / result depend on the boundary: only the state is compared
        ds = [d for d in ds if not d.startswith("attempt 0")]
        for x in vs:
            x["cut"] = rec["id"]
        viol += vs
        diffs += ["%s: %s" % (rec["id"], d) for d in ds]
    return viol, diffs


def nontrivial(att, obs):
    """the attempt exercised the mechanism: the receiver had accepted at least one chunk (a partial or
    complete assembly existed) when the transfer ended, whichever way it ended"""
    return any(a["status"] == "Accepted" for a in obs["acks"])


def check(prop, tier):
    t0 = time.time()
    T = TIER[tier]
    wd = dv.workdir("snapxfer-" + prop)
    try:
        return _check(prop, tier, T, wd, t0)
    finally:
        shutil.rmtree(wd, ignore_errors=True)


def _harness_root():
    # binding self-test only: build the harness from a copy of the workspace whose path dependencies point
    # at a scratch worktree of /repo carrying a seeded mutation
    root = os.environ.get("DV_HARNESS_ROOT")
    if root:
        dv.HARNESS = root


def _check(prop, tier, T, wd, t0):
    _harness_root()
    dv.build_harness("dv-snapxfer")
    # 1+2: model checking + behaviours
    mc, behs, seen = [], [], set()
    states = transitions = 0
    for name, chunks, faults, attempts in T["configs"]:
        bs, st = run_tlc_emit(wd, name, chunks, faults, attempts, T["workers"], T["timeout"])
        mc.append(st)
        states += st["distinct_states"]
        transitions += st["states_generated"]
        for b in bs:
            k = key_of(b)
            if k not in seen:
                seen.add(k)
                behs.append(b)
    if os.environ.get("DV_SELFTEST_CORRUPT") == "C17":
        # binding self-test: claim that the fault-free streams are incomplete; the real code's (correct)
        # replacement of the state must then be reported
        for b in behs:
            for a in b:
                if not a["edits"] and not a["crash"]:
                    a["exp"]["complete"] = False
    devs = run_dev_checks(wd, T["workers"], T["devs"], T["vacuity"])
    # sweep cases (crash at every poll boundary of a complete transfer, then a second transfer)
    sgroups = sweep_groups(behs)
    sweeps = {}
    for (n1, s2, n2), g in sorted(sgroups.items()):
        if n1 in T["sweep_n"] and (s2, n2) in (("B", 1), ("A", n1), ("B", 2)):
            sweeps["sw-%d-%s%d" % (n1, s2, n2)] = g

    # 3: real code
    cases = [to_case("b%d" % i, b) for i, b in enumerate(behs)]
    sweep_cases = [to_case(cid, [dict(g[0][0], crash=[]), g[0][1]], sweep=True) for cid, g in sweeps.items()]
    viol, divergences, notes = [], [], []
    total = nontriv_total = 0
    nontriv = set()
    samples = []
    per_sm = {}
    fixture = None
    for sm in T["sms"]:
        res, fixture, secs = run_harness(wd, cases, sm, "main")
        n_ok = 0
        for i, b in enumerate(behs):
            rec = res.get("b%d" % i)
            if rec is None:
                raise dv.ToolError("harness produced no record for behaviour %d (%s)" % (i, sm))
            vs, ds = judge_behaviour(b, rec)
            total += 1
            for x in vs:
                x.update(sm=sm, behaviour=b, observed=rec)
                viol.append(x)
            notes += [{"sm": sm, "id": "b%d" % i, "note": d} for d in ds if d.startswith("[sm-recovery]")]
            ds = [d for d in ds if not d.startswith("[sm-recovery]")]
            if ds:
                divergences.append({"sm": sm, "id": "b%d" % i, "diffs": ds[:4],
                                    "edits": [a["edits"] for a in b], "crash": [a["crash"] for a in b]})
            else:
                n_ok += 1
            for j, att in enumerate(b):
                if j < len(rec["attempts"]) and nontrivial(att, rec["attempts"][j]):
                    nontriv.add(json.dumps([att["items"], att["crash"]], sort_keys=True))
                    nontriv_total += 1
            if len(samples) < 3 and sm == "mem" and b[0]["edits"] and i % 37 == 5:
                samples.append({"edits": [a["edits"] for a in b], "crash": [a["crash"] for a in b],
                                "spec": [dict(result=a["exp"]["result"], after=a["exp"]["after"]) for a in b],
                                "observed": [dict(result=err_class(o), after=o["after"], polls=o["polls"])
                                             for o in rec["attempts"]]})
        sres, _, ssecs = run_harness(wd, sweep_cases, sm, "sweep") if sweep_cases else ({}, None, 0)
        cuts = 0
        for cid, g in sweeps.items():
            recs = [r for k, r in sres.items() if k.startswith(cid + "#")]
            recs.sort(key=lambda r: int(r["id"].split("#cut")[1]))
            if not recs or recs[-1]["attempts"][0]["result"] == "crashed":
                raise dv.ToolError("sweep %s did not run to completion" % cid)
            cuts += len(recs) - 1
            vs, ds = judge_sweep(g, recs)
            total += len(recs)
            for x in vs:
                x.update(sm=sm, behaviour=[dict(g[0][0], crash=[]), g[0][1]], sweep=True, group=g)
                viol.append(x)
            notes += [{"sm": sm, "id": cid, "note": d} for d in ds if "[sm-recovery]" in d]
            ds = [d for d in ds if "[sm-recovery]" not in d]
            if ds:
                divergences.append({"sm": sm, "id": cid, "diffs": ds[:4]})
        per_sm[sm] = dict(behaviours=len(behs), conforming=n_ok, sweep_cases=len(sweep_cases), sweep_cuts=cuts,
                          secs=round(secs + ssecs, 1))

    # sanity: the mechanism was exercised on the real code (a complete transfer replaced the state)
    if not any(b[0]["exp"]["result"] == "ok" for b in behs):
        raise dv.ToolError("no complete transfer among the behaviours")

    # 5: verdict
    known = dv.load_known() + dv.load_known_part("snapxfer")
    known_hits, new = dv.classify(prop, viol, known=known)
    replay_paths = []
    seen_sig = set()
    for x in new:
        sig = (x["m"], x["cause"], x["sm"])
        if sig in seen_sig or len(replay_paths) >= 5:
            continue
        seen_sig.add(sig)
        replay_paths.append(dv.save_replay(prop, {
            "engine": "snapxfer", "property": prop, "sm": x["sm"], "behaviour": x["behaviour"],
            "sweep": bool(x.get("sweep")), "group": x.get("group"),
            "violation": {k: x[k] for k in ("p", "m", "cause", "what", "state", "attempt") if k in x}}))
    if not samples:
        samples = [{"note": "no sample selected"}]
    cov = {
        "states": states, "transitions": transitions,
        "traces_validated_against_impl": total,
        "samples": samples,
        "evaluations": total, "distinct_nontrivial": len(nontriv),
        "rule": "behaviours = every complete behaviour TLC enumerates for SnapXfer.tla within the listed constants "
                "(distinct by items + crash points), each replayed into the real receiver once per state machine kind, "
                "plus crash sweeps (complete transfer cut at every poll boundary, followed by a second transfer); "
                "non-trivial = attempt in which the real receiver accepted at least one chunk before the transfer "
                "ended (complete, faulty or crashed); distinct by (items, crash point)",
        "model_checking": mc, "deviation_checks": devs,
        "state_machines": per_sm, "fixture": fixture,
        "nontrivial_attempts_total": nontriv_total,
        "conformance_divergences": divergences[:20], "conformance_divergence_count": len(divergences),
        "state_machine_recovery_notes": notes[:10], "state_machine_recovery_note_count": len(notes),
        "monitor_failures": len(viol),
        "known_findings_hit": sorted({"%s/%s/%s" % (k["property"], k["monitor"], k["cause"]) for k, _ in known_hits}),
        "exhaustive": True,
    }
    level = "model_checking"
    dv.write_evidence(prop, tier, level, cov,
                      ["process-crash semantics: what has been written to the file system survives (no power-loss / "
                       "fsync model)",
                       "receiver driven through apply_snapshot_stream_from_leader directly (the gRPC layer and the "
                       "role's InstallSnapshotChunk handler are not in the loop)",
                       "chunks of one stream all stem from one snapshot file (no splicing of two snapshots)",
                       "bounds: streams <= 4 chunks, fault budget and attempts per configuration as listed"],
                      time.time() - t0, len(new))
    if divergences:
        print("NOTE property=%s %d behaviour(s) differ from the spec's expectation without violating the property "
              "(evidence level downgraded)" % (prop, len(divergences)))
    return dv.finish(prop, known_hits, new, replay_paths)


def replay(prop, path):
    with open(path) as f:
        payload = json.load(f)
    wd = dv.workdir("snapxfer-replay-" + prop)
    try:
        _harness_root()
        dv.build_harness("dv-snapxfer")
        beh = payload["behaviour"]
        case = to_case("r0", beh, sweep=payload.get("sweep", False))
        res, _, _ = run_harness(wd, [case], payload.get("sm", "mem"), "replay")
        viol = []
        if payload.get("sweep"):
            recs = sorted(res.values(), key=lambda r: int(r["id"].split("#cut")[1]))
            viol, _ = judge_sweep(payload["group"], recs)
        else:
            viol, _ = judge_behaviour(beh, res["r0"])
        for v in viol:
            print("reproduced:", json.dumps({k: v[k] for k in ("p", "m", "cause", "what")}))
        known = dv.load_known() + dv.load_known_part("snapxfer")
        known_hits, new = dv.classify(prop, viol, known=known)
        return dv.finish(prop, known_hits, new, [path] if new else [])
    finally:
        shutil.rmtree(wd, ignore_errors=True)
