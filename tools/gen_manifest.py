#!/usr/bin/env python3
"""Regenerates MANIFEST.json from the tables below (keeps it valid at all times)."""
import json, os, subprocess
ROOT = os.path.dirname(os.path.dirname(os.path.abspath(__file__)))

CLUSTER_TEXT = ("TLC model-checks the focused configuration of DEngine.tla (node entry points as actions, repaired design) "
                "for this property's invariants; TLC-simulated behaviours of the as-implemented model and seeded random "
                "schedules are replayed step by step into real d-engine Raft nodes (production election / replication / "
                "commit / apply code, simulated transport and storage); TLC then judges every recorded state with the "
                "property monitors of DETrace.tla and checks each step against the DECore operators (conformance).")
CLUSTER_NOTE = ("trusted: TLC, the step harness' projection of node state, the in-memory storage engine and state machine "
                "used in cluster runs; bounds 3 nodes and the constants reported in the evidence file; exhaustive only "
                "at design level within those constants")

CHECKS = {}
for pid, what in {
    "C01": "at most one leader per term", "C02": "one vote per term, term never decreases across crashes",
    "C04": "log matching", "C05": "committed entries are never lost", "C06": "state machine safety",
    "C07": "followers only commit leader-matching entries", "C08": "contiguous requests, gap-free logs",
    "C09": "leader commit rule", "C10": "acknowledged writes are committed and durable",
    "C14": "rejected writes are never applied", "C29": "one correct response per write",
    "C31": "consistent leader notifications",
}.items():
    CHECKS[pid] = dict(engine="cluster", technique="TLA+/TLC model checking of DEngine.tla + trace validation of real-node executions (DETrace.tla)",
                       category="model_checking", text=what + ": " + CLUSTER_TEXT, note=CLUSTER_NOTE, ref="DESIGN.md section 3 / 9")

NOT_YET = {}

def main():
    props = [json.loads(l)["id"] for l in open(os.path.join(ROOT, "properties.jsonl"))]
    hooks = subprocess.run(["git", "-C", "/repo", "log", "--format=%h %s"], stdout=subprocess.PIPE, text=True).stdout.splitlines()
    hook_commits = [l.split()[0] for l in hooks if l.split(" ", 1)[1].startswith("verif hooks")]
    checks = []
    for pid in props:
        if pid not in CHECKS:
            continue
        c = CHECKS[pid]
        checks.append({
            "property_id": pid,
            "quick_cmd": "./check %s --tier quick" % pid,
            "thorough_cmd": "./check %s --tier thorough" % pid,
            "evidence_file": "/verif/evidence/%s.json" % pid,
            "replay_cmd_template": "./check %s --replay {path}" % pid,
            "engine": c["engine"],
            "level_claimed": {"category": c["category"], "text": c["text"], "design_ref": c["ref"]},
            "level_note": c["note"],
            "technique": c["technique"],
        })
    na = [{"property_id": p, "reason": NOT_YET.get(p, "check not built yet in this round (planned: see DESIGN.md section 7); not claimed until its machinery is committed")}
          for p in props if p not in CHECKS]
    man = {
        "version": 1,
        "setup_cmd": "cd /verif/harness && cargo build --offline",
        "hooks": {
            "guard": "--cfg deventlab_d_engine_verif",
            "enable": "rustflags in /verif/harness/.cargo/config.toml: --cfg deventlab_d_engine_verif (harness workspace has path dependencies on /repo crates)",
            "baseline_off_cmd": "cd /repo && cargo nextest run --workspace --no-fail-fast --tool-config-file pb:/w/lib/nextest.toml --profile pb --test-threads 8 --offline",
            "source_commits": hook_commits,
            "add_only": True,
        },
        "engines": [
            {"name": "cluster", "path": "/verif/tools/cluster.py", "serves_properties": sorted(p for p, c in CHECKS.items() if c["engine"] == "cluster"),
             "kind_free_text": "DEngine.tla + DECore.tla (TLC), dv-cluster step harness over real Raft nodes, DETrace.tla trace judge"},
        ],
        "checks": checks,
        "notes": "All checks: ./check <id> [--tier quick|thorough]; exit 0 ok / 1 VIOLATION / 2 tool error. Known findings: /verif/known_findings.json.",
        "not_applicable": na,
    }
    with open(os.path.join(ROOT, "MANIFEST.json"), "w") as f:
        json.dump(man, f, indent=1)
        f.write("\n")

if __name__ == "__main__":
    main()
