#!/usr/bin/env python3
"""Regenerates MANIFEST.json from the tables below (keeps it valid at all times)."""
import json, os, subprocess
ROOT = os.path.dirname(os.path.dirname(os.path.abspath(__file__)))

import importlib, sys
sys.path.insert(0, os.path.dirname(os.path.abspath(__file__)))
ENGINE_MODULES = ["cluster", "cluster_ext", "kv", "store", "snapxfer", "watch", "funcs"]
# only engines (and, per engine, properties) that have been integrated and verified are registered
READY = json.load(open(os.path.join(ROOT, "tools", "ready.json")))
CHECKS = {}
ENGINES = []
for name in ENGINE_MODULES:
    try:
        mod = importlib.import_module(name)
    except ModuleNotFoundError as e:
        if e.name == name:
            continue
        raise
    if name not in READY:
        continue
    info = {p: c for p, c in getattr(mod, "MANIFEST_INFO", {}).items() if READY[name] == "all" or p in READY[name]}
    for pid, c in info.items():
        CHECKS[pid] = dict(engine=mod.ENGINE["name"], technique=c["technique"], category=c.get("category", "model_checking"),
                           text=c["text"], note=c["note"], ref=c.get("ref", "DESIGN.md section 3"))
    if info:
        ENGINES.append({"name": mod.ENGINE["name"], "path": "/verif/tools/%s.py" % name,
                        "serves_properties": sorted(info.keys()), "kind_free_text": mod.ENGINE["kind"]})

NOT_YET = {}

def main():
    props = [json.loads(l)["id"] for l in open(os.path.join(ROOT, "properties.jsonl"))]
    hooks = subprocess.run(["git", "-C", "/repo", "log", "--format=%h %s"], stdout=subprocess.PIPE, text=True).stdout.splitlines()
    hook_commits = [l.split()[0] for l in hooks if l.split(" ", 1)[1].startswith("verif hooks")]
    checks = []
    for pid in props:
        if pid not in CHECKS:
            continue
        c = CHECKS[pid]
        checks.append({
            "property_id": pid,
            "quick_cmd": "./check %s --tier quick" % pid,
            "thorough_cmd": "./check %s --tier thorough" % pid,
            "evidence_file": "/verif/evidence/%s.json" % pid,
            "replay_cmd_template": "./check %s --replay {path}" % pid,
            "engine": c["engine"],
            "level_claimed": {"category": c["category"], "text": c["text"], "design_ref": c["ref"]},
            "level_note": c["note"],
            "technique": c["technique"],
        })
    na = [{"property_id": p, "reason": NOT_YET.get(p, "check not built yet in this round (planned: see DESIGN.md section 7); not claimed until its machinery is committed")}
          for p in props if p not in CHECKS]
    man = {
        "version": 1,
        "setup_cmd": "cd /verif/harness && cargo build --offline",
        "hooks": {
            "guard": "--cfg deventlab_d_engine_verif",
            "enable": "rustflags in /verif/harness/.cargo/config.toml: --cfg deventlab_d_engine_verif (harness workspace has path dependencies on /repo crates)",
            "baseline_off_cmd": "cd /repo && cargo nextest run --workspace --no-fail-fast --tool-config-file pb:/w/lib/nextest.toml --profile pb --test-threads 8 --offline",
            "source_commits": hook_commits,
            "add_only": True,
        },
        "engines": ENGINES,
        "checks": checks,
        "notes": "All checks: ./check <id> [--tier quick|thorough]; exit 0 ok / 1 VIOLATION / 2 tool error. Known findings: /verif/known_findings.json.",
        "not_applicable": na,
    }
    with open(os.path.join(ROOT, "MANIFEST.json"), "w") as f:
        json.dump(man, f, indent=1)
        f.write("\n")

if __name__ == "__main__":
    main()
