#!/bin/bash
# usage: tools/baseline_seed.sh <id>...  -- runs the repository's baseline suite with each seeded change applied (scratch worktree)
W=/var/tmp/confirm/wt
export CARGO_TARGET_DIR=/var/tmp/confirm/target
mkdir -p /var/tmp/confirm
if [ ! -d $W ]; then git -C /repo worktree add -q --detach $W HEAD; fi
for id in "$@"; do
  cd $W && git checkout -q --detach $(git -C /repo rev-parse HEAD) && git reset -q --hard && git clean -qfd
  git apply /verif/seeded/$id/patch.diff || { echo "$id: apply failed"; continue; }
  L=/verif/seeded/$id/baseline.log
  cargo nextest run --workspace --no-fail-fast --tool-config-file pb:/w/lib/nextest.toml --profile pb --test-threads 8 --offline > /var/tmp/confirm/$id.full.log 2>&1
  { echo "## baseline suite with seeded change $id applied (cargo nextest run --workspace ...)"; grep -E "Summary" /var/tmp/confirm/$id.full.log | tail -1; echo "## failures:"; grep -E "^\s+FAIL" /var/tmp/confirm/$id.full.log | sed 's/^ *FAIL \[[^]]*\] ([^)]*) //' | sort -u; } > $L
  git reset -q --hard && git clean -qfd
  cat $L
done
