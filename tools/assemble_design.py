#!/usr/bin/env python3
"""DESIGN.md = Part I (written before the build, kept verbatim) + Part II assembled from design_parts/*.md"""
import os, glob
ROOT = os.path.dirname(os.path.dirname(os.path.abspath(__file__)))
MARK = "\n<!-- PART II (assembled from design_parts/) -->\n"
p = os.path.join(ROOT, "DESIGN.md")
txt = open(p).read()
part1 = txt.split(MARK)[0].rstrip() + "\n"
order = ["00_asbuilt.md", "01_findings.md", "02_seeded.md", "funcs.md", "kv.md", "store.md", "snapxfer.md", "watch.md", "99_limits.md"]
parts = []
for name in order:
    f = os.path.join(ROOT, "design_parts", name)
    if os.path.exists(f):
        parts.append(open(f).read().rstrip() + "\n")
open(p, "w").write(part1 + MARK + "\n" + "\n---------------------------------------------------------------------------------------------\n\n".join(parts))
print("DESIGN.md assembled:", len(parts), "parts")
