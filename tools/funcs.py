"""funcs engine: the "function-style" properties (C34, C37, C35, C36, C13).

The TLA+ specification of each is a reference semantics / decision table; TLC enumerates the whole
(bounded) input space, evaluates the expected outcome of every case (TLC = enumerator and oracle) and
checks the design-level statement on the table itself.  Every enumerated case then becomes one test of
the REAL code, executed by `dv-funcs <sub-command>`; the observation is compared with TLC's expectation.

  C34  spec/Config.tla       dv-funcs config   RaftConfig::validate / RaftNodeConfig::validate
  C37  spec/ClientCodec.tla  dv-funcs codec    embedded client + GrpcClient -> real single-node engine -> Command at apply_chunk
  C35  spec/ClientCodec.tla  dv-funcs mget     multi-key reads through both clients against File / RocksDB state machines
  C36  spec/MergeAE.tla      dv-funcs merge    real merge_append_entries + follower workflow vs one request at a time
  C13  spec/ReadRoute.tla    dv-funcs route    Raft command path on simulated nodes, embedded / gRPC paths on a loopback cluster

Binding self-test: VERIF_FUNCS_REPO=<scratch worktree of /repo> builds dv-funcs against that tree instead of /repo.
"""
import json
import os
import re
import shutil
import time

import dv

ENGINE = {"name": "funcs",
          "kind": "reference-semantics specs (Config/ClientCodec/ReadRoute/MergeAE.tla) enumerated by TLC, "
                  "each case executed against the real code by dv-funcs"}

_NOTE = ("weakest fit of the technique (no interleavings): the spec is a function, TLC enumerates its bounded "
         "domain exhaustively and is the oracle; trusted: TLC, the harness' mapping of abstract cases to "
         "concrete inputs; exhaustive only over the stated abstract domain")


def _known():
    return dv.load_known() + dv.load_known_part("funcs")


_built = set()


def _build():
    """Build dv-funcs against /repo's working tree; for the binding self-test (seeded mutations in a scratch
    worktree) VERIF_FUNCS_REPO=<worktree> overrides the path dependencies with that tree's crates."""
    alt = os.environ.get("VERIF_FUNCS_REPO")
    if not alt:
        return dv.build_harness("dv-funcs")
    if alt in _built:
        return
    paths = ",".join('"%s/%s"' % (alt, c) for c in ("d-engine-core", "d-engine-server", "d-engine-client", "d-engine-proto"))
    rc, out, dt = dv.run(["cargo", "build", "--offline", "-p", "dv-funcs", "--config", "paths=[%s]" % paths],
                         cwd=dv.HARNESS, timeout=3600, check=False)
    if rc != 0:
        raise dv.ToolError("harness build failed:\n" + out[-6000:])
    _built.add(alt)


def _tlc_cases(module, cfg, wd, workers, timeout):
    """Exhaustive TLC run of an enumerator spec. Returns (stats, printed lines)."""
    rc, out, dt = dv.tlc(module, cfg, wd, workers=workers, timeout=timeout)
    st = dv.tlc_stats(out)
    st["secs"] = round(dt, 1)
    viol = re.findall(r"Error: Invariant (\S+) is violated", out)
    if viol:
        raise dv.ToolError("design-level statement %s fails in %s (spec error, not a verdict about the code):\n%s"
                           % (viol, module, out[-3000:]))
    if "Model checking completed. No error has been found." not in out:
        raise dv.ToolError("TLC failed on %s:\n%s" % (module, out[-3000:]))
    lines = re.findall(r'^"([A-Z]+ [^"\n]*)"$', out, flags=re.M)
    return st, lines


def _run_bin(sub, cases_path, out_path, scratch, timeout=3000, extra=()):
    binp = dv.harness_bin("dv-funcs")
    rc, out, dt = dv.run([binp, sub, "--cases", cases_path, "--out", out_path, "--scratch", scratch] + list(extra),
                         timeout=timeout, check=False)
    if rc != 0:
        raise dv.ToolError("dv-funcs %s failed (%d):\n%s" % (sub, rc, out[-4000:]))
    res = []
    with open(out_path) as f:
        for line in f:
            if line.strip():
                res.append(json.loads(line))
    return res, dt


# =============================================================================================
# C34  accepted configurations are safe
# =============================================================================================
C34_FIELDS = ["lease", "rtt", "etMin", "etMax", "hb", "batch", "perReq", "retained", "other"]
C34_OTHERS = ["none", "lct0", "gen0", "merge0", "mon0", "ttl99", "snapmax0", "retain0", "chunk0", "idle0",
              "noovr", "noovr_ev", "leasedef"]
C34_TIER = {
    "quick": dict(timing=["p0", "p1", "p2", "p3", "mid", "maxm1", "max"], limit=["p0", "p1"], workers=4),
    "thorough": dict(timing=["p0", "p1", "p2", "p3", "midm1", "mid", "midp1", "maxm1", "max"],
                     limit=["p0", "p1", "max"], workers=8),
}
C34_SITE = {"lease-window": "ReadConsistencyConfig::validate", "election-order": "ElectionConfig::validate",
            "zero-heartbeat": "ReplicationConfig::validate", "zero-per-request": "ReplicationConfig::validate",
            "zero-batch": "BatchingConfig::validate", "zero-retained": "SnapshotConfig::validate"}


def c34_enumerate(wd, timing, limit, workers):
    cfg = os.path.join(wd, "Config.cfg")
    dv.write_cfg(cfg, constants={"TimingPts": dv.tla_set(timing), "LimitPts": dv.tla_set(limit),
                                 "Others": dv.tla_set(C34_OTHERS)},
                 invariants=["ValidatedIsSafe", "HalfReadingsAgree", "Emit"])
    st, lines = _tlc_cases("Config", cfg, wd, workers, 1500)
    points, cases = {}, []
    for ln in lines:
        t = ln.split(" ")
        if t[0] == "POINT":
            points[t[1]] = [int(t[2]), int(t[3])]
        elif t[0] == "CASE":
            c = dict(zip(C34_FIELDS, t[1:10]))
            c["exp"] = t[10]
            c["unsafe"] = [] if t[11] == "-" else t[11].split(",")
            cases.append(c)
    cases.sort(key=lambda c: [c[f] for f in C34_FIELDS])
    for i, c in enumerate(cases):
        c["id"] = i + 1
    if len(cases) != st["distinct"]:
        raise dv.ToolError("Config.tla: %d CASE lines for %d states" % (len(cases), st["distinct"]))
    return st, points, cases


def c34_concrete(points, case):
    return {f: points[case[f]][0] * (1 << 62) + points[case[f]][1] for f in C34_FIELDS[:8]}


def c34_judge(points, cases, results):
    """-> (violations, divergences, counters). A violation: the real validate accepted a configuration
    for which the spec's Safe is false."""
    byid = {r["id"]: r for r in results}
    viol, div = [], []
    cnt = {"accepted": 0, "rejected": 0, "rejected_by_timing_only": 0, "panics": 0}
    for c in cases:
        r = byid.get(c["id"])
        if r is None:
            raise dv.ToolError("dv-funcs config: no result for case %d" % c["id"])
        if r["unsafe"] != c["unsafe"]:
            raise dv.ToolError("abstraction check failed: spec Safe-conjuncts %s, concrete u128 evaluation %s for %s"
                               % (c["unsafe"], r["unsafe"], json.dumps(c)))
        accepted = [w for w in ("raft", "node") if r[w] == "ok"]
        if "panic" in (r["raft"], r["node"]):
            cnt["panics"] += 1
        if accepted:
            cnt["accepted"] += 1
        else:
            cnt["rejected"] += 1
            if c["exp"] in ("lease_window", "election_order", "lease_zero"):
                cnt["rejected_by_timing_only"] += 1
        if accepted and c["unsafe"]:
            vals = c34_concrete(points, c)
            first = c["unsafe"][0]
            cause = first
            if first == "lease-window":
                cause += ("-sum-overflows-u64" if vals["lease"] + vals["rtt"] // 2 > (1 << 64) - 1 else
                          "-not-below-election-min")
            viol.append({"p": "C34", "m": "ValidatedIsSafe", "cause": cause, "site": C34_SITE.get(first, ""),
                         "case": {f: c[f] for f in C34_FIELDS}, "concrete": vals, "failed_conjuncts": c["unsafe"],
                         "accepted_by": accepted, "id": c["id"]})
        # conformance of the as-implemented validation table (never an alarm)
        for w in ("raft", "node"):
            if r[w] != c["exp"]:
                div.append({"id": c["id"], "entry": w, "spec": c["exp"], "impl": r[w]})
    return viol, div, cnt


def c34_run(wd, points, cases):
    cp = os.path.join(wd, "cases.ndjson")
    with open(cp, "w") as f:
        f.write(json.dumps({"points": points}) + "\n")
        for c in cases:
            f.write(json.dumps({k: c[k] for k in C34_FIELDS + ["id"]}) + "\n")
    scratch = os.path.join(wd, "scratch")
    return _run_bin("config", cp, os.path.join(wd, "results.ndjson"), scratch)


def check_c34(tier):
    t0 = time.time()
    T = C34_TIER[tier]
    wd = dv.workdir("funcs-C34")
    _build()
    st, points, cases = c34_enumerate(wd, T["timing"], T["limit"], T["workers"])
    results, hsecs = c34_run(wd, points, cases)
    viol, div, cnt = c34_judge(points, cases, results)
    if cnt["accepted"] == 0 or cnt["rejected_by_timing_only"] == 0:
        raise dv.ToolError("C34 vacuous: accepted=%d rejected-by-timing=%d" % (cnt["accepted"], cnt["rejected_by_timing_only"]))
    known_hits, new = dv.classify("C34", viol, known=_known())
    replay_paths = []
    seen = set()
    for v in new:
        if v["cause"] in seen:
            continue
        seen.add(v["cause"])
        replay_paths.append(dv.save_replay("C34", {"engine": "funcs", "property": "C34", "points": points,
                                                   "case": v["case"], "violation": v}))
    divsum = {}
    for d in div:
        k = "%s: spec=%s impl=%s" % (d["entry"], d["spec"], d["impl"])
        divsum[k] = divsum.get(k, 0) + 1
    acc = [c for c in cases if c["exp"] == "ok"]
    samples = [{"case": {f: c[f] for f in C34_FIELDS}, "concrete": c34_concrete(points, c), "spec_validate": c["exp"],
                "spec_unsafe": c["unsafe"]} for c in (acc[:1] + [c for c in cases if c["exp"] == "lease_window"][-2:])]
    cov = {
        "states": st["distinct"], "transitions": st["generated"],
        "traces_validated_against_impl": len(results),
        "samples": samples,
        "evaluations": len(results),
        "distinct_nontrivial": cnt["accepted"] + cnt["rejected_by_timing_only"],
        "rule": "one case = one configuration of the abstract domain of Config.tla (timing fields over %s, limits over %s, "
                "one scenario for other validated fields), all enumerated by TLC; every case runs the real "
                "RaftConfig::validate and RaftNodeConfig::validate; non-trivial = accepted by the real code (antecedent "
                "of the property true) or rejected only by a timing check (lease window / election order)"
                % (",".join(T["timing"]), ",".join(T["limit"])),
        "accepted_by_impl": cnt["accepted"], "rejected_by_impl": cnt["rejected"],
        "rejected_by_timing_checks": cnt["rejected_by_timing_only"], "panics": cnt["panics"],
        "points": {k: points[k][0] * (1 << 62) + points[k][1] for k in points},
        "tlc_secs": st["secs"], "harness_secs": round(hsecs, 1),
        "conformance_divergences": divsum,
        "known_findings_hit": sorted({"%s/%s/%s" % (k["property"], k["monitor"], k["cause"]) for k, _ in known_hits}),
        "exhaustive": True,
    }
    dv.write_evidence("C34", tier, "model_checking", cov,
                      ["abstract numeric points stand for u64 values; relations between values other than the points' are not explored",
                       "fields not mentioned by the property are default except for one invalid-value scenario at a time",
                       "configurations are built as Rust structs; TOML / environment parsing is not part of the check"],
                      time.time() - t0, len(new))
    rc = dv.finish("C34", known_hits, new, replay_paths)
    shutil.rmtree(wd, ignore_errors=True)
    return rc


def replay_c34(path):
    with open(path) as f:
        payload = json.load(f)
    wd = dv.workdir("funcs-replay-C34")
    _build()
    want = payload["case"]
    st, points, cases = c34_enumerate(wd, sorted({want[f] for f in C34_FIELDS[:4]}),
                                      sorted({want[f] for f in C34_FIELDS[4:8]}), 2)
    cases = [c for c in cases if all(c[f] == want[f] for f in C34_FIELDS)]
    results, _ = c34_run(wd, points, cases)
    viol, div, cnt = c34_judge(points, cases, results)
    for v in viol:
        print("reproduced:", json.dumps(v))
    known_hits, new = dv.classify("C34", viol, known=_known())
    shutil.rmtree(wd, ignore_errors=True)
    return dv.finish("C34", known_hits, new, [path] if new else [])


# =============================================================================================
# C37 / C35  ClientCodec.tla
# =============================================================================================
CC_TIER = {
    "quick": dict(wkeys=["bEmpty", "bA", "bFF"], wvals=["bEmpty", "bB"], maxlen=3, sms=["file"]),
    "thorough": dict(wkeys=["bEmpty", "bA", "bFF", "bLong"], wvals=["bEmpty", "bB", "bLong"], maxlen=4,
                     sms=["file", "rocksdb"]),
}
CC_RKEYS = ["k1", "k2", "k3"]


def cc_enumerate(wd, part, T):
    cfg = os.path.join(wd, "ClientCodec-%s.cfg" % part)
    dv.write_cfg(cfg, constants={"WKeys": dv.tla_set(T["wkeys"]), "WVals": dv.tla_set(T["wvals"]),
                                 "Ttls": dv.tla_set(["t0", "t1", "tmax"]), "Paths": dv.tla_set(["embedded", "grpc"]),
                                 "RKeys": dv.tla_set(CC_RKEYS), "MaxLen": T["maxlen"], "Part": json.dumps(part)},
                 invariants=["CodecIdentity", "RealignCorrect", "Emit"])
    st, lines = _tlc_cases("ClientCodec", cfg, wd, 4, 900)
    table = {"bytes": {}, "ttl": {}}
    cases = []
    for ln in lines:
        t = ln.split(" ")
        if t[0] == "BYTES":
            table["bytes"][t[1]] = t[2].rstrip(".")
        elif t[0] == "TTL":
            table["ttl"][t[1]] = t[2]
        elif t[0] == "CASE":
            cases.append(t[1:])
    if len(cases) != st["distinct"]:
        raise dv.ToolError("ClientCodec.tla: %d CASE lines for %d states" % (len(cases), st["distinct"]))
    return st, table, sorted(cases)


# ---------------------------------------------------------------------------------------------
# C37
# ---------------------------------------------------------------------------------------------
def c37_cases(table, raw):
    B, TT = table["bytes"], table["ttl"]

    def b(x):
        return None if x in ("none", "absent") else B[x]
    out = []
    for i, t in enumerate(raw):
        path, kind, key, value, expected, ttl = t[0:6]
        assert t[6] == "=>"
        ecmd, ekey, evalue, eexp, ettl = t[7:12]
        out.append({"id": i + 1, "path": path, "kind": kind, "key": B[key], "value": b(value),
                    "expected": b(expected), "ttl": None if ttl == "none" else TT[ttl],
                    "abstract": {"path": path, "kind": kind, "key": key, "value": value, "expected": expected, "ttl": ttl},
                    "exp": {"cmd": ecmd, "key": B[ekey], "value": b(evalue), "expected": b(eexp),
                            "ttl": None if ettl == "none" else TT[ettl]}})
    return out


def c37_boundary(c):
    a = c["abstract"]
    return (a["key"] in ("bEmpty", "bFF", "bLong") or a["value"] == "bEmpty" or a["ttl"] in ("t0", "tmax")
            or (a["kind"] == "cas" and a["expected"] in ("absent", "bEmpty")))


def c37_judge(cases, results):
    byid = {r["id"]: r for r in results}
    viol = []
    cnt = {"applied_as_submitted": 0, "rejected": 0}
    for c in cases:
        r = byid.get(c["id"])
        if r is None:
            raise dv.ToolError("dv-funcs codec: no result for case %d" % c["id"])
        app, exp = r["applied"], c["exp"]
        ok = r["result"].startswith("ok")
        if not app and not ok:
            cnt["rejected"] += 1          # refused with an error and nothing reached the state machine
            continue
        cause = None
        if not app:
            cause = "acknowledged-but-not-applied"
        elif len(app) > 1:
            cause = "applied-more-than-once"
        else:
            g = app[0]
            if g["cmd"] != exp["cmd"]:
                cause = "operation-kind-changed"
            elif g["key"] != exp["key"]:
                cause = "key-changed"
            elif g["value"] != exp["value"]:
                cause = "value-changed"
            elif g["expected"] != exp["expected"]:
                cause = ("cas-expectation-" + ("present-empty-became-absent" if exp["expected"] == "" and g["expected"] is None
                                               else "absent-became-present" if exp["expected"] is None else "changed"))
            elif g["ttl"] != exp["ttl"]:
                cause = "ttl-" + ("dropped" if g["ttl"] is None else "invented" if exp["ttl"] is None else "changed")
        if cause is None:
            cnt["applied_as_submitted"] += 1
        else:
            viol.append({"p": "C37", "m": "CodecIdentity", "cause": cause, "site": c["path"] + " write path",
                         "case": c["abstract"], "submitted": {k: c[k] for k in ("path", "kind", "key", "value", "expected", "ttl")},
                         "expected_command": exp, "applied": app, "client_result": r["result"][:200], "id": c["id"]})
    return viol, cnt


def c37_run(wd, cases):
    cp = os.path.join(wd, "codec-cases.ndjson")
    with open(cp, "w") as f:
        for c in cases:
            f.write(json.dumps({k: c[k] for k in ("id", "path", "kind", "key", "value", "expected", "ttl")}) + "\n")
    return _run_bin("codec", cp, os.path.join(wd, "codec-results.ndjson"), os.path.join(wd, "scratch"))


def check_c37(tier):
    t0 = time.time()
    T = CC_TIER[tier]
    wd = dv.workdir("funcs-C37")
    _build()
    st, table, raw = cc_enumerate(wd, "writes", T)
    cases = c37_cases(table, raw)
    results, hsecs = c37_run(wd, cases)
    viol, cnt = c37_judge(cases, results)
    if cnt["applied_as_submitted"] + len(viol) < len(cases) // 2:
        raise dv.ToolError("C37: only %d of %d submitted operations reached the state machine (%d rejected)"
                           % (cnt["applied_as_submitted"] + len(viol), len(cases), cnt["rejected"]))
    known_hits, new = dv.classify("C37", viol, known=_known())
    replay_paths, seen = [], set()
    for v in new:
        if v["cause"] in seen:
            continue
        seen.add(v["cause"])
        replay_paths.append(dv.save_replay("C37", {"engine": "funcs", "property": "C37", "case": v["case"], "violation": v}))
    executed = [c for c in cases]
    cov = {
        "states": st["distinct"], "transitions": st["generated"], "traces_validated_against_impl": len(results),
        "samples": [{"submitted": c["abstract"], "concrete": {k: c[k] for k in ("key", "value", "expected", "ttl")},
                     "command_expected_at_apply": c["exp"]} for c in executed if c["abstract"]["ttl"] == "t0" or
                    c["abstract"]["expected"] == "bEmpty"][:3],
        "evaluations": len(results), "distinct_nontrivial": sum(1 for c in executed if c37_boundary(c)),
        "rule": "one case = (API path, operation) of ClientCodec.tla part 'writes': put / put-with-TTL / delete / CAS over key "
                "classes %s, value classes %s, CAS expectation absent/each value class, TTL 0/1/u64::MAX, on the embedded client "
                "and the GrpcClient; each case is submitted to a real single-node engine and the Command recorded at "
                "StateMachine::apply_chunk is compared with the spec's Meaning(op); non-trivial = a boundary class is involved "
                "(empty/0xFF/long key, empty value, TTL 0 or u64::MAX, absent or empty CAS expectation)"
                % (",".join(T["wkeys"]), ",".join(T["wvals"])),
        "applied_as_submitted": cnt["applied_as_submitted"], "rejected_by_api": cnt["rejected"],
        "byte_classes": table["bytes"], "tlc_secs": st["secs"], "harness_secs": round(hsecs, 1),
        "known_findings_hit": sorted({"%s/%s/%s" % (k["property"], k["monitor"], k["cause"]) for k, _ in known_hits}),
        "exhaustive": True,
    }
    dv.write_evidence("C37", tier, "model_checking", cov,
                      ["byte strings are represented by the listed boundary classes; byte-level fidelity of prost beyond them is not modelled",
                       "a submitted TTL of 0 means 'no expiration' (documented wire convention in client.proto), so put_with_ttl(..,0) is "
                       "expected to arrive as an insert without expiry",
                       "the state machine is the recording in-memory MemSm behind the real EmbeddedEngine/NodeBuilder wiring; "
                       "what the File/RocksDB state machines do with the command is C22/C23"],
                      time.time() - t0, len(new))
    rc = dv.finish("C37", known_hits, new, replay_paths)
    shutil.rmtree(wd, ignore_errors=True)
    return rc


def replay_c37(path):
    with open(path) as f:
        payload = json.load(f)
    wd = dv.workdir("funcs-replay-C37")
    _build()
    st, table, raw = cc_enumerate(wd, "writes", CC_TIER["thorough"])
    want = payload["case"]
    cases = [c for c in c37_cases(table, raw) if c["abstract"] == want]
    results, _ = c37_run(wd, cases)
    viol, cnt = c37_judge(cases, results)
    for v in viol:
        print("reproduced:", json.dumps(v))
    known_hits, new = dv.classify("C37", viol, known=_known())
    shutil.rmtree(wd, ignore_errors=True)
    return dv.finish("C37", known_hits, new, [path] if new else [])


# ---------------------------------------------------------------------------------------------
# C35
# ---------------------------------------------------------------------------------------------
C35_READS = ["embedded/default", "embedded/lin", "embedded/lease", "embedded/eventual",
             "grpc/default", "grpc/lin", "grpc/lease", "grpc/eventual"]


def c35_cases(table, raw):
    B = table["bytes"]

    def val(k, cls):
        return None if cls == "absent" else "" if cls == "empty" else "763a" + B[k]     # "v:" + key
    out = []
    for i, t in enumerate(raw):
        stt = dict(x.split("=") for x in t[0].split(","))
        keys = [] if t[1] == "-" else t[1].split(",")
        assert t[2] == "=>"
        exp = [] if t[3] == "-" else t[3].split(",")
        if len(exp) != len(keys):
            raise dv.ToolError("ClientCodec.tla: result length differs from key list")
        out.append({"id": i + 1, "abstract": {"state": stt, "keys": keys},
                    "state": {B[k]: val(k, c) for k, c in stt.items()}, "keys": [B[k] for k in keys],
                    "exp": [val(k, c) for k, c in zip(keys, exp)]})
    return out


def c35_nontrivial(c):
    a = c["abstract"]
    ks = a["keys"]
    return len(ks) >= 2 and (len(set(ks)) < len(ks) or any(a["state"][k] != "val" for k in ks))


def c35_judge(cases, results, sm):
    byid = {r["id"]: r for r in results}
    viol = []
    cnt = {"reads": 0, "aligned": 0, "errors": 0, "empty_list_refused": 0}
    for c in cases:
        r = byid.get(c["id"])
        if r is None:
            raise dv.ToolError("dv-funcs mget: no result for case %d" % c["id"])
        for name in C35_READS:
            got = r["reads"][name]
            cnt["reads"] += 1
            if isinstance(got, dict):
                if not c["keys"]:
                    cnt["empty_list_refused"] += 1
                else:
                    cnt["errors"] += 1
                continue
            exp = c["exp"]
            if got == exp:
                cnt["aligned"] += 1
                continue
            if len(got) != len(exp):
                cause = "result-count-differs-from-key-count"
            else:
                i = [j for j in range(len(exp)) if got[j] != exp[j]][0]
                dup = c["keys"].count(c["keys"][i]) > 1
                if exp[i] == "" and got[i] is None:
                    cause = "empty-value-reported-absent"
                elif exp[i] is None:
                    cause = "absent-key-reported-present"
                elif got[i] is None:
                    cause = "present-key-reported-absent"
                else:
                    cause = "value-of-another-position"
                if dup:
                    cause += "-duplicate-key"
            viol.append({"p": "C35", "m": "ResultAligned", "cause": cause, "site": name + " (" + sm + " state machine)",
                         "case": c["abstract"], "keys": c["keys"], "state": c["state"], "expected": exp, "got": got,
                         "read": name, "sm": sm, "id": c["id"]})
    return viol, cnt


def c35_run(wd, cases, sm):
    cp = os.path.join(wd, "mget-cases.ndjson")
    with open(cp, "w") as f:
        for c in cases:
            f.write(json.dumps({k: c[k] for k in ("id", "state", "keys")}) + "\n")
    return _run_bin("mget", cp, os.path.join(wd, "mget-results-%s.ndjson" % sm), os.path.join(wd, "scratch"),
                    extra=["--sm", sm])


def check_c35(tier):
    t0 = time.time()
    T = CC_TIER[tier]
    wd = dv.workdir("funcs-C35")
    _build()
    st, table, raw = cc_enumerate(wd, "reads", T)
    cases = c35_cases(table, raw)
    cases.sort(key=lambda c: (sorted(c["abstract"]["state"].items()), c["abstract"]["keys"]))
    viol, total = [], {"reads": 0, "aligned": 0, "errors": 0, "empty_list_refused": 0}
    hsecs = 0
    for sm in T["sms"]:
        results, dt = c35_run(wd, cases, sm)
        hsecs += dt
        v, cnt = c35_judge(cases, results, sm)
        viol += v
        for k in total:
            total[k] += cnt[k]
    if total["errors"] > total["reads"] // 50:
        raise dv.ToolError("C35: %d of %d reads failed with an error; cannot judge" % (total["errors"], total["reads"]))
    known_hits, new = dv.classify("C35", viol, known=_known())
    replay_paths, seen = [], set()
    for v in new:
        if (v["cause"], v["read"]) in seen:
            continue
        seen.add((v["cause"], v["read"]))
        replay_paths.append(dv.save_replay("C35", {"engine": "funcs", "property": "C35", "case": v["case"], "sm": v["sm"],
                                                   "violation": v}))
        if len(replay_paths) >= 5:
            break
    nt = [c for c in cases if c35_nontrivial(c)]
    cov = {
        "states": st["distinct"], "transitions": st["generated"],
        "traces_validated_against_impl": total["reads"],
        "samples": [{"state": c["abstract"]["state"], "keys": c["abstract"]["keys"], "expected": c["exp"]} for c in nt[len(nt) // 2:][:3]],
        "evaluations": total["reads"], "distinct_nontrivial": len(nt),
        "rule": "one case = (state, key list) of ClientCodec.tla part 'reads': every assignment absent/empty/value of %d keys x every "
                "key list of length <= %d; each case is read through %d API variants (embedded client: default, linearizable, lease, "
                "eventual; GrpcClient over loopback: server default, linearizable, lease, eventual) on a real single-node engine with "
                "the %s state machine(s); non-trivial = at least two keys and a duplicate, a missing key or an empty value"
                % (len(CC_RKEYS), T["maxlen"], len(C35_READS), "/".join(T["sms"])),
        "cases": len(cases), "reads_aligned": total["aligned"], "read_errors": total["errors"],
        "empty_key_list_refused_with_error": total["empty_list_refused"],
        "tlc_secs": st["secs"], "harness_secs": round(hsecs, 1),
        "known_findings_hit": sorted({"%s/%s/%s" % (k["property"], k["monitor"], k["cause"]) for k, _ in known_hits}),
        "exhaustive": True,
    }
    dv.write_evidence("C35", tier, "model_checking", cov,
                      ["single-node cluster: the node is leader, so every policy is served; routing on non-leaders is C13",
                       "an error answer (e.g. GrpcClient refuses an empty key list with InvalidRequest) is not a misaligned result",
                       "3 keys, values distinct per key"],
                      time.time() - t0, len(new))
    rc = dv.finish("C35", known_hits, new, replay_paths)
    shutil.rmtree(wd, ignore_errors=True)
    return rc


def replay_c35(path):
    with open(path) as f:
        payload = json.load(f)
    wd = dv.workdir("funcs-replay-C35")
    _build()
    st, table, raw = cc_enumerate(wd, "reads", CC_TIER["thorough"])
    cases = [c for c in c35_cases(table, raw) if c["abstract"] == payload["case"]]
    results, _ = c35_run(wd, cases, payload.get("sm", "file"))
    viol, cnt = c35_judge(cases, results, payload.get("sm", "file"))
    for v in viol:
        print("reproduced:", json.dumps(v))
    known_hits, new = dv.classify("C35", viol, known=_known())
    shutil.rmtree(wd, ignore_errors=True)
    return dv.finish("C35", known_hits, new, [path] if new else [])


# =============================================================================================
# C36  MergeAE.tla
# =============================================================================================
C36_FOLLOWER_DEV = ["HardStateSavedOnlyOnDrop", "Prev0ResetsFollowerLog", "GappedAppendRequest", "VoteResetOnAnyStepDown",
                    "EmptyAEAckReportsWholeLog", "FollowerCommitUsesWholeLog"]
C36_TIER = {
    # scope -> how many of the enumerated cases are executed (None = all; else a seeded sample of that size)
    "quick": dict(scopes=[("pairs-small", 6000), ("triples", 3000)], workers=8),
    "thorough": dict(scopes=[("pairs", None), ("triples-full", 60000)], workers=12),
}


def _c36_cfg(wd, scope, dev, invariants, tag):
    cfg = os.path.join(wd, "MergeAE-%s-%s.cfg" % (scope, tag))
    lines = ["SPECIFICATION Spec", "CONSTANTS", "  Dev = " + dv.tla_set(dev), "  Scope = " + json.dumps(scope), "  FTerm = 2"]
    for k in ("FLogs", "FCommits", "MaxMerges", "LTerms", "Terms", "Prevs", "Shapes", "MinQ", "MaxQ", "Lcs"):
        lines.append("  %s <- mc_%s" % (k, k))
    lines += ["CHECK_DEADLOCK FALSE"] + ["INVARIANT " + i for i in invariants]
    with open(cfg, "w") as f:
        f.write("\n".join(lines) + "\n")
    return cfg


def c36_enumerate(wd, scope, workers):
    """Two TLC runs over the same case space (in parallel): (a) repaired design (Dev = {}, repaired merge step) must satisfy
    the property on every case; (b) as-implemented follower + merge step: enumerator and oracle (CASE lines)."""
    import threading
    box = {}

    def design():
        try:
            d = os.path.join(wd, "design-" + scope)
            os.makedirs(d, exist_ok=True)
            box["design"] = _tlc_cases("MC_merge", _c36_cfg(wd, scope, [], ["RepairedMergeTransparent"], "design"), d,
                                       max(2, workers // 2), 2400)[0]
        except Exception as e:      # noqa: BLE001
            box["err"] = e
    th = threading.Thread(target=design)
    th.start()
    try:
        di = os.path.join(wd, "impl-" + scope)
        os.makedirs(di, exist_ok=True)
        st, raw = _tlc_cases("MC_merge", _c36_cfg(wd, scope, C36_FOLLOWER_DEV, ["Emit"], "impl"), di, workers, 2400)
    finally:
        th.join()
    if "err" in box:
        raise box["err"]
    if box["design"]["distinct"] != st["distinct"]:
        raise dv.ToolError("MergeAE.tla: design run and enumeration run differ in size")
    st["design_secs"] = box["design"]["secs"]
    cases = []
    for ln in sorted(raw):
        t = ln.split(" ")
        if t[0] != "CASE":
            continue
        if not (t[6] == "S" and t[10] == "M" and t[14] == "G" and t[16] == "A"):
            raise dv.ToolError("MergeAE.tla: unexpected CASE line: " + ln)
        reqs = []
        for r in t[5].split(";"):
            a = r.split("/")
            reqs.append({"t": int(a[0]), "prev": int(a[1]), "pt": int(a[2]), "lc": int(a[3]), "ents": a[4]})
        cases.append({"flog": t[1], "fcommit": int(t[2]), "fterm": int(t[3]), "mm": int(t[4]), "q": reqs,
                      "expS": {"log": t[7], "commit": int(t[8]), "acks": t[9].split(";")},
                      "expM": {"log": t[11], "commit": int(t[12]), "acks": t[13].split(";")},
                      "groups": [int(x) for x in t[15].split(",")], "attr": [] if t[17] == "-" else t[17].split(","),
                      "scope": scope})
    return st, cases


C36_ATTR_CLASS = {
    "MergeOneAckForAll": "one-response-for-all-merged-senders",
    "MergeIgnoresCommitOrder": "max-leader-commit-of-out-of-order-queue",
    "MergeWithoutLegalityCheck": "merged-before-first-request-is-checked",
    "MergeKeyedOnCount": "merge-keyed-on-entry-count",
}
C36_SITE = "d-engine-core/src/raft.rs Raft::merge_append_entries / role_state.rs handle_append_entries_request_workflow"


def _c36_out(x):
    return (x["log"], x["commit"], list(x["acks"]))


def c36_severity(M, S, case=None):
    """What differs between the merged and the one-at-a-time run (worst first)."""
    if M["log"] != S["log"] or M["commit"] != S["commit"]:
        return "log-or-commit-differs"
    if len(M["acks"]) != len(S["acks"]) or any(a.split(".")[0] != b.split(".")[0] for a, b in zip(M["acks"], S["acks"])):
        return "ack-kind-differs"
    def last(log):
        return max([0] + ([] if log == "-" else [int(x.split(":")[0]) for x in log.split(",")]))
    hi = max([last(M["log"])] + ([last(case["flog"])] + [last(r["ents"]) for r in case["q"]] if case else []))
    for a, b in zip(M["acks"], S["acks"]):
        if a != b and a.startswith("ok.") and int(a.split(".")[1]) > hi:
            return "ack-match-beyond-follower-log"
    return "ack-values-differ"


def c36_cause(case, M, S):
    """Cause class of a difference between the two REAL runs. The difference is attributed to named deviations of the
    merge step only if both real runs behave exactly as MergeAE.tla / DECore.tla (as implemented) predict for this case;
    the attribution (which single deviation's repair restores the one-at-a-time outcome) is then the spec's. Any
    difference the as-implemented spec does not predict exactly is 'unmodelled' and can never be a listed finding."""
    if _c36_out(M) == _c36_out(S):
        return None
    if _c36_out(M) != _c36_out(case["expM"]) or _c36_out(S) != _c36_out(case["expS"]):
        return "unmodelled-difference"
    attr = case.get("attr") or []
    return C36_ATTR_CLASS[attr[0]] if attr else "several-deviations-combined"


def c36_judge(cases, results):
    byid = {r["id"]: r for r in results}
    viol = []
    cnt = {"same_outcome": 0, "merged_groups": 0, "div_S": 0, "div_M": 0}
    for c in cases:
        r = byid.get(c["id"])
        if r is None:
            raise dv.ToolError("dv-funcs merge: no result for case %d" % c["id"])
        M, S = r["M"], r["S"]
        if _c36_out(S) != _c36_out(c["expS"]):
            cnt["div_S"] += 1
        if _c36_out(M) != _c36_out(c["expM"]):
            cnt["div_M"] += 1
        if any(g > 1 for g in c["groups"]):
            cnt["merged_groups"] += 1
        cause = c36_cause(c, M, S)
        if cause is None:
            cnt["same_outcome"] += 1
        else:
            viol.append({"p": "C36", "m": "MergeTransparent", "cause": cause, "site": C36_SITE,
                         "severity": c36_severity(M, S, c),
                         "case": {k: c[k] for k in ("flog", "fcommit", "fterm", "mm", "q", "expS", "expM", "attr", "groups")},
                         "merged": M, "one_at_a_time": S, "id": c["id"]})
    return viol, cnt


def c36_run(wd, cases, tag):
    cp = os.path.join(wd, "merge-cases-%s.ndjson" % tag)
    with open(cp, "w") as f:
        for c in cases:
            f.write(json.dumps({k: c[k] for k in ("id", "flog", "fcommit", "fterm", "mm", "q")}) + "\n")
    return _run_bin("merge", cp, os.path.join(wd, "merge-results-%s.ndjson" % tag), os.path.join(wd, "scratch"))


def check_c36(tier):
    import random
    t0 = time.time()
    T = C36_TIER[tier]
    wd = dv.workdir("funcs-C36")
    _build()
    states = transitions = 0
    allcases, mc = [], []
    import threading
    enum = {}

    def _enum(scope):
        try:
            enum[scope] = c36_enumerate(wd, scope, max(2, T["workers"] // len(T["scopes"])))
        except Exception as e:      # noqa: BLE001
            enum[scope] = e
    ths = [threading.Thread(target=_enum, args=(sc,)) for sc, _ in T["scopes"]]
    for th in ths:
        th.start()
    for th in ths:
        th.join()
    for scope, sample in T["scopes"]:
        if isinstance(enum[scope], Exception):
            raise enum[scope]
        st, cases = enum[scope]
        states += st["distinct"]
        transitions += st["generated"]
        enumerated = len(cases)
        if sample is not None and len(cases) > sample:
            rnd = random.Random(dv.seed() * 7919 + len(cases))
            cases = rnd.sample(cases, sample)
        mc.append({"scope": scope, "cases_enumerated": enumerated, "cases_executed": len(cases), "secs": st["secs"],
                   "repaired_merge_transparent": True})
        allcases += cases
    for i, c in enumerate(allcases):
        c["id"] = i + 1
    results, hsecs = c36_run(wd, allcases, "all")
    viol, cnt = c36_judge(allcases, results)
    if cnt["merged_groups"] < 10:
        raise dv.ToolError("C36 vacuous: only %d executed cases merge anything" % cnt["merged_groups"])
    known_hits, new = dv.classify("C36", viol, known=_known())
    replay_paths, seen = [], set()
    for v in sorted(new, key=lambda v: (len(v["case"]["q"]), v["id"])):
        if v["cause"] in seen:
            continue
        seen.add(v["cause"])
        replay_paths.append(dv.save_replay("C36", {"engine": "funcs", "property": "C36", "case": v["case"], "violation": v}))
    bycause = {}
    for v in viol:
        k = v["cause"] + " / " + v["severity"]
        bycause[k] = bycause.get(k, 0) + 1
    merged = [c for c in allcases if any(g > 1 for g in c["groups"])]
    cov = {
        "states": states, "transitions": transitions, "traces_validated_against_impl": 2 * len(results),
        "samples": [{"follower_log": c["flog"], "commit": c["fcommit"], "max_merge_entries": c["mm"], "queue": c["q"],
                     "spec_one_at_a_time": c["expS"], "spec_merged": c["expM"]} for c in merged[len(merged) // 3:][:2]],
        "evaluations": len(results), "distinct_nontrivial": cnt["merged_groups"],
        "rule": "one case = (follower log/commit, max_merge_entries, queue) enumerated by TLC from MergeAE.tla; requests = heartbeat / "
                "1 / 2 / gapped-2 entries of one leader log, each following its predecessor contiguously, overlapping, repeated or "
                "with a gap, terms 2-3, leader commit constant / rising / falling; every executed case prepares two real followers, "
                "feeds the queue in one verif_inbound call (real merge) vs one call per request, and compares log, commit, "
                "responses; non-trivial = the merge step joins at least two requests of the queue",
        "model_checking": mc, "cases_with_identical_outcome": cnt["same_outcome"],
        "differences_by_cause": bycause,
        "conformance_divergences": {k: v for k, v in (("one_at_a_time_vs_DECore", cnt["div_S"]), ("merged_vs_MergeAE", cnt["div_M"])) if v},
        "tlc_secs": sum(m["secs"] for m in mc), "harness_secs": round(hsecs, 1),
        "known_findings_hit": sorted({"%s/%s/%s" % (k["property"], k["monitor"], k["cause"]) for k, _ in known_hits}),
        "exhaustive": all(m["cases_enumerated"] == m["cases_executed"] for m in mc),
    }
    level = "model_checking"
    cov["differences_predicted_by_spec"] = sum(1 for c in allcases if _c36_out(c["expM"]) != _c36_out(c["expS"]))
    dv.write_evidence("C36", tier, level, cov,
                      ["the follower operator is DECore's (as implemented); the repaired merge step of MergeAE.tla satisfies the property "
                       "on every enumerated case (checked by TLC in the same run)",
                       "the acknowledgement is compared strictly (kind, match / conflict hint, response term)",
                       "entries carry no-op payloads; one leader id; in-memory log store behind the real BufferedRaftLog"],
                      time.time() - t0, len(new))
    rc = dv.finish("C36", known_hits, new, replay_paths)
    shutil.rmtree(wd, ignore_errors=True)
    return rc


def replay_c36(path):
    with open(path) as f:
        payload = json.load(f)
    wd = dv.workdir("funcs-replay-C36")
    _build()
    c = dict(payload["case"])
    c["id"] = 1
    results, _ = c36_run(wd, [c], "replay")
    viol, cnt = c36_judge([c], results)
    for v in viol:
        print("reproduced:", json.dumps(v))
    known_hits, new = dv.classify("C36", viol, known=_known())
    shutil.rmtree(wd, ignore_errors=True)
    return dv.finish("C36", known_hits, new, [path] if new else [])


# =============================================================================================
# C13  ReadRoute.tla
# =============================================================================================
C13_SITE = {"grpc": "d-engine-server/src/network/grpc/grpc_raft_service.rs handle_client_read (fast path) -> StandaloneReadHandle / read_actor.rs",
            "embedded": "d-engine-server/src/api/embedded_read_handle.rs EmbeddedReadHandle::get_batch",
            "raft": "d-engine-core/src/raft_role/role_state.rs push_client_cmd / leader_state.rs determine_read_policy"}


def c13_enumerate(wd):
    cfg_d = os.path.join(wd, "ReadRoute-design.cfg")
    dv.write_cfg(cfg_d, constants={"Dev": "{}"}, invariants=["NonLeaderNeverServesStrongReads", "OverrideFlagEnforced"])
    std, _ = _tlc_cases("ReadRoute", cfg_d, wd, 2, 600)
    cfg_i = os.path.join(wd, "ReadRoute-impl.cfg")
    dv.write_cfg(cfg_i, constants={"Dev": dv.tla_set(["FastPathIgnoresOverrideFlag"])}, invariants=["Emit"])
    st, lines = _tlc_cases("ReadRoute", cfg_i, wd, 2, 600)
    cases = []
    for i, ln in enumerate(sorted(lines)):
        t = ln.split(" ")
        if not (t[0] == "CASE" and t[8] == "D" and t[11] == "I"):
            raise dv.ToolError("ReadRoute.tla: unexpected line " + ln)
        cases.append({"id": i + 1, "path": t[1], "role": t[2], "dflt": t[3], "allow": t[4] == "allow", "req": t[5],
                      "lease": t[6], "quorum": t[7], "design": {"eff": t[9], "out": t[10]},
                      "impl": {"eff": t[12], "out": t[13]}, "broken": [] if t[14] == "-" else t[14].split(",")})
    if len(cases) != st["distinct"] or std["distinct"] != st["distinct"]:
        raise dv.ToolError("ReadRoute.tla: %d CASE lines for %d / %d states" % (len(cases), st["distinct"], std["distinct"]))
    st["secs"] += std["secs"]
    return st, cases


def c13_judge(cases, results):
    """A violation is an executed case in which the real node ANSWERED FROM ITS LOCAL STATE although the property
    requires something else: (1) non-leader, effective policy linearizable/lease; (2) overrides disallowed and the
    server default would not have served (NotLeader on a non-leader, or a quorum round that cannot complete on the
    leader).  Only the 'served although it must not be' direction is judged on the real-time server paths; on the
    deterministic Raft-command path every difference from the design outcome under a disallowed override counts."""
    byid = {r["id"]: r for r in results}
    viol, div = [], []
    cnt = {"driven": 0, "not_driven": 0, "setup_failed": 0, "as_design": 0}
    for c in cases:
        r = byid.get(c["id"])
        if r is None:
            raise dv.ToolError("dv-funcs route: no result for case %d" % c["id"])
        o = r["outcome"]
        if o == "not-driven":
            cnt["not_driven"] += 1
            continue
        if o in ("setup-failed", "role-changed", "error"):
            cnt["setup_failed"] += 1
            continue
        cnt["driven"] += 1
        eff = c["design"]["eff"]
        want = c["design"]["out"]
        broken = []
        if not c["allow"] and o != want and (o == "served" or c["path"] == "raft"):
            broken.append("override-flag-ignored")
        elif c["role"] != "L" and eff in ("lin", "lease") and o == "served":
            # (with a disallowed override the same observation is reported once, under the override monitor)
            broken.append("non-leader-serves-strong-read")
        if o == want:
            cnt["as_design"] += 1
        if o != c["impl"]["out"]:
            div.append({"id": c["id"], "case": {k: c[k] for k in ("path", "role", "dflt", "allow", "req", "lease", "quorum")},
                        "spec_as_implemented": c["impl"]["out"], "observed": o})
        for b in broken:
            if b == "non-leader-serves-strong-read":
                cause = "non-leader-serves-%s-read-requested-as-%s" % (eff, c["req"])
            else:
                cause = "client-%s-request-served-although-override-disabled" % c["req"]
            viol.append({"p": "C13", "m": "NonLeaderNeverServesStrongReads" if b.startswith("non-leader") else "OverrideFlagEnforced",
                         "cause": cause + "/" + c["path"], "site": C13_SITE[c["path"]],
                         "case": {k: c[k] for k in ("path", "role", "dflt", "allow", "req", "lease", "quorum")},
                         "required": c["design"], "observed": o, "detail": r.get("detail", "")[:200], "id": c["id"]})
    return viol, div, cnt


def c13_run(wd, cases):
    cp = os.path.join(wd, "route-cases.ndjson")
    with open(cp, "w") as f:
        for c in cases:
            f.write(json.dumps({k: c[k] for k in ("id", "path", "role", "dflt", "allow", "req", "lease", "quorum")}) + "\n")
    return _run_bin("route", cp, os.path.join(wd, "route-results.ndjson"), os.path.join(wd, "scratch"), timeout=900)


def check_c13(tier):
    t0 = time.time()
    wd = dv.workdir("funcs-C13")
    _build()
    st, cases = c13_enumerate(wd)
    rounds = 1 if tier == "quick" else 3
    viol, div = [], []
    total = {"driven": 0, "not_driven": 0, "setup_failed": 0, "as_design": 0}
    hsecs = 0
    for _ in range(rounds):
        results, dt = c13_run(wd, cases)
        hsecs += dt
        v, d, cnt = c13_judge(cases, results)
        viol += v
        div += d
        for k in total:
            total[k] += cnt[k]
    if total["driven"] < rounds * len(cases) // 2:
        raise dv.ToolError("C13: only %d of %d cases could be driven (%d set-ups failed)"
                           % (total["driven"], rounds * len(cases), total["setup_failed"]))
    known_hits, new = dv.classify("C13", viol, known=_known())
    replay_paths, seen = [], set()
    for v in new:
        if (v["m"], v["cause"]) in seen:
            continue
        seen.add((v["m"], v["cause"]))
        replay_paths.append(dv.save_replay("C13", {"engine": "funcs", "property": "C13", "case": v["case"], "violation": v}))
    divsum = {}
    for d in div:
        k = "%s: spec=%s observed=%s" % (d["case"]["path"], d["spec_as_implemented"], d["observed"])
        divsum[k] = divsum.get(k, 0) + 1
    nontrivial = [c for c in cases if (not c["allow"] and c["req"] not in ("none", c["dflt"])) or
                  (c["role"] != "L" and c["design"]["eff"] != "ev")]
    cov = {
        "states": st["distinct"], "transitions": st["generated"], "traces_validated_against_impl": total["driven"],
        "samples": [{k: c[k] for k in ("path", "role", "dflt", "allow", "req", "lease", "quorum", "design", "impl")}
                    for c in nontrivial[::max(1, len(nontrivial) // 3)][:3]],
        "evaluations": total["driven"], "distinct_nontrivial": len(nontrivial),
        "rule": "one case = (path, role, server default, allow_client_override, requested policy, lease valid?, quorum reachable?) of "
                "ReadRoute.tla, all enumerated by TLC; path raft: ClientCmd::Read into real simulated nodes (leader, follower, "
                "candidate, learner; leader with fresh lease + reachable quorum / fresh lease + undelivered quorum traffic / expired "
                "lease); paths embedded and grpc: real 3-node loopback cluster per server configuration, leader and follower, quorum "
                "made unreachable by stopping both followers; observation = served / notleader / pending; non-trivial = the override "
                "flag or the non-leader rule decides the outcome (client policy differs from the default under a disallowed "
                "override, or a non-leader with a strong effective policy)",
        "cases": len(cases), "rounds": rounds, "cases_not_driven": total["not_driven"] // rounds,
        "setups_failed_or_role_changed": total["setup_failed"], "outcome_as_design": total["as_design"],
        "tlc_secs": st["secs"], "harness_secs": round(hsecs, 1),
        "conformance_divergences": divsum,
        "known_findings_hit": sorted({"%s/%s/%s" % (k["property"], k["monitor"], k["cause"]) for k, _ in known_hits}),
        "exhaustive": total["not_driven"] == 0,
    }
    dv.write_evidence("C13", tier, "model_checking", cov,
                      ["the policy actually used is observed through the outcome class only; on a leader linearizable and lease reads "
                       "have the same outcome (a valid lease also serves linearizable reads), so 'lease served instead of the "
                       "linearizable default' is not observable and not judged",
                       "candidate and learner roles are driven on the Raft command path only; the server paths use leader and follower",
                       "server paths run in real time on 127.0.0.1; only 'answered from local state although it must not be' is judged there"],
                      time.time() - t0, len(new))
    rc = dv.finish("C13", known_hits, new, replay_paths)
    shutil.rmtree(wd, ignore_errors=True)
    return rc


def replay_c13(path):
    with open(path) as f:
        payload = json.load(f)
    wd = dv.workdir("funcs-replay-C13")
    _build()
    st, cases = c13_enumerate(wd)
    want = payload["case"]
    # the whole server configuration of the case is re-run (the cluster is set up per configuration)
    cases = [c for c in cases if c["path"] == want["path"] and c["dflt"] == want["dflt"] and c["allow"] == want["allow"]]
    results, _ = c13_run(wd, cases)
    viol, div, cnt = c13_judge(cases, results)
    viol = [v for v in viol if v["case"] == want]
    for v in viol:
        print("reproduced:", json.dumps(v))
    known_hits, new = dv.classify("C13", viol, known=_known())
    shutil.rmtree(wd, ignore_errors=True)
    return dv.finish("C13", known_hits, new, [path] if new else [])


# =============================================================================================
# registry
# =============================================================================================
_CHECK = {"C34": check_c34, "C37": check_c37, "C35": check_c35, "C36": check_c36, "C13": check_c13}
_REPLAY = {"C34": replay_c34, "C37": replay_c37, "C35": replay_c35, "C36": replay_c36, "C13": replay_c13}

PROPS = {
    "C34": dict(spec="Config.tla", sub="config"),
    "C37": dict(spec="ClientCodec.tla", sub="codec"),
    "C35": dict(spec="ClientCodec.tla", sub="mget"),
    "C36": dict(spec="MergeAE.tla", sub="merge"),
    "C13": dict(spec="ReadRoute.tla", sub="route"),
}

MANIFEST_INFO = {
    "C34": dict(
        technique="TLA+/TLC exhaustive enumeration of Config.tla (validation table vs safety predicate over an abstract "
                  "u64 domain), every case executed against the real validate()",
        category="model_checking",
        text="accepted configurations are safe: TLC enumerates every configuration over abstract numeric points "
             "(0,1,2,3,2^63,u64::MAX-1,u64::MAX, exact overflow-aware arithmetic), checks that the validation table "
             "implies the safety predicate, and emits each case; dv-funcs maps the points to concrete u64, calls the real "
             "RaftConfig::validate and RaftNodeConfig::validate, and evaluates the predicate on the concrete numbers "
             "with u128 arithmetic; a configuration accepted by the real code with a false predicate is a violation.",
        note=_NOTE, ref="DESIGN.md section 3 (C34), design_parts/funcs.md"),
    "C37": dict(
        technique="TLA+/TLC exhaustive enumeration of ClientCodec.tla (client operation -> wire/log encoding -> apply command), "
                  "every case submitted through the real clients to a real single-node engine",
        category="model_checking",
        text="client writes are applied as submitted: TLC enumerates put / put-with-TTL / delete / CAS over boundary classes "
             "(empty, 0xFF and long keys, empty values, absent / empty / present CAS expectation, TTL 0, 1, u64::MAX) on the embedded "
             "and the gRPC path, checks Decode(Encode(op)) = Meaning(op) on the as-implemented pipeline and emits each case; dv-funcs "
             "submits it with the real EmbeddedClient / GrpcClient to a real single-node EmbeddedEngine (production NodeBuilder, Raft "
             "loop, gRPC service) and compares the Command the state machine receives at apply_chunk with the expected one.",
        note=_NOTE, ref="DESIGN.md section 3 (C37), design_parts/funcs.md"),
    "C35": dict(
        technique="TLA+/TLC exhaustive enumeration of ClientCodec.tla (multi-get reference result, sparse server result + client "
                  "realignment), every case read through the real clients from a real single-node engine",
        category="model_checking",
        text="multi-key reads are aligned: TLC enumerates every assignment absent / empty / value of 3 keys and every key list of "
             "length <= 3 (quick) / 4 (thorough) including duplicates and missing keys, checks that the sparse-result + realign-by-key "
             "pipeline equals result[k] = state[keys[k]], and emits each case; dv-funcs establishes the state with client writes on a "
             "real single-node engine (File, thorough also RocksDB state machine) and reads the list through the embedded client "
             "(default, linearizable, lease, eventual) and the GrpcClient over the loopback gRPC service (same four).",
        note=_NOTE, ref="DESIGN.md section 3 (C35), design_parts/funcs.md"),
    "C36": dict(
        technique="TLA+/TLC enumeration of MergeAE.tla (merge step + DECore follower operator: merged vs one-at-a-time), every "
                  "executed case run on two identically prepared real followers",
        category="model_checking",
        text="merging queued AppendEntries: TLC enumerates follower logs (<= 4 entries) x queues of <= 3 consecutive requests "
             "(heartbeat / 1 / 2 / gapped entries; contiguous, overlapping, repeated, gapped; terms 2-3; rising / falling leader "
             "commit; merge limit 2-3), checks that the repaired merge step is transparent, and emits the predicted outcome of both "
             "runs of the as-implemented step; dv-funcs feeds the queue to a real follower in one verif_inbound call (real "
             "merge_append_entries + workflow) and to a second one request per call, and compares log, commit index and every "
             "sender's response strictly; a difference is attributed to a named merge deviation only if both real runs match the "
             "spec's as-implemented prediction exactly.",
        note=_NOTE + "; quick executes a seeded sample of the enumerated cases", ref="DESIGN.md section 3 (C36), design_parts/funcs.md"),
    "C13": dict(
        technique="TLA+/TLC exhaustive enumeration of ReadRoute.tla (read routing decision table), every case executed on real nodes",
        category="model_checking",
        text="read policy routing: TLC enumerates (path, role, server default, allow_client_override, requested policy, lease valid, "
             "quorum reachable), checks both sentences of the property on the design table and emits design and as-implemented "
             "outcome; dv-funcs drives the Raft command path on real simulated nodes of all four roles and the embedded / gRPC read "
             "paths on a real 3-node loopback cluster (leader and follower; quorum made unreachable by stopping the followers) and "
             "observes served / notleader / pending.",
        note=_NOTE + "; the policy used is observed through the outcome class only", ref="DESIGN.md section 3 (C13), design_parts/funcs.md"),
}


def check(prop, tier):
    return _CHECK[prop](tier)


def replay(prop, path):
    return _REPLAY[prop](path)
