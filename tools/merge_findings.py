#!/usr/bin/env python3
"""Merge design_parts/<engine>.findings.json into known_findings.json (dedupe by signature)."""
import json, os, sys, glob
ROOT = os.path.dirname(os.path.dirname(os.path.abspath(__file__)))
k = json.load(open(os.path.join(ROOT, "known_findings.json")))
sig = lambda f: (f["property"], f["monitor"], f["cause"])
have = {sig(f): f for f in k["findings"]}
engines = sys.argv[1:]
for path in sorted(glob.glob(os.path.join(ROOT, "design_parts", "*.findings.json"))):
    eng = os.path.basename(path).split(".")[0]
    if engines and eng not in engines:
        continue
    for f in json.load(open(path)).get("findings", []):
        if sig(f) in have:
            have[sig(f)].update(f)
        else:
            k["findings"].append(f)
            have[sig(f)] = f
for f in k["findings"]:
    # the one-line form of the interface: a fixed entry suppresses nothing, a known entry is printed by its check
    if f.get("status") == "fixed":
        f["line"] = "fixed: property=%s %s %s" % (f["property"], f.get("commit", "?"), f["what"])
    else:
        f["line"] = "KNOWN-FINDING: property=%s %s" % (f["property"], f["what"])
json.dump(k, open(os.path.join(ROOT, "known_findings.json"), "w"), indent=1)
print(len(k["findings"]), "findings")
