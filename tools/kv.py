"""KV engine: KV.tla (model + behaviour generator, TLC) + dv-kv (real FileStateMachine / RocksDBStateMachine)
+ KVTrace.tla (trace judge, TLC).

For property P:
  1. TLC model-checks the focused configuration(s) of KV.tla for P with the repaired design (Dev = {}): the
     invariants of P must hold (otherwise the model is wrong: tool error).  The same configuration is then
     checked with the as-implemented deviations; which invariants TLC refutes there is recorded.
  2. TLC enumerates every maximal behaviour of the as-implemented model of the configuration (labels =
     harness steps, plus the model's predicted contents / applied index after each step).
  3. dv-kv replays the behaviours (all of them, or a seeded stratified sample in the quick tier) into the real
     state machines of both engines and records get / get_multi / scan_prefix / last_applied / len after
     every step (crash = copy of the data directory taken at a step boundary or at a cfg-guarded point inside
     the step, reopened by a fresh instance).
  4. TLC evaluates KVTrace.tla on the recorded trace: property monitors over the reference semantics of
     KVCore.tla (layer 1) and conformance with the model's prediction (layer 2).
  5. Layer-1 failures of P are matched against the known findings; anything else is a VIOLATION.
"""
import concurrent.futures
import json
import os
import random
import re
import shutil
import time

import dv

ENGINE = {"name": "kv",
          "kind": "KV.tla + KVCore.tla (TLC: model checking and exhaustive behaviour generation), dv-kv replay harness over "
                  "the real FileStateMachine / RocksDBStateMachine, KVTrace.tla trace judge"}

AS_IMPL = {
    "file": ["WalReplayIgnoresIndex", "WalReplaySkipsEmptyValues", "WalClearedAfterReplayWithoutCheckpoint",
             "AppliedUpdatedAfterData", "SnapshotLabelBehindContent", "PlainPutKeepsTtl", "CasKeepsTtl",
             "TtlTablePersistedOnStopOnly", "WalReplayWithoutLease", "ReloadDropsDueTtl", "CleanupKeepsWal", "FileSnapshotTtlSectionUnreadable"],
    "rocks": ["AppliedIndexNotWrittenWithData", "ScanRevisionReadAfterIteration", "AppliedUpdatedAfterData",
              "EmptyPrefixScanReturnsNothing", "SnapshotLabelBehindContent", "PlainPutKeepsTtl", "CasKeepsTtl",
              "TtlTablePersistedOnStopOnly", "ReloadDropsDueTtl"],
}

ALL_DEV = sorted(set(AS_IMPL["file"]) | set(AS_IMPL["rocks"]))   # every deviation is engine-guarded in KV.tla
ENGINES = ["file", "rocks"]

BASE = dict(Feat=[], UseKeys=["KA"], PutVals=["a"], CasKeys=[], CasExp=[], CasNew=[], TtlKeys=[],
            MaxLen=2, MaxChunk=2, MaxCrash=0, MaxCkpt=0, MaxScan=0, MaxTick=0, MaxClean=0, Retained=[1],
            CleanCrashOnly=False)


def C(**kw):
    d = dict(BASE)
    d.update(kw)
    return d


# focused configurations of KV.tla ------------------------------------------------------------------
CFG = {
    # C22: CAS chains on a key and its 0xFF sibling, all chunkings
    "cas-3": C(UseKeys=["KA", "KAF"], PutVals=["e", "a"], CasKeys=["KA"], CasExp=["abs", "e", "a"], CasNew=["e", "b"],
               MaxLen=3, MaxChunk=3),
    "cas-4": C(UseKeys=["KA"], PutVals=["e", "a"], CasKeys=["KA"], CasExp=["abs", "e", "a"], CasNew=["e", "b"],
               MaxLen=4, MaxChunk=4),
    "cas2k-3": C(UseKeys=["KA", "KAF"], PutVals=["e", "a", "b"], CasKeys=["KA", "KAF"], CasExp=["abs", "e", "a"],
                 CasNew=["e", "a", "b"], MaxLen=3, MaxChunk=3),
    # C22 / C25: key sets around the prefix boundaries, reads through scan_prefix
    "keys-3": C(UseKeys=["KA", "KAF", "KB", "KF"], PutVals=["a"], MaxLen=3, MaxChunk=2),
    "keys-4": C(UseKeys=["KA", "KAF", "KB", "KF"], PutVals=["a", "e"], MaxLen=4, MaxChunk=1),
    # C25: a scan overlapping an apply (windows of both engines), keys around the prefix boundaries
    "scanc-2": C(Feat=["ScanC"], UseKeys=["KA", "KAF", "KF"], PutVals=["a", "b"], MaxLen=2, MaxChunk=2, MaxScan=1),
    "scanc-3": C(Feat=["ScanC"], UseKeys=["KA", "KAF", "KB", "KF"], PutVals=["a", "b"], MaxLen=3, MaxChunk=2, MaxScan=1),
    # C15: crash at every step boundary and at the points inside apply_chunk / checkpoint / flush, graceful stop,
    # re-application of the entries above the reported applied index (CAS pairs that distinguish a double apply)
    "crash-2": C(Feat=["Crash", "CrashIn", "Ckpt", "Stop", "Each"], UseKeys=["KA"], PutVals=["e", "a"], CasKeys=["KA"],
                 CasExp=["abs", "b"], CasNew=["a", "b"], MaxLen=2, MaxChunk=2, MaxCrash=1, MaxCkpt=1),
    "crash-3": C(Feat=["Crash", "CrashIn", "Ckpt", "Stop", "Each"], UseKeys=["KA"], PutVals=["e", "a"], CasKeys=["KA"],
                 CasExp=["abs", "b"], CasNew=["a", "b"], MaxLen=3, MaxChunk=2, MaxCrash=1, MaxCkpt=1),
    "crash2-3": C(Feat=["Crash", "CrashIn", "Ckpt"], UseKeys=["KA", "KAF"], PutVals=["e", "a"], CasKeys=["KA"],
                  CasExp=["abs", "b"], CasNew=["b"], TtlKeys=["KAF"], MaxLen=3, MaxChunk=2, MaxCrash=2, MaxCkpt=1),
    # C16: snapshot at every point with retained in {1,2}, applies between generation and install, install into a
    # fresh instance, replay of the entries above the installed boundary
    "snap-2": C(Feat=["Snap", "Each"], UseKeys=["KA"], PutVals=["e", "a"], CasKeys=["KA"], CasExp=["abs", "b"], CasNew=["a", "b"],
                MaxLen=2, MaxChunk=2, Retained=[1, 2]),
    "snap-3": C(Feat=["Snap", "Each"], UseKeys=["KA"], PutVals=["e", "a"], CasKeys=["KA"], CasExp=["abs", "b"], CasNew=["a", "b"],
                MaxLen=3, MaxChunk=2, Retained=[1, 2]),
    "snap-4": C(Feat=["Snap"], UseKeys=["KA"], PutVals=["a"], CasKeys=["KA"], CasExp=["abs", "b"], CasNew=["a", "b"],
                MaxLen=4, MaxChunk=2, Retained=[1, 2, 3]),
    # C23: put-with-TTL / plain put / CAS / delete on one key, one tick, expiry cleanup, graceful stop, crash with a
    # current durable image, snapshot install
    "ttl-w": C(Feat=["Tick"], UseKeys=["KA"], PutVals=["b"], CasKeys=["KA"], CasExp=["a"], CasNew=["b"], TtlKeys=["KA"],
               MaxLen=3, MaxChunk=2, MaxTick=1, MaxClean=1),
    "ttl-r": C(Feat=["Tick", "Stop", "Crash", "Ckpt"], UseKeys=["KA"], PutVals=["b"], TtlKeys=["KA"],
               MaxLen=2, MaxChunk=1, MaxCrash=1, MaxCkpt=1, MaxTick=1, MaxClean=1, CleanCrashOnly=True),
    "ttl-s": C(Feat=["Tick", "Snap"], UseKeys=["KA"], PutVals=["b"], TtlKeys=["KA"],
               MaxLen=2, MaxChunk=1, MaxTick=1, MaxClean=1),
    "ttl-w2": C(Feat=["Tick"], UseKeys=["KA"], PutVals=["b"], CasKeys=["KA"], CasExp=["a"], CasNew=["b"], TtlKeys=["KA", "KAF"],
                MaxLen=3, MaxChunk=2, MaxTick=2, MaxClean=2),
}

INV = {
    "C22": ["C22_Flags", "C22_Contents", "C22_Reads"],
    "C25": ["C25_ScanAtRevision", "C25_SeqScan"],
    "C15": ["C15_AppliedMatchesData"],
    "C16": ["C16_BoundaryMatchesContent", "C15_AppliedMatchesData"],
    "C23": ["C23_Ttl"],
}

PROPS = {
    # sample: behaviours replayed per engine (0 = all enumerated behaviours); a RocksDB open costs ~100 ms here
    "C22": dict(cfgs={"quick": ["cas-3", "keys-3"], "thorough": ["cas-3", "cas-4", "cas2k-3", "keys-3", "keys-4"]},
                sample={"quick": {"file": 4000, "rocks": 800}, "thorough": {"file": 40000, "rocks": 8000}}),
    "C15": dict(cfgs={"quick": ["crash-2"], "thorough": ["crash-2", "crash-3", "crash2-3"]},
                sample={"quick": {"file": 900, "rocks": 110}, "thorough": {"file": 20000, "rocks": 2000}}),
    "C16": dict(cfgs={"quick": ["snap-2"], "thorough": ["snap-2", "snap-3", "snap-4"]},
                sample={"quick": {"file": 800, "rocks": 100}, "thorough": {"file": 15000, "rocks": 1500}}),
    "C23": dict(cfgs={"quick": ["ttl-w", "ttl-r", "ttl-s"], "thorough": ["ttl-w", "ttl-r", "ttl-s", "ttl-w2"]},
                sample={"quick": {"file": 186, "rocks": 36}, "thorough": {"file": 1500, "rocks": 400}}, jobs=32),
    "C25": dict(cfgs={"quick": ["scanc-2"], "thorough": ["scanc-2", "scanc-3", "keys-4"]},
                sample={"quick": {"file": 900, "rocks": 500}, "thorough": {"file": 20000, "rocks": 6000}}),
}

_TEXT = ("TLC model-checks the focused configuration of KV.tla (engine write steps as actions, repaired design) for "
         "this property's invariants and enumerates every behaviour of the as-implemented model within the bounds; "
         "the behaviours are replayed into the real FileStateMachine and RocksDBStateMachine (crashes = reopened "
         "copies of the data directory taken at step boundaries and at guarded points inside the steps); TLC then "
         "judges every recorded observation with the property monitors of KVTrace.tla over the reference "
         "semantics of KVCore.tla and compares it with the model's prediction (conformance).")
_NOTE = ("trusted: TLC, the harness' encoding of commands and observations, process-crash semantics of a directory "
         "copy (everything written survives; power loss is not modelled); bounds: the command alphabet, sequence "
         "length and budgets reported in the evidence file; TLC explores the model exhaustively within those bounds; the "
         "real engines are driven with all enumerated behaviours when they fit the tier's replay budget, otherwise with "
         "a seeded sample stratified by step shape (the evidence file says which)")
_WHAT = {
    "C22": "key-value command semantics on both engines for every chunking",
    "C15": "each committed entry is applied exactly once across crashes; the reported applied index matches the data",
    "C16": "snapshot install plus replay of the log above the boundary reproduces the state; the boundary matches the content (state-machine level)",
    "C23": "TTL: keys expire when due, plain put / delete / successful CAS cancel an earlier TTL, TTL state survives restart and snapshot install",
    "C25": "prefix scans return exactly the state at the revision they report, also when overlapping an apply",
}
MANIFEST_INFO = {p: dict(technique="TLA+/TLC model checking of KV.tla + exhaustive TLC-generated behaviours replayed into "
                                   "the real state machines + TLC trace judge (KVTrace.tla)",
                         category="model_checking", text=w + ": " + _TEXT, note=_NOTE, ref="DESIGN.md sections 2-3, KV engine part")
                 for p, w in _WHAT.items() if p in PROPS}

TIER = {"quick": dict(workers=1, jobs=8, judge_par=6, tlc_par=6, mc_timeout=600),
        "thorough": dict(workers=4, jobs=8, judge_par=6, tlc_par=4, mc_timeout=2400)}

TICK_MS = 4000
TTL_S = 2


# ---------------------------------------------------------------------------------------------------
def tla_val(v):
    if isinstance(v, bool):
        return "TRUE" if v else "FALSE"
    if isinstance(v, (list, tuple, set)):
        return dv.tla_set(list(v))
    if isinstance(v, str):
        return json.dumps(v)
    return str(v)


def write_cfg(wd, name, consts, dev, emit, invariants):
    c = {k: tla_val(v) for k, v in consts.items()}
    c["Engines"] = dv.tla_set(ENGINES)
    c["Dev"] = dv.tla_set(dev)
    c["Emit"] = "TRUE" if emit else "FALSE"
    path = os.path.join(wd, "%s-%s.cfg" % (name, "emit" if emit else ("d%d" % len(dev))))
    dv.write_cfg(path, constants=c, invariants=list(invariants) + (["EmitInv"] if emit else []))
    return path


def run_mc(wd, name, consts, dev, invariants, T):
    """Model checking without emission. Returns stats incl. violated invariants."""
    cfg = write_cfg(wd, name, consts, dev, False, invariants)
    jwd = cfg + ".wd"
    os.makedirs(jwd, exist_ok=True)
    rc, out, dt = dv.tlc("KV", cfg, jwd, workers=T["workers"], timeout=T["mc_timeout"])
    st = dv.tlc_stats(out)
    st["secs"] = round(dt, 1)
    st["violated"] = sorted(set(re.findall(r"Error: Invariant (\S+) is violated", out)))
    finished = ("Model checking completed" in out) or ("states generated" in out and "Finished in" in out)
    if not finished or st["distinct"] == 0 or "Error: Evaluating" in out or "Parsing or semantic analysis failed" in out:
        raise dv.ToolError("TLC failed on KV/%s:\n%s" % (name, out[-3000:]))
    return st


def generate(wd, name, consts, T):
    """All maximal behaviours of the as-implemented model, with the header (keys, prefixes)."""
    cfg = write_cfg(wd, name, consts, ALL_DEV, True, [])
    jwd = cfg + ".wd"
    os.makedirs(jwd, exist_ok=True)
    rc, out, dt = dv.tlc("KV", cfg, jwd, workers=T["workers"], timeout=T["mc_timeout"])
    if "Model checking completed. No error has been found." not in out:
        raise dv.ToolError("behaviour generation failed on KV/%s:\n%s" % (name, out[-3000:]))
    hdr = None
    m = re.search(r'<<"HDR", "(.*)">>', out)
    if m:
        hdr = json.loads(m.group(1).replace('\\"', '"').replace("\\\\", "\\"))
    behs = []
    for m in re.finditer(r'<<"REPLAY", "(.*)">>', out):
        s = m.group(1).replace('\\"', '"').replace("\\\\", "\\")
        behs.append(json.loads(s))
    if hdr is None or not behs:
        raise dv.ToolError("no behaviours generated by KV/%s:\n%s" % (name, out[-2000:]))
    st = dv.tlc_stats(out)
    st["secs"] = round(dt, 1)
    return hdr, behs, st


def _chunk_sig(cmds):
    """operations of a chunk and which of them touch a key an earlier command of the same chunk touched
    (intra-chunk dependencies are where a chunking bug lives)"""
    seen, out = [], []
    for c in cmds:
        k = json.dumps(c.get("k"))
        out.append(c.get("op", "?")[:3] + ("*%d" % seen.index(k) if k in seen else ""))
        if k not in seen:
            seen.append(k)
    return ",".join(out)


def shape(steps):
    return " ".join(s["t"] + ("!" + s["crashat"] if s.get("crashat") else "") + (":" + s["w"] if s.get("w") else "")
                    + ("/%d[%s]" % (len(s["cmds"]), _chunk_sig(s["cmds"])) if "cmds" in s else "") for s in steps)


def stratified(items, n, rnd):
    """items: list of (shape, x). Round-robin over shapes, seeded order inside a shape."""
    if n <= 0 or n >= len(items):
        return [x for _, x in items]
    groups = {}
    for sh, x in items:
        groups.setdefault(sh, []).append(x)
    for g in groups.values():
        rnd.shuffle(g)
    out = []
    keys = sorted(groups)
    i = 0
    while len(out) < n:
        progressed = False
        for k in keys:
            if i < len(groups[k]):
                out.append(groups[k][i])
                progressed = True
                if len(out) >= n:
                    break
        if not progressed:
            break
        i += 1
    return out


def run_harness(wd, hdr, schedules, jobs, tag="t", ttl_s=None):
    # behaviours without clock ticks must never see an expiry: their TTL unit is an hour
    if ttl_s is None:
        ttl_s = TTL_S if any(st["t"] == "tick" for s in schedules for st in s["steps"]) else 3600
    binp = dv.harness_bin("dv-kv")
    sp = os.path.join(wd, "sched-%s.ndjson" % tag)
    with open(sp, "w") as f:
        f.write(json.dumps({"hdr": dict(hdr, tick_ms=TICK_MS, ttl_s=ttl_s)}) + "\n")
        for s in schedules:
            f.write(json.dumps(s) + "\n")
    tp = os.path.join(wd, "trace-%s.ndjson" % tag)
    scratch = os.path.join(wd, "scr-" + tag)
    dv.run([binp, "replay", "--schedules", sp, "--out", tp, "--scratch", scratch, "--jobs", str(jobs)], timeout=6000)
    shutil.rmtree(scratch, ignore_errors=True)
    return tp


def judge(wd, trace_path, par, shard_records=2500):
    """Split the trace at behaviour boundaries, run the TLC judge on every shard, merge."""
    shards = []
    cur, n = [], 0
    toolerrs = []
    with open(trace_path) as f:
        for line in f:
            if '"toolerr"' in line:
                toolerrs.append(line[:400])
            if line.startswith('{"a":{"t":"init"'):
                if n >= shard_records:
                    shards.append(cur)
                    cur, n = [], 0
            cur.append(line)
            n += 1
    if cur:
        shards.append(cur)
    if toolerrs:
        raise dv.ToolError("harness tool error:\n" + "\n".join(toolerrs[:3]))
    paths = []
    for i, sh in enumerate(shards):
        p = os.path.join(wd, "%s.shard%d" % (os.path.basename(trace_path), i))
        with open(p, "w") as f:
            f.writelines(sh)
        paths.append(p)

    def one(p):
        swd = p + ".wd"
        os.makedirs(swd, exist_ok=True)
        res = dv.tlc_trace("KVTrace", p, p + ".result.json", swd, timeout=3000)
        shutil.rmtree(swd, ignore_errors=True)
        return res

    merged = {"viol": [], "div": [], "runs": 0, "steps": 0, "invalid": [], "secs": 0.0}
    with concurrent.futures.ThreadPoolExecutor(max_workers=max(1, par)) as ex:
        for res in ex.map(one, paths):
            merged["viol"] += res["viol"]
            merged["div"] += res["div"]
            merged["runs"] += res["runs"]
            merged["steps"] += res["steps"]
            merged["invalid"] += res["invalid"]
            merged["secs"] += res["secs"]
    return merged


# what makes a replayed behaviour exercise the mechanism of a property ------------------------------
def nontrivial(prop, steps):
    if prop == "C22":
        # a CAS on a key that an earlier command of the behaviour wrote (same chunk or an earlier one)
        seen = set()
        for s in steps:
            for c in s.get("cmds", []):
                k = tuple(c["k"])
                if c["op"] == "cas" and k in seen:
                    return True
                seen.add(k)
        # or: at least two keys present with different prefix relations (scan boundaries)
        keys = {tuple(c["k"]) for s in steps for c in s.get("cmds", []) if c["op"] == "put"}
        return len(keys) >= 2
    if prop == "C25":
        for s in steps:
            if s["t"] == "scanc":
                p = s["p"]
                if any(c["k"][:len(p)] == p for c in s["cmds"]):
                    return True
        return False
    if prop == "C15":
        ts = [s["t"] for s in steps]
        return any(s["t"] == "crash" or s.get("crashat") for s in steps) and "reapply" in ts
    if prop == "C16":
        return any(s["t"] == "install" for s in steps)
    if prop == "C23":
        ttl = any(c.get("ttl", 0) > 0 for s in steps for c in s.get("cmds", []))
        return ttl and any(s["t"] == "cleanup" for s in steps)
    return False


def strip_pred(steps):
    return [{k: v for k, v in s.items() if k not in ("pk", "pa")} for s in steps]


def check(prop, tier):
    wd = dv.workdir("kv-" + prop)
    try:
        return _check(prop, tier, wd)
    finally:
        shutil.rmtree(wd, ignore_errors=True)


def _check(prop, tier, wd):
    t0 = time.time()
    spec = PROPS[prop]
    T = TIER[tier]
    dv.build_harness("dv-kv")
    rnd = random.Random(dv.seed())

    mc_stats, states, transitions = [], 0, 0
    as_impl_refuted = set()
    schedules, hdr = [], None
    gen_total = 0
    phase = {}
    T1 = dict(T, workers=1)
    jobs = [(kind, name) for name in spec["cfgs"][tier] for kind in ("rep", "asi", "gen")]

    def tlc_job(j):
        kind, name = j
        consts = CFG[name]
        if kind == "rep":      # 1. repaired design satisfies the invariants of P (both engines)
            return run_mc(wd, name, consts, [], INV[prop], T1)
        if kind == "asi":      # the as-implemented model: does TLC refute an invariant of P
            return run_mc(wd, name, consts, ALL_DEV, INV[prop], T1)
        return generate(wd, name, consts, T1)   # 2. behaviours of the as-implemented model

    with concurrent.futures.ThreadPoolExecutor(max_workers=T["tlc_par"]) as ex:
        results = dict(zip(jobs, ex.map(tlc_job, jobs)))
    phase["tlc_mc_and_generation"] = round(time.time() - t0, 1)
    for name in spec["cfgs"][tier]:
        consts = CFG[name]
        st = results[("rep", name)]
        if st["violated"]:
            raise dv.ToolError("model (Dev={}) violates %s in config %s" % (st["violated"], name))
        st2 = results[("asi", name)]
        as_impl_refuted |= set(st2["violated"])
        hdr, behs, st3 = results[("gen", name)]
        gen_total += len(behs)
        mc_stats.append({"config": name, "constants": consts,
                         "repaired": {k: st[k] for k in ("distinct", "generated", "depth", "secs")},
                         "as_implemented": {"distinct": st2["distinct"], "generated": st2["generated"],
                                            "first_refuted": st2["violated"], "secs": st2["secs"]},
                         "behaviours": len(behs), "generation_secs": st3["secs"]})
        states += st["distinct"] + st2["distinct"]
        transitions += st["generated"] + st2["generated"]
        for eng in ENGINES:
            items = [(shape(b["steps"]), b["steps"]) for b in behs if b["eng"] == eng]
            n = spec["sample"][tier][eng]
            share = max(50, n // len(spec["cfgs"][tier])) if n else 0
            for b in stratified(items, share, rnd):
                schedules.append({"id": "%s/%s/%d" % (name, eng, len(schedules)), "eng": eng, "steps": b})

    # 3. real code
    t1 = time.time()
    tp = run_harness(wd, hdr, schedules, spec.get("jobs", T["jobs"]), ttl_s=TTL_S if prop == "C23" else 3600)
    phase["replay_on_real_engines"] = round(time.time() - t1, 1)
    # 4. judge
    t1 = time.time()
    res = judge(wd, tp, T["judge_par"])
    phase["tlc_judge"] = round(time.time() - t1, 1)
    viol = [dict(v, p=prop) if v["p"] == "ANY" else v for v in res["viol"]]

    # 5. verdict
    known = dv.load_known() + dv.load_known_part("kv")
    known_hits, new = dv.classify(prop, viol, known=known)
    by_id = {s["id"]: s for s in schedules}
    replay_paths = []
    seen = set()
    for v in new:
        key = (v["m"], v["cause"])
        if key in seen:
            continue
        seen.add(key)
        s = by_id.get(v["id"])
        replay_paths.append(dv.save_replay(prop, {"engine": "kv", "property": prop, "hdr": hdr,
                                                  "ttl_s": TTL_S if prop == "C23" else 3600,
                                                  "schedule": dict(s, steps=strip_pred(s["steps"])), "violation": v}))
        if len(replay_paths) >= 5:
            break

    nt = set()
    samples = []
    for s in schedules:
        if nontrivial(prop, s["steps"]):
            key = json.dumps([s["eng"], strip_pred(s["steps"])], sort_keys=True)
            if key not in nt:
                nt.add(key)
                if len(samples) < 2:
                    samples.append({"id": s["id"], "engine": s["eng"], "steps": strip_pred(s["steps"])})
    divsum = {}
    for d in res["div"]:
        k = "%s/%s" % (d["t"], d["what"])
        divsum[k] = divsum.get(k, 0) + 1
    cov = {
        "states": states, "transitions": transitions,
        "traces_validated_against_impl": res["runs"],
        "samples": samples or [{"note": "no behaviour exercised the mechanism"}],
        "evaluations": res["runs"], "distinct_nontrivial": len(nt),
        "rule": "behaviours = all maximal behaviours of the as-implemented KV.tla model of each listed configuration, "
                "enumerated by TLC (%d enumerated, %d replayed on the real engines: %s); non-trivial for %s = %s; distinct by "
                "(engine, label sequence)" % (gen_total, len(schedules),
                                              "all" if gen_total == len(schedules) else "seeded sample stratified by step shape",
                                              prop, NONTRIVIAL_RULE.get(prop, "")),
        "model_checking": mc_stats, "phase_secs": phase,
        "tlc_as_implemented_refutes": sorted(as_impl_refuted),
        "trace_records_judged": res["steps"],
        "conformance_divergences": divsum,
        "timing_invalid_behaviours": len(set(res["invalid"])) if prop == "C23" else 0,   # only timed behaviours have a timing contract
        "monitor_failures_all_properties": len(res["viol"]),
        "known_findings_hit": sorted({"%s/%s/%s" % (k["property"], k["monitor"], k["cause"]) for k, _ in known_hits}),
        "exhaustive": gen_total == len(schedules),
    }
    level = "model_checking"
    dv.write_evidence(prop, tier, level, cov,
                      ["process-crash semantics: a copy of the data directory holds everything the engine had written",
                       "commands reach the engines as decoded d_engine_core::Command values (wire decoding is not part of this check)",
                       "bounds: alphabets / lengths / budgets of the listed configurations"],
                      time.time() - t0, len(new))
    return dv.finish(prop, known_hits, new, replay_paths)


NONTRIVIAL_RULE = {
    "C22": "contains a CAS on a key written earlier in the behaviour, or puts on >= 2 keys (scan boundaries)",
    "C25": "contains a scan overlapping an apply that touches a key with the scanned prefix",
    "C15": "contains a crash (step boundary or inside a step) followed by a re-application",
    "C16": "contains a snapshot install",
    "C23": "contains a put with TTL and an expiry cleanup",
}


def replay(prop, path):
    with open(path) as f:
        payload = json.load(f)
    wd = dv.workdir("kv-replay-" + prop)
    try:
        return _replay(prop, path, payload, wd)
    finally:
        shutil.rmtree(wd, ignore_errors=True)


def _replay(prop, path, payload, wd):
    dv.build_harness("dv-kv")
    tp = run_harness(wd, payload["hdr"], [payload["schedule"]], 1, ttl_s=payload.get("ttl_s"))
    res = judge(wd, tp, 1)
    viol = [dict(v, p=prop) if v["p"] == "ANY" else v for v in res["viol"]]
    known = dv.load_known() + dv.load_known_part("kv")
    known_hits, new = dv.classify(prop, viol, known=known)
    for v in viol:
        if v["p"] == prop:
            print("reproduced:", json.dumps(v))
    return dv.finish(prop, known_hits, new, [path] if new else [])
