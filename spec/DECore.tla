------------------------------- MODULE DECore -------------------------------
(***************************************************************************)
(* Pure operators describing what one d-engine node does in each of its    *)
(* critical sections (vote request, append-entries request, append-entries *)
(* response, election round, become leader, request building).  They are   *)
(* functions from (node state, message) to (node state', replies) and are  *)
(* used three times:                                                       *)
(*   - DEngine.tla builds the cluster model's actions from them,            *)
(*   - DETrace.tla checks every recorded step of the real implementation    *)
(*     against them (conformance) and evaluates the property monitors,      *)
(*   - the property operators at the end are the INVARIANTs of DEngine and  *)
(*     the monitors of DETrace (same text).                                 *)
(* Written from d-engine-core: election_handler.rs, follower_state.rs,      *)
(* candidate_state.rs, leader_state.rs, role_state.rs,                      *)
(* replication_handler.rs, buffered_raft_log.rs, raft.rs.                   *)
(***************************************************************************)
EXTENDS Naturals, Sequences, FiniteSets, TLC

(* Named deviations of the implementation from the Raft rules.  Dev is the set of deviations that  *)
(* are switched ON.  AsImplemented is the current tree; {} is the repaired design.                 *)
CONSTANT Dev
AsImplemented == {"HardStateSavedOnlyOnDrop", "Prev0ResetsFollowerLog", "GappedAppendRequest",
                  "VoteResetOnAnyStepDown", "EmptyAEAckReportsWholeLog", "FollowerCommitUsesWholeLog",
                  "SingleNodeFromInitialConfig", "BatchPromoteAnySize", "MembershipNotReplayedOnRestart",
                  \* read path (interpreted by DEClient / Lease)
                  "ReadServedOnApplyWithoutConfirmation", "AnyAckConfirmsReads", "VotersIgnoreRecentLeader"}

Max(a, b) == IF a > b THEN a ELSE b
Min(a, b) == IF a < b THEN a ELSE b

NoVote == [id |-> 0, t |-> 0, c |-> FALSE]
NoHs   == [saved |-> FALSE, term |-> 0, vid |-> 0, vt |-> 0]

(* A log is a sequence of entries [i, t, k, v] with increasing (normally    *)
(* consecutive) index i; gaps are representable because the implementation  *)
(* can create them.                                                         *)
LastIdx(log)  == IF Len(log) = 0 THEN 0 ELSE log[Len(log)].i
LastTerm(log) == IF Len(log) = 0 THEN 0 ELSE log[Len(log)].t
FirstIdx(log) == IF Len(log) = 0 THEN 0 ELSE log[1].i
Idxs(log)     == {log[j].i : j \in 1..Len(log)}
HasIdx(log, i) == \E j \in 1..Len(log) : log[j].i = i
PosOf(log, i) == CHOOSE j \in 1..Len(log) : log[j].i = i
EntryAt(log, i) == log[PosOf(log, i)]
TermAt(log, i) == IF HasIdx(log, i) THEN EntryAt(log, i).t ELSE 0      \* 0 = not present
\* BufferedRaftLog::entry_term answers from the term segments: for any index between the first and
\* the last index it returns the term of the segment the index falls into, even if the entry itself
\* is missing (a gap) -- 0 = outside the log
InRange(log, i) == Len(log) > 0 /\ i >= log[1].i /\ i <= log[Len(log)].i
SegTermAt(log, i) ==
  IF ~InRange(log, i) THEN 0
  ELSE LET S == {j \in 1..Len(log) : log[j].i <= i}
       IN log[CHOOSE m \in S : \A o \in S : m >= o].t
Upto(log, i)  == SelectSeq(log, LAMBDA e : e.i <= i)                    \* entries with index <= i
From(log, i)  == SelectSeq(log, LAMBDA e : e.i >= i)
Below(log, i) == SelectSeq(log, LAMBDA e : e.i < i)
Contiguous(log) == \A j \in 1..Len(log) - 1 : log[j + 1].i = log[j].i + 1
FirstIdxOfTerm(log, t) ==
  IF \E j \in 1..Len(log) : log[j].t = t
  THEN LET S == {log[j].i : j \in {x \in 1..Len(log) : log[x].t = t}}
       IN CHOOSE m \in S : \A o \in S : m <= o
  ELSE 0
LastIdxOfTerm(log, t) ==
  IF \E j \in 1..Len(log) : log[j].t = t
  THEN LET S == {log[j].i : j \in {x \in 1..Len(log) : log[x].t = t}}
       IN CHOOSE m \in S : \A o \in S : m >= o
  ELSE 0
\* first index of the last term segment (TermSegments.last_term_start)
LastTermStart(log) ==
  IF Len(log) = 0 THEN 0
  ELSE LET lt == LastTerm(log)
           S == {j \in 1..Len(log) : \A x \in j..Len(log) : log[x].t = lt}
       IN log[CHOOSE m \in S : \A o \in S : m <= o].i

(* is_target_log_more_recent(my, target): target is at least as up to date *)
\* (model mutants: M_LogCheckIndexOnly compares the index whatever the terms, M_LogCheckTermOnly ignores the index)
AtLeastAsRecent(myI, myT, tI, tT) ==
  IF "M_LogCheckIndexOnly" \in Dev THEN tT > myT \/ tI >= myI
  ELSE IF "M_LogCheckTermOnly" \in Dev THEN tT >= myT
  ELSE tT > myT \/ (tT = myT /\ tI >= myI)
\* (model mutant M_HalfIsMajority: half of an even number of voters is taken for a majority)
IsMajority(num, total) == IF "M_HalfIsMajority" \in Dev THEN 2 * num >= total ELSE num > (total \div 2)

(***************************************************************************)
(* Vote request  q = [from, t, li, lt]                                      *)
(***************************************************************************)
\* ElectionHandler::handle_vote_request as used by FollowerState
VoteGrantF(s, q) ==
  LET usable == IF q.t > s.term THEN NoVote ELSE s.vote
  IN /\ q.t >= s.term
     /\ ("M_NoLogCheckOnVote" \in Dev \/ AtLeastAsRecent(LastIdx(s.log), LastTerm(s.log), q.li, q.lt))
     /\ ("M_GrantTwice" \in Dev \/ usable.id = 0 \/ (usable.t = q.t /\ usable.id = q.from))

VQ_F_State(s, q) ==
  [s EXCEPT !.term = IF q.t > @ THEN q.t ELSE @,
            !.vote = IF VoteGrantF(s, q) THEN [id |-> q.from, t |-> q.t, c |-> FALSE] ELSE @]
\* the response carries the term the voter had BEFORE the request updated it
VQ_F_Resp(s, q) ==
  [g |-> VoteGrantF(s, q), t |-> s.term, li |-> LastIdx(s.log), lt |-> LastTerm(s.log)]

\* raft.rs BecomeFollower: role change + reset_voted_for; leader bookkeeping is dropped
StepDown(s) == [s EXCEPT !.role = "F", !.noop = 0,
                         !.vote = IF "VoteResetOnAnyStepDown" \in Dev \/ @.t < s.term THEN NoVote ELSE @,
                         !.next = [p \in DOMAIN s.next |-> 0],
                         !.match = [p \in DOMAIN s.match |-> 0]]

\* ElectionHandler::check_vote_request_is_legal (candidate branch)
CandLegal(s, q) ==
  /\ ~(s.term > q.t)
  /\ AtLeastAsRecent(LastIdx(s.log), LastTerm(s.log), q.li, q.lt)
  /\ (s.vote.id = 0 \/ s.vote.t < q.t)

HandleVQ_State(s, q) ==
  CASE s.role = "F" -> VQ_F_State(s, q)
    [] s.role = "C" -> IF CandLegal(s, q)
                       THEN VQ_F_State(StepDown([s EXCEPT !.term = q.t]), q)
                       ELSE s
    [] s.role = "L" -> IF s.term < q.t
                       THEN VQ_F_State(StepDown([s EXCEPT !.term = q.t]), q)
                       ELSE s
    [] s.role = "Ln" -> IF "M_VoteAsLearner" \in Dev THEN VQ_F_State(s, q)
                        ELSE [s EXCEPT !.term = IF q.t > @ THEN q.t ELSE @]
HandleVQ_Resp(s, q) ==
  LET rej == [g |-> FALSE, t |-> s.term, li |-> LastIdx(s.log), lt |-> LastTerm(s.log)]
  IN CASE s.role = "F" -> VQ_F_Resp(s, q)
       [] s.role = "C" -> IF CandLegal(s, q)
                          THEN VQ_F_Resp(StepDown([s EXCEPT !.term = q.t]), q) ELSE rej
       [] s.role = "L" -> IF s.term < q.t
                          THEN VQ_F_Resp(StepDown([s EXCEPT !.term = q.t]), q) ELSE rej
       [] s.role = "Ln" -> IF "M_VoteAsLearner" \in Dev THEN VQ_F_Resp(s, q) ELSE rej

(***************************************************************************)
(* Election round outcome (ElectionHandler::broadcast_vote_requests).       *)
(* R = set of responses [from, g, t, li, lt]; failed RPCs are not in R.     *)
(* The code scans the responses in peer order and returns at the first      *)
(* non-grant that shows a higher term or a log at least as recent; peer     *)
(* order is a hash-map order, hence any such response can decide.           *)
(***************************************************************************)
BadResp(s, R) == {r \in R : ~r.g /\ (r.t > s.term
                     \/ AtLeastAsRecent(LastIdx(s.log), LastTerm(s.log), r.li, r.lt))}
RoundOutcomes(s, peers, R) ==
  IF BadResp(s, R) = {}
  THEN IF peers # {} /\ IsMajority(Cardinality({r \in R : r.g}) + 1, Cardinality(peers) + 1)
       THEN {[k |-> "win", t |-> 0]} ELSE {[k |-> "lose", t |-> 0]}
  ELSE {IF r.t > s.term THEN [k |-> "higher", t |-> r.t] ELSE [k |-> "lose", t |-> 0]
          : r \in BadResp(s, R)}

(***************************************************************************)
(* AppendEntries request  a = [from, t, prev, pt, ents, lc]  at a follower   *)
(* or learner (role_state.rs handle_append_entries_request_workflow +        *)
(* replication_handler.rs + buffered_raft_log.rs).                           *)
(***************************************************************************)
AELegal(s, a) ==
  \/ (a.prev = 0 /\ a.pt = 0)                         \* "virtual log" rule: accepted whatever the log is
  \/ (InRange(s.log, a.prev) /\ SegTermAt(s.log, a.prev) = a.pt)

\* BufferedRaftLog::filter_out_conflicts_and_append
FilterAppend(log, a) ==
  IF a.prev = 0 /\ a.pt = 0 /\ "Prev0ResetsFollowerLog" \in Dev
  THEN a.ents                                          \* reset the whole log, then append
  ELSE
    LET last    == LastIdx(log)
        overlap == SelectSeq(a.ents, LAMBDA e : e.i <= last)
        tail    == SelectSeq(a.ents, LAMBDA e : e.i > last)
        safe    == \/ Len(overlap) = 0
                   \/ /\ overlap[1].i >= LastTermStart(log)
                      /\ overlap[1].t = LastTerm(log)
                      /\ overlap[Len(overlap)].t = LastTerm(log)
    IN IF safe THEN log \o tail
       ELSE LET D == {j \in 1..Len(a.ents) :
                        a.ents[j].i > last \/
                        \* (model mutant M_KeepHigherTermStaleEntry: a held entry only conflicts if its term is lower)
                        (IF "M_KeepHigherTermStaleEntry" \in Dev
                         THEN SegTermAt(log, a.ents[j].i) = 0 \/ SegTermAt(log, a.ents[j].i) < a.ents[j].t
                         ELSE SegTermAt(log, a.ents[j].i) # a.ents[j].t)}
            IN IF D = {} THEN log
               ELSE LET pos == CHOOSE m \in D : \A o \in D : m <= o
                        di  == a.ents[pos].i
                        tl  == SubSeq(a.ents, pos, Len(a.ents))
                    IN IF di <= last THEN (IF "M_NoTruncateOnConflict" \in Dev THEN log ELSE Below(log, di) \o tl)
                       ELSE log \o tl

AE_State(s, a) ==
  IF s.term > a.t /\ "M_AcceptStaleTermAE" \notin Dev THEN s
  ELSE
    LET s1 == [s EXCEPT !.term = Max(@, a.t), !.vote = [id |-> a.from, t |-> a.t, c |-> TRUE]]
    IN IF ~AELegal(s, a) THEN s1
       ELSE LET nl == IF Len(a.ents) > 0 THEN FilterAppend(s.log, a) ELSE s.log
                nc == IF "M_FollowerCommitNoMin" \in Dev THEN Max(s.commit, a.lc)
                      ELSE IF a.lc <= s.commit THEN s.commit
                      ELSE IF "FollowerCommitUsesWholeLog" \in Dev THEN Min(a.lc, LastIdx(nl))
                      ELSE Max(s.commit, Min(a.lc, a.prev + Len(a.ents)))
            IN [s1 EXCEPT !.log = nl, !.commit = nc]

\* response: [kind, t, mi, mt, ct, ci]; t = the follower's term BEFORE this request
AE_Resp(s, a) ==
  IF s.term > a.t /\ "M_AcceptStaleTermAE" \notin Dev
  THEN [kind |-> "higher", t |-> s.term, mi |-> 0, mt |-> s.term, ct |-> 0, ci |-> 0]
  ELSE IF ~AELegal(s, a)
  THEN IF InRange(s.log, a.prev)
       THEN LET ctm == SegTermAt(s.log, a.prev)
            IN [kind |-> "conflict", t |-> s.term, mi |-> 0, mt |-> 0, ct |-> ctm,
                ci |-> FirstIdxOfTerm(s.log, ctm)]
       ELSE [kind |-> "conflict", t |-> s.term, mi |-> 0, mt |-> 0, ct |-> 0,
             ci |-> LastIdx(s.log) + 1]
  ELSE IF Len(a.ents) > 0
  THEN [kind |-> "ok", t |-> s.term, mi |-> a.ents[Len(a.ents)].i, mt |-> a.ents[Len(a.ents)].t,
        ct |-> 0, ci |-> 0]
  ELSE IF "EmptyAEAckReportsWholeLog" \in Dev
  THEN [kind |-> "ok", t |-> s.term, mi |-> LastIdx(s.log), mt |-> LastTerm(s.log), ct |-> 0, ci |-> 0]
  ELSE [kind |-> "ok", t |-> s.term, mi |-> a.prev, mt |-> a.pt, ct |-> 0, ci |-> 0]

\* candidate / leader receiving AppendEntries: step down and let the follower handle it
HandleAE_State(s, a) ==
  CASE s.role \in {"F", "Ln"} -> AE_State(s, a)
    [] s.role = "C" -> IF a.t >= s.term THEN AE_State(StepDown([s EXCEPT !.term = a.t]), a) ELSE s
    [] s.role = "L" -> IF a.t > s.term THEN AE_State(StepDown(s), a) ELSE s
HandleAE_Resp(s, a) ==
  LET hi == [kind |-> "higher", t |-> s.term, mi |-> 0, mt |-> s.term, ct |-> 0, ci |-> 0]
  IN CASE s.role \in {"F", "Ln"} -> AE_Resp(s, a)
       [] s.role = "C" -> IF a.t >= s.term THEN AE_Resp(StepDown([s EXCEPT !.term = a.t]), a) ELSE hi
       [] s.role = "L" -> IF a.t > s.term THEN AE_Resp(StepDown(s), a) ELSE hi

(***************************************************************************)
(* Leader side                                                              *)
(***************************************************************************)
\* commit index a leader may move to: median of (voter match indexes + own last index) if that
\* entry is from the current term (calculate_new_commit_index / calculate_majority_matched_index)
MedianDesc(S) ==      \* S: sequence of naturals; element at position Len \div 2 + 1 when sorted descending
  LET n == Len(S)
      \* k-th largest = value v in S such that #(>v) < k <= #(>=v)
      k == IF "M_MinorityCommit" \in Dev /\ n > 2 THEN n \div 2 ELSE (n \div 2) + 1
      vals == {S[j] : j \in 1..n}
  IN CHOOSE v \in vals :
        /\ Cardinality({j \in 1..n : S[j] > v}) < k
        /\ Cardinality({j \in 1..n : S[j] >= v}) >= k
SetToSeq(S) == CHOOSE f \in [1..Cardinality(S) -> S] : \A x \in S : \E j \in 1..Cardinality(S) : f[j] = x
LeaderCommitCandidate(s, voterPeers) ==     \* voterPeers: set of peer ids that are voters
  LET vs == SetToSeq(voterPeers)
      ms == [j \in 1..Len(vs) + 1 |-> IF j <= Len(vs) THEN s.match[vs[j]] ELSE LastIdx(s.log)]
      m  == MedianDesc(ms)
  IN IF m >= s.commit /\ HasIdx(s.log, m) /\ (TermAt(s.log, m) = s.term \/ "M_NoTermCheckOnCommit" \in Dev) THEN m ELSE 0
LeaderNewCommit(s, voterPeers) ==
  LET c == LeaderCommitCandidate(s, voterPeers) IN IF c > s.commit THEN c ELSE s.commit

\* entries sent to a peer (retrieve_to_be_synced_logs_for_peers + build_append_request)
\* lastBefore: leader's last index before the new entries were appended; newEnts: the new entries
ReqEntries(log, nextp, lastBefore, newEnts, cap) ==
  LET legacy == IF lastBefore >= nextp
                THEN LET until == IF lastBefore - nextp >= cap THEN nextp + cap - 1 ELSE lastBefore
                     IN SelectSeq(log, LAMBDA e : e.i >= nextp /\ e.i <= until)
                ELSE <<>>
      capped == lastBefore >= nextp /\ lastBefore - nextp >= cap
  IN IF capped /\ "GappedAppendRequest" \notin Dev THEN legacy ELSE legacy \o newEnts
BuildAE(s, me, p, lastBefore, newEnts, cap) ==
  LET nx == IF s.next[p] = 0 THEN 1 ELSE s.next[p]
      pr == nx - 1
  IN [ty |-> "AE", from |-> me, to |-> p, t |-> s.term, prev |-> pr, pt |-> TermAt(s.log, pr),
      ents |-> ReqEntries(s.log, nx, lastBefore, newEnts, cap), lc |-> s.commit]
SpecNext(s, ae) == Max(ae.prev + Len(ae.ents) + 1, s.match[ae.to] + 1)

\* log compaction ---------------------------------------------------------------------------
\* prepare_batch_requests: a peer whose next index lies below the leader's first retained index is served by
\* snapshot, every other peer by AppendEntries (first = first_entry_id(), 0/1 = nothing purged)
NeedsSnapshot(first, nextp) == first > 1 /\ nextp < first
\* can_purge_logs (leader and follower): the snapshot must end below the commit index and above the last purge
PurgeLegal(commit, lastPurged, lastIncluded) == lastIncluded < commit /\ lastPurged < lastIncluded

\* AppendEntries response r = [from, kind, t, mi, mt, ct, ci] at the leader (handle_append_result)
AR_State(s, r, voterPeers) ==
  IF s.role # "L" \/ (r.t < s.term /\ "M_AcceptStaleAck" \notin Dev) THEN s
  ELSE IF r.t > s.term THEN StepDown([s EXCEPT !.term = r.t])
  ELSE IF r.t < s.term /\ r.kind # "ok" THEN s
  ELSE IF r.kind = "higher"
  THEN IF r.mt > s.term THEN StepDown([s EXCEPT !.term = r.mt]) ELSE s
  ELSE IF r.kind = "ok"
  THEN LET nm == IF "M_MatchNotMonotone" \in Dev THEN r.mi ELSE Max(s.match[r.from], r.mi)
           nn == Max(Max(r.mi + 1, s.next[r.from]), nm + 1)
           s1 == [s EXCEPT !.match[r.from] = nm, !.next[r.from] = nn]
       IN IF r.from \in voterPeers
          THEN LET nc == LeaderNewCommit(s1, voterPeers)
               IN [s1 EXCEPT !.commit = nc,
                             !.noop = IF @ = 0 /\ nc > s1.commit THEN
                                        (IF \E j \in 1..Len(s1.log) : s1.log[j].i <= nc /\ s1.log[j].i > s1.commit
                                              /\ s1.log[j].k = "noop" /\ s1.log[j].t = s1.term
                                         THEN LastIdx(s1.log) ELSE 0)
                                      ELSE @]
          ELSE s1
  ELSE \* conflict
       LET hint == IF r.ct # 0 /\ r.ci # 0
                   THEN (IF LastIdxOfTerm(s.log, r.ct) # 0 THEN LastIdxOfTerm(s.log, r.ct) + 1 ELSE r.ci)
                   ELSE IF r.ci # 0 THEN r.ci
                   ELSE (IF s.next[r.from] > 0 THEN s.next[r.from] - 1 ELSE 0)
       IN [s EXCEPT !.next[r.from] = Max(Max(hint, 1), s.match[r.from] + 1)]

(***************************************************************************)
(* Property operators (INVARIANTs of DEngine, monitors of DETrace).          *)
(* They take the abstract values they talk about as arguments.               *)
(***************************************************************************)
\* C01: ledIn: function term -> set of nodes that acted as leader in that term
P_ElectionSafety(ledIn) == \A t \in DOMAIN ledIn : Cardinality(ledIn[t]) <= 1

\* C02: granted: set of [voter, t, cand]
P_VoteOnce(granted) == \A x, y \in granted : (x.voter = y.voter /\ x.t = y.t) => x.cand = y.cand

\* C04: logs: function node -> log
P_LogMatching(logs) ==
  \A a, b \in DOMAIN logs :
    \A i \in Idxs(logs[a]) \cap Idxs(logs[b]) :
      TermAt(logs[a], i) = TermAt(logs[b], i) =>
        \A m \in {x \in Idxs(logs[a]) \cup Idxs(logs[b]) : x <= i} :
          \* both hold m (above both first indexes) and the entries are identical
          (m >= FirstIdx(logs[a]) /\ m >= FirstIdx(logs[b])) =>
             (HasIdx(logs[a], m) /\ HasIdx(logs[b], m) /\ EntryAt(logs[a], m) = EntryAt(logs[b], m))

\* C08 (second half): a node's log has no index gaps
P_GapFree(log) == Contiguous(log)
\* C08 (first half): a request's entries are consecutive and start right after prev
P_ContiguousAE(ae) == \A j \in 1..Len(ae.ents) : ae.ents[j].i = ae.prev + j

=============================================================================
