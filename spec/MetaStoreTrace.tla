--------------------------- MODULE MetaStoreTrace ---------------------------
(***************************************************************************)
(* Judge of a system-call trace of a real file-backed meta store (C21).    *)
(*                                                                         *)
(* TRACE (ndjson, env var TRACE) is the sequence of file-system calls the  *)
(* real FileMetaStore made on its directory (from strace), with marks      *)
(* around every save_hard_state call:                                      *)
(*   {"e":"mark","w":"begin"|"end","v":id}    id = which value is saved    *)
(*   {"e":"open","p":name,"creat":b,"trunc":b}                             *)
(*   {"e":"write","p":name,"off":n,"d":[bytes]}                            *)
(*   {"e":"ftruncate","p":name,"len":n} {"e":"fsync","p":name}             *)
(*   {"e":"fsyncdir"} {"e":"rename","p":a,"q":b} {"e":"unlink","p":a}      *)
(*   {"e":"newrun"}   a fresh directory and store (several runs per trace) *)
(* The calls are replayed on FsModel.  At every point from the begin mark  *)
(* of a save to just after its end mark, the images a process crash and a  *)
(* power loss can leave are emitted together with the set of values the    *)
(* property allows the restarted store to load (0 = no state):             *)
(*   during the save: previous value or new value;                         *)
(*   after it returned: process crash -> the new value only,               *)
(*                      power loss    -> previous or new value.            *)
(* The driver materialises every image and loads it with the real store.   *)
(***************************************************************************)
EXTENDS FsModel, Json, IOUtils

Rec == ndJsonDeserialize(IOEnv.TRACE)

VARIABLES l, fs, saved, prev, cur, phase, rn
vars == <<l, fs, saved, prev, cur, phase, rn>>

Apply(f, r) ==
  CASE r.e = "open"      -> FsOpen(f, r.p, r.creat, r.trunc)
    [] r.e = "write"     -> FsWrite(f, r.p, r.off, r.d)
    [] r.e = "ftruncate" -> FsTruncate(f, r.p, r.len)
    [] r.e = "fsync"     -> FsFsync(f, r.p)
    [] r.e = "fsyncdir"  -> FsFsyncDir(f)
    [] r.e = "rename"    -> FsRename(f, r.p, r.q)
    [] r.e = "unlink"    -> FsUnlink(f, r.p)
    [] OTHER             -> f

Init == l = 0 /\ fs = EmptyFs /\ saved = 0 /\ prev = 0 /\ cur = 0 /\ phase = "idle" /\ rn = 0

Next ==
  /\ l < Len(Rec)
  /\ l' = l + 1
  /\ LET r == Rec[l + 1] IN
       /\ fs' = (IF r.e = "newrun" THEN EmptyFs ELSE Apply(fs, r))
       /\ rn' = (IF r.e = "newrun" THEN rn + 1 ELSE rn)
       /\ IF r.e = "newrun"
          THEN saved' = 0 /\ prev' = 0 /\ cur' = 0 /\ phase' = "idle"
          ELSE IF r.e = "mark" /\ r.w = "begin"
          THEN cur' = r.v /\ phase' = "during" /\ UNCHANGED <<saved, prev>>
          ELSE IF r.e = "mark" /\ r.w = "end"
          THEN cur' = 0 /\ saved' = cur /\ prev' = saved /\ phase' = "after"
          ELSE IF phase = "after"
          THEN phase' = "idle" /\ UNCHANGED <<saved, prev, cur>>
          ELSE UNCHANGED <<saved, prev, cur, phase>>

Spec == Init /\ [][Next]_vars

\* file name -> content for JSON (records with string fields)
ImgJson(img) == [n \in DOMAIN img |-> img[n]]

Emit ==
  (phase \in {"during", "after"}) =>
     /\ PrintT(<<"IMAGE", ToJson([at |-> l, run |-> rn, op |-> IF phase = "during" THEN cur ELSE saved,
                                  kind |-> "process", phase |-> phase,
                                  allowed |-> IF phase = "during" THEN {saved, cur} ELSE {saved},
                                  strict |-> TRUE,
                                  img |-> ImgJson(ProcImage(fs))])>>)
     /\ \A img \in PowerImages(fs) :
          PrintT(<<"IMAGE", ToJson([at |-> l, run |-> rn, op |-> IF phase = "during" THEN cur ELSE saved,
                                    kind |-> "power", phase |-> phase,
                                    allowed |-> IF phase = "during" THEN {saved, cur} ELSE {prev, saved},
                                    strict |-> (img = StrictPowerImage(fs)),
                                    img |-> ImgJson(img)])>>)

Done == (l = Len(Rec)) => PrintT(<<"DONE", l>>)
=============================================================================
