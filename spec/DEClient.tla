------------------------------- MODULE DEClient -------------------------------
(***************************************************************************)
(* Client layer of d-engine on top of the cluster model DEngine: the apply  *)
(* pipeline (commit index -> state machine, with lag), acknowledgement of    *)
(* client writes, and the linearizable read protocol of the leader           *)
(* (leader_state.rs: calculate_read_index, Phase 3 of                       *)
(* execute_and_process_raft_rpc, Path A in handle_append_result, Path B in   *)
(* handle_apply_completed, lease shortcut).                                  *)
(*                                                                         *)
(* One action per critical section of the code:                             *)
(*   Apply(n)       ApplyCompleted on node n: the state machine reaches the  *)
(*                  commit index; the leader answers the writes it was       *)
(*                  holding for apply and (Path B) queued reads              *)
(*   ReadLin(n)     a linearizable read arrives at leader n: read index =    *)
(*                  max(commit, noop id); answered at once under a valid     *)
(*                  lease with the state machine caught up, queued otherwise;*)
(*                  a heartbeat round goes out                               *)
(*   DeliverAR      (refined) a successful voter acknowledgement that makes  *)
(*                  quorum_confirmed true renews the lease and (Path A)      *)
(*                  answers queued reads whose read index is applied         *)
(*   ClientWrite    (refined) the write is registered until it is applied    *)
(*   LeaseExpire    time passes: every lease runs out                        *)
(* every other DEngine action only normalises the client state (a node that  *)
(* stops leading fails what it holds).                                       *)
(*                                                                         *)
(* Named deviations of the implementation (members of Dev, see DECore):      *)
(*   "ReadServedOnApplyWithoutConfirmation"  Path B answers queued reads     *)
(*        with no leadership confirmation after the read arrived             *)
(*   "AnyAckConfirmsReads"  quorum_confirmed is computed from the stored     *)
(*        match indexes: an acknowledgement of a request sent before the     *)
(*        read arrived confirms it                                           *)
(*   "VotersIgnoreRecentLeader"  (Lease.tla) a lease can outlive the         *)
(*        leadership; without it this module assumes what Lease.tla          *)
(*        establishes: a lease has run out before a later leader exists      *)
(* Model mutants: "M_NoApplyGate" (Path A releases reads up to the commit    *)
(* index), "M_AckAtCommit" (write acknowledged when committed),              *)
(* "M_ReadBeforeNoop" (reads accepted before the term's no-op committed),    *)
(* "M_ReadIndexIsApplied" (read index = applied index).                      *)
(***************************************************************************)
EXTENDS DEngine

CONSTANTS MaxReads,      \* bound on the number of reads per behaviour
          Eager          \* nodes whose state machine follows their commit index at once (state-space reduction for
                         \* nodes that never lead in a configuration; {} = every node may lag)

VARIABLE cs
\* cs.ap[n]     applied index of node n's state machine
\* cs.pw[n]     log indexes of client writes leader n still has to answer
\* cs.pr[n]     queued reads of leader n: [id, ridx, floor, old, conf]
\* cs.lease[n]  leader n holds a valid lease
\* cs.ackMax    highest log index whose write was acknowledged to a client
\* cs.nread     reads issued so far
\* cs.bad       violations observed (set of records)
cvars == <<vars, cs>>
cView == <<stateView, cs>>
\* for configurations that check only the R_ invariants: the monitor history of DEngine is left out of the fingerprint
cViewLean == <<ns, rnd, msgs, cs, mon.drops, mon.crashes>>

NoSet == [n \in Node |-> {}]
InitC == /\ Init
         /\ cs = [ap |-> ZeroMap, pw |-> NoSet, pr |-> NoSet, lease |-> [n \in Node |-> FALSE],
                  ackMax |-> 0, nread |-> 0, bad |-> {}]

Leads(s) == s.up /\ s.role = "L"
LeaseSound == "VotersIgnoreRecentLeader" \notin Dev

\* every transition: a node that no longer leads (or leads another term) fails what it holds; a sound lease has run
\* out before a leader of a later term exists; the applied index never passes the commit index it was taken from
Normalise(c, nso, nsn) ==
  LET keeps(n) == Leads(nso[n]) /\ Leads(nsn[n]) /\ nso[n].term = nsn[n].term
      later(n) == \E m \in Node : Leads(nsn[m]) /\ nsn[m].term > nsn[n].term
  IN [c EXCEPT !.ap = [n \in Node |-> IF n \in Eager /\ nsn[n].up THEN nsn[n].commit ELSE @[n]],
               !.pw = [n \in Node |-> IF keeps(n) THEN @[n] ELSE {}],
               !.pr = [n \in Node |-> IF keeps(n) THEN @[n] ELSE {}],
               !.lease = [n \in Node |-> @[n] /\ keeps(n) /\ ~(LeaseSound /\ later(n))]]

Voters(n) == Peers(n) \cup {n}
Confirmed(r, n) == IsMajority(Cardinality(r.conf \cap Peers(n)) + 1, Cardinality(Voters(n)))

\* answering read r on node n from a state machine at index p
Answer(c, n, r, p) ==
  IF p < r.floor THEN [c EXCEPT !.bad = @ \cup {[k |-> "stale-read", n |-> n, p |-> p, floor |-> r.floor]}] ELSE c
RECURSIVE AnswerAll(_, _, _, _)
AnswerAll(c, n, R, p) ==
  IF R = {} THEN c ELSE LET r == CHOOSE x \in R : TRUE IN AnswerAll(Answer(c, n, r, p), n, R \ {r}, p)
Serve(c, n, R, p) == [AnswerAll(c, n, R, p) EXCEPT !.pr[n] = @ \ R]

\* -------------------------------------------------------------------------------------------
Apply(n) ==
  /\ ns[n].up /\ cs.ap[n] < ns[n].commit /\ n \notin Eager
  /\ LET p  == ns[n].commit
         c1 == [cs EXCEPT !.ap[n] = p]
         \* leader: writes held for apply are answered (handle_apply_completed)
         done == IF Leads(ns[n]) THEN {i \in cs.pw[n] : i <= p} ELSE {}
         c2 == [c1 EXCEPT !.pw[n] = @ \ done,
                          !.ackMax = IF done = {} THEN @ ELSE Max(@, CHOOSE i \in done : \A j \in done : i >= j)]
         \* Path B
         R  == IF ~Leads(ns[n]) THEN {}
               ELSE {r \in cs.pr[n] : r.ridx <= p /\
                        ("ReadServedOnApplyWithoutConfirmation" \in Dev \/ Confirmed(r, n))}
     IN /\ cs' = Serve(c2, n, R, p)
        /\ Step([a |-> "ApplyNow", n |-> n], ns, rnd, msgs, mon)

ReadIndex(n) == IF "M_ReadIndexIsApplied" \in Dev THEN cs.ap[n] ELSE Max(ns[n].commit, ns[n].noop)

ReadLin(n) ==
  /\ Ready(n) /\ ns[n].role = "L" /\ cs.nread < MaxReads
  /\ (ns[n].noop > 0 \/ "M_ReadBeforeNoop" \in Dev)      \* LeaderNotReady before the term's no-op committed
  /\ LET ridx == ReadIndex(n)
         r    == [id |-> cs.nread + 1, ridx |-> ridx, floor |-> cs.ackMax,
                  old |-> {m \in msgs : (m.ty = "AE" /\ m.from = n) \/ (m.ty = "AR" /\ m.to = n)}, conf |-> {}]
         c1   == [cs EXCEPT !.nread = @ + 1]
         now  == (Peers(n) = {} \/ cs.lease[n]) /\ cs.ap[n] >= ridx
         c2   == IF now THEN Answer(c1, n, r, cs.ap[n]) ELSE [c1 EXCEPT !.pr[n] = @ \cup {r}]
         ls   == LeaderSend(ns[n], n, <<>>)
     IN /\ cs' = c2
        /\ Step([a |-> "Client", n |-> n, op |-> "read", key |-> "k1", policy |-> "lin"],
                [ns EXCEPT ![n] = ls.st], rnd, msgs \cup ls.reqs, mon)

LeaseExpire ==
  /\ \E n \in Node : cs.lease[n]
  /\ cs' = [cs EXCEPT !.lease = [n \in Node |-> FALSE]]
  /\ Step([a |-> "Advance", ms |-> 400], ns, rnd, msgs, mon)

\* refined DEngine actions ----------------------------------------------------------------------
AfterAR(m) ==
  LET n  == m.to
      vp == IF "M_CountLearners" \in Dev THEN Targets(ns[n], n) ELSE Peers(n)
      s1 == Persist(WithCfg(n, ns[n], AR_State(ns[n], m, vp)))          \* = ns'[n] (DEngine!DeliverAR)
      c0 == Normalise(cs, ns, [ns EXCEPT ![n] = s1])
      okv == Leads(ns[n]) /\ Leads(s1) /\ ns[n].term = s1.term /\ m.kind = "ok" /\ m.from \in Peers(n)
             /\ (m.t = s1.term \/ "M_AcceptStaleAck" \in Dev)
      qc == okv /\ LeaderCommitCandidate(s1, Peers(n)) # 0                  \* quorum_confirmed
      \* writes answered at commit time (mutant)
      done == IF "M_AckAtCommit" \in Dev /\ okv THEN {i \in c0.pw[n] : i <= s1.commit} ELSE {}
      c1 == [c0 EXCEPT !.pw[n] = @ \ done,
                       !.ackMax = IF done = {} THEN @ ELSE Max(@, CHOOSE i \in done : \A j \in done : i >= j),
                       !.bad = @ \cup {[k |-> "ack-before-apply", n |-> n, p |-> c0.ap[n], floor |-> i] :
                                          i \in {x \in done : x > c0.ap[n]}}]
      \* a confirmation counts for a read if the acknowledged request was sent after the read arrived
      c2 == [c1 EXCEPT !.pr[n] = {IF okv /\ m \notin r.old THEN [r EXCEPT !.conf = @ \cup {m.from}] ELSE r : r \in @},
                       !.lease[n] = IF qc THEN TRUE ELSE @]
      lim == IF "M_NoApplyGate" \in Dev THEN s1.commit ELSE c2.ap[n]
      R  == IF ~qc THEN {}
            ELSE {r \in c2.pr[n] : r.ridx <= lim /\ ("AnyAckConfirmsReads" \in Dev \/ Confirmed(r, n))}
  IN Serve(c2, n, R, c2.ap[n])

\* the acknowledgement of a request that was in flight when a read arrived is as old as the request
AfterAE(m, ar) ==
  LET s1 == Persist(WithCfg(m.to, ns[m.to], HandleAE_State(ns[m.to], m)))   \* = ns'[m.to] (DEngine!DeliverAE)
      c0 == Normalise(cs, ns, [ns EXCEPT ![m.to] = s1])
  IN [c0 EXCEPT !.pr = [n \in Node |-> {IF m \in r.old THEN [r EXCEPT !.old = @ \cup {ar}] ELSE r : r \in @[n]}]]

AfterWrite(n) ==
  LET c0 == cs                                \* the leader stays leader
      i  == LastIdx(ns[n].log) + 1
      \* single-voter leader: committed by its own flush; the answer still waits for the apply
  IN [c0 EXCEPT !.pw[n] = @ \cup {i}]

ArOf(m) == LET r == HandleAE_Resp(ns[m.to], m)
           IN [ty |-> "AR", from |-> m.to, to |-> m.from, kind |-> r.kind, t |-> r.t,
               mi |-> r.mi, mt |-> r.mt, ct |-> r.ct, ci |-> r.ci]

NextC ==
  \/ \E m \in msgs : DeliverAR(m) /\ cs' = AfterAR(m)
  \/ \E m \in msgs : DeliverAE(m, FALSE) /\ cs' = AfterAE(m, ArOf(m))
  \/ ("Client" \in Faults /\ \E n \in Node : ClientWrite(n, "v") /\ cs' = AfterWrite(n))
  \/ /\ \/ \E n \in Node : Timeout(n) \/ StartRound(n) \/ FinishRound(n)
        \/ \E m \in msgs : DeliverVQ(m, FALSE)
        \/ ("Dup" \in Faults /\ mon.drops < MaxDrop /\ \E m \in msgs : DeliverVQ(m, TRUE))
        \/ ("Drop" \in Faults /\ \E m \in msgs : DropVQ(m) \/ DropMsg(m))
        \/ ("Heartbeat" \in Faults /\ \E n \in Node : Heartbeat(n))
        \/ ("Crash" \in Faults /\ \E n \in Node : Crash(n) \/ Restart(n))
        \/ ("Stop" \in Faults /\ \E n \in Node : Stop(n) \/ Restart(n))
     /\ cs' = Normalise(cs, ns, ns')
  \/ \E n \in Node : Apply(n) \/ ReadLin(n)
  \/ LeaseExpire

SpecC == InitC /\ [][NextC]_cvars

\* Invariants -------------------------------------------------------------------------------
\* C11 / C10: a linearizable read is answered from a state that contains every write acknowledged before it arrived
R_NoStaleRead == \A b \in cs.bad : b.k # "stale-read"
\* C29: a write is acknowledged only when the leader has applied it
R_AckAfterApply == \A b \in cs.bad : b.k # "ack-before-apply"
\* C10: an acknowledged write is committed (and therefore, by C05, in the log of every later leader)
R_AckedIsCommitted == \A i \in 1..cs.ackMax : \E c \in mon.committed : c.i = i
\* the same from the state alone (for configurations whose VIEW leaves mon out; no crashes there)
R_AckedIsCommittedS == \A i \in 1..cs.ackMax : \E n \in Node : ns[n].up /\ ns[n].commit >= i
\* C06: no state machine is ahead of its node's commit index
R_ApplyBehindCommit == \A n \in Node : ns[n].up => cs.ap[n] <= ns[n].commit

EmitC == (Len(hist) = EmitDepth) => PrintT(<<"REPLAY", ToJson(hist)>>)
=============================================================================
