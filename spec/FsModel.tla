------------------------------- MODULE FsModel -------------------------------
(***************************************************************************)
(* A small model of one directory of a POSIX file system with a page-cache *)
(* / stable-storage split, used as the environment of the storage specs    *)
(* (MetaStore.tla, MetaStoreTrace.tla).                                    *)
(*                                                                         *)
(* fs = [ns, dns, cache, disk, next]                                       *)
(*   ns    : name -> inode            what a running system sees            *)
(*   dns   : name -> inode            directory entries on stable storage   *)
(*   cache : inode -> content         what was written (page cache)         *)
(*   disk  : inode -> content         what fsync made stable                *)
(* A content is a sequence (of bytes / cells).                              *)
(*                                                                         *)
(* Process crash: every completed system call survives: the image is       *)
(* name -> cache[ns[name]].                                                *)
(* Power loss: only what was fsync'ed is guaranteed: directory entries of  *)
(* dns with the stable content of their inode; data written after the last *)
(* fsync of an inode may additionally survive in part (any prefix of the   *)
(* bytes appended since then: torn write).                                 *)
(***************************************************************************)
EXTENDS Integers, Sequences, FiniteSets, TLC

EmptyFs == [ns |-> <<>>, dns |-> <<>>, cache |-> <<>>, disk |-> <<>>, next |-> 1]
    \* <<>> is the function with empty domain

Has(f, k) == k \in DOMAIN f
Put(f, k, v) == [x \in (DOMAIN f) \cup {k} |-> IF x = k THEN v ELSE f[x]]
Del(f, k) == [x \in (DOMAIN f) \ {k} |-> f[x]]

\* open(name, O_CREAT?, O_TRUNC?)
FsOpen(fs, name, creat, trunc) ==
  IF Has(fs.ns, name)
  THEN IF trunc THEN [fs EXCEPT !.cache = Put(fs.cache, fs.ns[name], <<>>)] ELSE fs
  ELSE IF creat
       THEN [fs EXCEPT !.ns = Put(fs.ns, name, fs.next),
                       !.cache = Put(fs.cache, fs.next, <<>>),
                       !.next = fs.next + 1]
       ELSE fs

WriteAt(c, off, d) ==
  LET n == IF off + Len(d) > Len(c) THEN off + Len(d) ELSE Len(c)
  IN [k \in 1..n |-> IF k > off /\ k <= off + Len(d) THEN d[k - off]
                     ELSE IF k <= Len(c) THEN c[k] ELSE 0]

\* write(fd of name, data) at offset off
FsWrite(fs, name, off, d) ==
  IF Has(fs.ns, name)
  THEN [fs EXCEPT !.cache = Put(fs.cache, fs.ns[name], WriteAt(fs.cache[fs.ns[name]], off, d))]
  ELSE fs

FsTruncate(fs, name, len) ==
  IF Has(fs.ns, name)
  THEN LET c == fs.cache[fs.ns[name]]
       IN [fs EXCEPT !.cache = Put(fs.cache, fs.ns[name],
                                   [k \in 1..len |-> IF k <= Len(c) THEN c[k] ELSE 0])]
  ELSE fs

\* fsync / fdatasync of a file: its content becomes stable (not its directory entry)
FsFsync(fs, name) ==
  IF Has(fs.ns, name)
  THEN [fs EXCEPT !.disk = Put(fs.disk, fs.ns[name], fs.cache[fs.ns[name]])]
  ELSE fs

\* fsync of the directory: the current directory entries become stable
FsFsyncDir(fs) == [fs EXCEPT !.dns = fs.ns]

FsRename(fs, a, b) ==
  IF Has(fs.ns, a) THEN [fs EXCEPT !.ns = Del(Put(fs.ns, b, fs.ns[a]), a)] ELSE fs

FsUnlink(fs, a) == IF Has(fs.ns, a) THEN [fs EXCEPT !.ns = Del(fs.ns, a)] ELSE fs

-----------------------------------------------------------------------------
ProcImage(fs) == [n \in DOMAIN fs.ns |-> fs.cache[fs.ns[n]]]

StableOf(fs, ino) == IF Has(fs.disk, ino) THEN fs.disk[ino] ELSE <<>>

IsPrefix(a, b) == Len(a) <= Len(b) /\ \A k \in 1..Len(a) : a[k] = b[k]

\* contents an inode may show after power loss: the stable one, or (if the cache extends it)
\* the stable one plus a prefix of what was appended since
PowerContents(fs, ino) ==
  LET s == StableOf(fs, ino)
      c == fs.cache[ino]
  IN IF IsPrefix(s, c) THEN {SubSeq(c, 1, n) : n \in Len(s)..Len(c)} ELSE {s}

\* the strict image: stable entries with stable contents
StrictPowerImage(fs) == [n \in DOMAIN fs.dns |-> StableOf(fs, fs.dns[n])]

\* all power-loss images
PowerImages(fs) ==
  {img \in [DOMAIN fs.dns -> UNION {PowerContents(fs, fs.dns[n]) : n \in DOMAIN fs.dns}] :
      \A n \in DOMAIN fs.dns : img[n] \in PowerContents(fs, fs.dns[n])}
=============================================================================
