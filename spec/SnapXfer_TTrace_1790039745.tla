---- MODULE SnapXfer_TTrace_1790039745 ----
EXTENDS Sequences, TLCExt, Toolbox, Naturals, TLC, SnapXfer

_expression ==
    LET SnapXfer_TEExpression == INSTANCE SnapXfer_TEExpression
    IN SnapXfer_TEExpression!expression
----

_trace ==
    LET SnapXfer_TETrace == INSTANCE SnapXfer_TETrace
    IN SnapXfer_TETrace!trace
----

_inv ==
    ~(
        TLCGet("level") = Len(_TETrace)
        /\
        cur = ([leader |-> 1, term |-> 2, snap |-> "A", meta |-> TRUE, total |-> 2, k |-> "c", id |-> 0, seq |-> 0, ok |-> TRUE])
        /\
        tcheck = (<<2, 1>>)
        /\
        log = (<<>>)
        /\
        used = (1)
        /\
        result = ("none")
        /\
        total = (2)
        /\
        pos = (2)
        /\
        stream = (<<[leader |-> 1, term |-> 2, snap |-> "A", meta |-> TRUE, total |-> 2, k |-> "c", id |-> 0, seq |-> 0, ok |-> TRUE]>>)
        /\
        tmp = (<<>>)
        /\
        sm0 = ("old")
        /\
        sm = ("old")
        /\
        phase = ("run")
        /\
        att = (1)
        /\
        nOf = ([A |-> 2, B |-> 0])
        /\
        crashAt = (<<>>)
        /\
        expected = (1)
        /\
        acks = (<<[seq |-> 0, status |-> "Accepted", next |-> 1]>>)
        /\
        profile = (<<[sm |-> "old", files |-> [prev |-> "ok", A |-> "absent", B |-> "absent"]], [sm |-> "old", files |-> [prev |-> "ok", A |-> "bad", B |-> "absent"]]>>)
        /\
        received = (1)
        /\
        n = (2)
        /\
        labels = (<<[i |-> 2, f |-> "drop"]>>)
        /\
        pc = ("unpack")
        /\
        finals = ([prev |-> <<"p">>, A |-> <<<<"A", 0>>>>, B |-> <<>>])
        /\
        meta = (TRUE)
        /\
        finals0 = ([prev |-> <<"p">>, A |-> <<>>, B |-> <<>>])
        /\
        closed = (TRUE)
        /\
        snap = ("A")
    )
----

_init ==
    /\ phase = _TETrace[1].phase
    /\ expected = _TETrace[1].expected
    /\ att = _TETrace[1].att
    /\ cur = _TETrace[1].cur
    /\ tmp = _TETrace[1].tmp
    /\ tcheck = _TETrace[1].tcheck
    /\ snap = _TETrace[1].snap
    /\ log = _TETrace[1].log
    /\ n = _TETrace[1].n
    /\ pos = _TETrace[1].pos
    /\ pc = _TETrace[1].pc
    /\ acks = _TETrace[1].acks
    /\ meta = _TETrace[1].meta
    /\ sm0 = _TETrace[1].sm0
    /\ sm = _TETrace[1].sm
    /\ used = _TETrace[1].used
    /\ finals0 = _TETrace[1].finals0
    /\ nOf = _TETrace[1].nOf
    /\ received = _TETrace[1].received
    /\ labels = _TETrace[1].labels
    /\ profile = _TETrace[1].profile
    /\ result = _TETrace[1].result
    /\ crashAt = _TETrace[1].crashAt
    /\ total = _TETrace[1].total
    /\ closed = _TETrace[1].closed
    /\ finals = _TETrace[1].finals
    /\ stream = _TETrace[1].stream
----

_next ==
    /\ \E i,j \in DOMAIN _TETrace:
        /\ \/ /\ j = i + 1
              /\ i = TLCGet("level")
        /\ phase  = _TETrace[i].phase
        /\ phase' = _TETrace[j].phase
        /\ expected  = _TETrace[i].expected
        /\ expected' = _TETrace[j].expected
        /\ att  = _TETrace[i].att
        /\ att' = _TETrace[j].att
        /\ cur  = _TETrace[i].cur
        /\ cur' = _TETrace[j].cur
        /\ tmp  = _TETrace[i].tmp
        /\ tmp' = _TETrace[j].tmp
        /\ tcheck  = _TETrace[i].tcheck
        /\ tcheck' = _TETrace[j].tcheck
        /\ snap  = _TETrace[i].snap
        /\ snap' = _TETrace[j].snap
        /\ log  = _TETrace[i].log
        /\ log' = _TETrace[j].log
        /\ n  = _TETrace[i].n
        /\ n' = _TETrace[j].n
        /\ pos  = _TETrace[i].pos
        /\ pos' = _TETrace[j].pos
        /\ pc  = _TETrace[i].pc
        /\ pc' = _TETrace[j].pc
        /\ acks  = _TETrace[i].acks
        /\ acks' = _TETrace[j].acks
        /\ meta  = _TETrace[i].meta
        /\ meta' = _TETrace[j].meta
        /\ sm0  = _TETrace[i].sm0
        /\ sm0' = _TETrace[j].sm0
        /\ sm  = _TETrace[i].sm
        /\ sm' = _TETrace[j].sm
        /\ used  = _TETrace[i].used
        /\ used' = _TETrace[j].used
        /\ finals0  = _TETrace[i].finals0
        /\ finals0' = _TETrace[j].finals0
        /\ nOf  = _TETrace[i].nOf
        /\ nOf' = _TETrace[j].nOf
        /\ received  = _TETrace[i].received
        /\ received' = _TETrace[j].received
        /\ labels  = _TETrace[i].labels
        /\ labels' = _TETrace[j].labels
        /\ profile  = _TETrace[i].profile
        /\ profile' = _TETrace[j].profile
        /\ result  = _TETrace[i].result
        /\ result' = _TETrace[j].result
        /\ crashAt  = _TETrace[i].crashAt
        /\ crashAt' = _TETrace[j].crashAt
        /\ total  = _TETrace[i].total
        /\ total' = _TETrace[j].total
        /\ closed  = _TETrace[i].closed
        /\ closed' = _TETrace[j].closed
        /\ finals  = _TETrace[i].finals
        /\ finals' = _TETrace[j].finals
        /\ stream  = _TETrace[i].stream
        /\ stream' = _TETrace[j].stream

\* Uncomment the ASSUME below to write the states of the error trace
\* to the given file in Json format. Note that you can pass any tuple
\* to `JsonSerialize`. For example, a sub-sequence of _TETrace.
    \* ASSUME
    \*     LET J == INSTANCE Json
    \*         IN J!JsonSerialize("SnapXfer_TTrace_1790039745.json", _TETrace)

=============================================================================

 Note that you can extract this module `SnapXfer_TEExpression`
  to a dedicated file to reuse `expression` (the module in the 
  dedicated `SnapXfer_TEExpression.tla` file takes precedence 
  over the module `SnapXfer_TEExpression` below).

---- MODULE SnapXfer_TEExpression ----
EXTENDS Sequences, TLCExt, Toolbox, Naturals, TLC, SnapXfer

expression == 
    [
        \* To hide variables of the `SnapXfer` spec from the error trace,
        \* remove the variables below.  The trace will be written in the order
        \* of the fields of this record.
        phase |-> phase
        ,expected |-> expected
        ,att |-> att
        ,cur |-> cur
        ,tmp |-> tmp
        ,tcheck |-> tcheck
        ,snap |-> snap
        ,log |-> log
        ,n |-> n
        ,pos |-> pos
        ,pc |-> pc
        ,acks |-> acks
        ,meta |-> meta
        ,sm0 |-> sm0
        ,sm |-> sm
        ,used |-> used
        ,finals0 |-> finals0
        ,nOf |-> nOf
        ,received |-> received
        ,labels |-> labels
        ,profile |-> profile
        ,result |-> result
        ,crashAt |-> crashAt
        ,total |-> total
        ,closed |-> closed
        ,finals |-> finals
        ,stream |-> stream
        
        \* Put additional constant-, state-, and action-level expressions here:
        \* ,_stateNumber |-> _TEPosition
        \* ,_phaseUnchanged |-> phase = phase'
        
        \* Format the `phase` variable as Json value.
        \* ,_phaseJson |->
        \*     LET J == INSTANCE Json
        \*     IN J!ToJson(phase)
        
        \* Lastly, you may build expressions over arbitrary sets of states by
        \* leveraging the _TETrace operator.  For example, this is how to
        \* count the number of times a spec variable changed up to the current
        \* state in the trace.
        \* ,_phaseModCount |->
        \*     LET F[s \in DOMAIN _TETrace] ==
        \*         IF s = 1 THEN 0
        \*         ELSE IF _TETrace[s].phase # _TETrace[s-1].phase
        \*             THEN 1 + F[s-1] ELSE F[s-1]
        \*     IN F[_TEPosition - 1]
    ]

=============================================================================



Parsing and semantic processing can take forever if the trace below is long.
 In this case, it is advised to uncomment the module below to deserialize the
 trace from a generated binary file.

\*
\*---- MODULE SnapXfer_TETrace ----
\*EXTENDS IOUtils, TLC, SnapXfer
\*
\*trace == IODeserialize("SnapXfer_TTrace_1790039745.bin", TRUE)
\*
\*=============================================================================
\*

---- MODULE SnapXfer_TETrace ----
EXTENDS TLC, SnapXfer

trace == 
    <<
    ([cur |-> [leader |-> 0, term |-> 0, snap |-> "-", meta |-> FALSE, total |-> 0, k |-> "gap", id |-> 0, seq |-> 0, ok |-> TRUE],tcheck |-> <<>>,log |-> <<>>,used |-> 0,result |-> "none",total |-> 0,pos |-> 1,stream |-> <<>>,tmp |-> <<>>,sm0 |-> "old",sm |-> "old",phase |-> "pick",att |-> 1,nOf |-> [A |-> 0, B |-> 0],crashAt |-> <<>>,expected |-> 0,acks |-> <<>>,profile |-> <<>>,received |-> 0,n |-> 0,labels |-> <<>>,pc |-> "open",finals |-> [prev |-> <<"p">>, A |-> <<>>, B |-> <<>>],meta |-> FALSE,finals0 |-> [prev |-> <<"p">>, A |-> <<>>, B |-> <<>>],closed |-> FALSE,snap |-> "A"]),
    ([cur |-> [leader |-> 0, term |-> 0, snap |-> "-", meta |-> FALSE, total |-> 0, k |-> "gap", id |-> 0, seq |-> 0, ok |-> TRUE],tcheck |-> <<>>,log |-> <<>>,used |-> 0,result |-> "none",total |-> 0,pos |-> 1,stream |-> <<[leader |-> 1, term |-> 2, snap |-> "A", meta |-> TRUE, total |-> 2, k |-> "c", id |-> 0, seq |-> 0, ok |-> TRUE], [leader |-> 1, term |-> 2, snap |-> "A", meta |-> FALSE, total |-> 2, k |-> "c", id |-> 1, seq |-> 1, ok |-> TRUE]>>,tmp |-> <<>>,sm0 |-> "old",sm |-> "old",phase |-> "edit",att |-> 1,nOf |-> [A |-> 2, B |-> 0],crashAt |-> <<>>,expected |-> 0,acks |-> <<>>,profile |-> <<>>,received |-> 0,n |-> 2,labels |-> <<>>,pc |-> "open",finals |-> [prev |-> <<"p">>, A |-> <<>>, B |-> <<>>],meta |-> FALSE,finals0 |-> [prev |-> <<"p">>, A |-> <<>>, B |-> <<>>],closed |-> FALSE,snap |-> "A"]),
    ([cur |-> [leader |-> 0, term |-> 0, snap |-> "-", meta |-> FALSE, total |-> 0, k |-> "gap", id |-> 0, seq |-> 0, ok |-> TRUE],tcheck |-> <<>>,log |-> <<>>,used |-> 1,result |-> "none",total |-> 0,pos |-> 1,stream |-> <<[leader |-> 1, term |-> 2, snap |-> "A", meta |-> TRUE, total |-> 2, k |-> "c", id |-> 0, seq |-> 0, ok |-> TRUE]>>,tmp |-> <<>>,sm0 |-> "old",sm |-> "old",phase |-> "edit",att |-> 1,nOf |-> [A |-> 2, B |-> 0],crashAt |-> <<>>,expected |-> 0,acks |-> <<>>,profile |-> <<>>,received |-> 0,n |-> 2,labels |-> <<[i |-> 2, f |-> "drop"]>>,pc |-> "open",finals |-> [prev |-> <<"p">>, A |-> <<>>, B |-> <<>>],meta |-> FALSE,finals0 |-> [prev |-> <<"p">>, A |-> <<>>, B |-> <<>>],closed |-> FALSE,snap |-> "A"]),
    ([cur |-> [leader |-> 0, term |-> 0, snap |-> "-", meta |-> FALSE, total |-> 0, k |-> "gap", id |-> 0, seq |-> 0, ok |-> TRUE],tcheck |-> <<>>,log |-> <<>>,used |-> 1,result |-> "none",total |-> 0,pos |-> 1,stream |-> <<[leader |-> 1, term |-> 2, snap |-> "A", meta |-> TRUE, total |-> 2, k |-> "c", id |-> 0, seq |-> 0, ok |-> TRUE]>>,tmp |-> <<>>,sm0 |-> "old",sm |-> "old",phase |-> "run",att |-> 1,nOf |-> [A |-> 2, B |-> 0],crashAt |-> <<>>,expected |-> 0,acks |-> <<>>,profile |-> <<[sm |-> "old", files |-> [prev |-> "ok", A |-> "absent", B |-> "absent"]]>>,received |-> 0,n |-> 2,labels |-> <<[i |-> 2, f |-> "drop"]>>,pc |-> "open",finals |-> [prev |-> <<"p">>, A |-> <<>>, B |-> <<>>],meta |-> FALSE,finals0 |-> [prev |-> <<"p">>, A |-> <<>>, B |-> <<>>],closed |-> FALSE,snap |-> "A"]),
    ([cur |-> [leader |-> 0, term |-> 0, snap |-> "-", meta |-> FALSE, total |-> 0, k |-> "gap", id |-> 0, seq |-> 0, ok |-> TRUE],tcheck |-> <<>>,log |-> <<>>,used |-> 1,result |-> "none",total |-> 0,pos |-> 1,stream |-> <<[leader |-> 1, term |-> 2, snap |-> "A", meta |-> TRUE, total |-> 2, k |-> "c", id |-> 0, seq |-> 0, ok |-> TRUE]>>,tmp |-> <<>>,sm0 |-> "old",sm |-> "old",phase |-> "run",att |-> 1,nOf |-> [A |-> 2, B |-> 0],crashAt |-> <<>>,expected |-> 0,acks |-> <<>>,profile |-> <<[sm |-> "old", files |-> [prev |-> "ok", A |-> "absent", B |-> "absent"]]>>,received |-> 0,n |-> 2,labels |-> <<[i |-> 2, f |-> "drop"]>>,pc |-> "recv",finals |-> [prev |-> <<"p">>, A |-> <<>>, B |-> <<>>],meta |-> FALSE,finals0 |-> [prev |-> <<"p">>, A |-> <<>>, B |-> <<>>],closed |-> FALSE,snap |-> "A"]),
    ([cur |-> [leader |-> 1, term |-> 2, snap |-> "A", meta |-> TRUE, total |-> 2, k |-> "c", id |-> 0, seq |-> 0, ok |-> TRUE],tcheck |-> <<2, 1>>,log |-> <<>>,used |-> 1,result |-> "none",total |-> 2,pos |-> 2,stream |-> <<[leader |-> 1, term |-> 2, snap |-> "A", meta |-> TRUE, total |-> 2, k |-> "c", id |-> 0, seq |-> 0, ok |-> TRUE]>>,tmp |-> <<>>,sm0 |-> "old",sm |-> "old",phase |-> "run",att |-> 1,nOf |-> [A |-> 2, B |-> 0],crashAt |-> <<>>,expected |-> 0,acks |-> <<>>,profile |-> <<[sm |-> "old", files |-> [prev |-> "ok", A |-> "absent", B |-> "absent"]]>>,received |-> 0,n |-> 2,labels |-> <<[i |-> 2, f |-> "drop"]>>,pc |-> "write",finals |-> [prev |-> <<"p">>, A |-> <<>>, B |-> <<>>],meta |-> TRUE,finals0 |-> [prev |-> <<"p">>, A |-> <<>>, B |-> <<>>],closed |-> FALSE,snap |-> "A"]),
    ([cur |-> [leader |-> 1, term |-> 2, snap |-> "A", meta |-> TRUE, total |-> 2, k |-> "c", id |-> 0, seq |-> 0, ok |-> TRUE],tcheck |-> <<2, 1>>,log |-> <<>>,used |-> 1,result |-> "none",total |-> 2,pos |-> 2,stream |-> <<[leader |-> 1, term |-> 2, snap |-> "A", meta |-> TRUE, total |-> 2, k |-> "c", id |-> 0, seq |-> 0, ok |-> TRUE]>>,tmp |-> <<<<"A", 0>>>>,sm0 |-> "old",sm |-> "old",phase |-> "run",att |-> 1,nOf |-> [A |-> 2, B |-> 0],crashAt |-> <<>>,expected |-> 1,acks |-> <<>>,profile |-> <<[sm |-> "old", files |-> [prev |-> "ok", A |-> "absent", B |-> "absent"]]>>,received |-> 1,n |-> 2,labels |-> <<[i |-> 2, f |-> "drop"]>>,pc |-> "ack",finals |-> [prev |-> <<"p">>, A |-> <<>>, B |-> <<>>],meta |-> TRUE,finals0 |-> [prev |-> <<"p">>, A |-> <<>>, B |-> <<>>],closed |-> FALSE,snap |-> "A"]),
    ([cur |-> [leader |-> 1, term |-> 2, snap |-> "A", meta |-> TRUE, total |-> 2, k |-> "c", id |-> 0, seq |-> 0, ok |-> TRUE],tcheck |-> <<2, 1>>,log |-> <<>>,used |-> 1,result |-> "none",total |-> 2,pos |-> 2,stream |-> <<[leader |-> 1, term |-> 2, snap |-> "A", meta |-> TRUE, total |-> 2, k |-> "c", id |-> 0, seq |-> 0, ok |-> TRUE]>>,tmp |-> <<<<"A", 0>>>>,sm0 |-> "old",sm |-> "old",phase |-> "run",att |-> 1,nOf |-> [A |-> 2, B |-> 0],crashAt |-> <<>>,expected |-> 1,acks |-> <<[seq |-> 0, status |-> "Accepted", next |-> 1]>>,profile |-> <<[sm |-> "old", files |-> [prev |-> "ok", A |-> "absent", B |-> "absent"]]>>,received |-> 1,n |-> 2,labels |-> <<[i |-> 2, f |-> "drop"]>>,pc |-> "recv",finals |-> [prev |-> <<"p">>, A |-> <<>>, B |-> <<>>],meta |-> TRUE,finals0 |-> [prev |-> <<"p">>, A |-> <<>>, B |-> <<>>],closed |-> FALSE,snap |-> "A"]),
    ([cur |-> [leader |-> 1, term |-> 2, snap |-> "A", meta |-> TRUE, total |-> 2, k |-> "c", id |-> 0, seq |-> 0, ok |-> TRUE],tcheck |-> <<2, 1>>,log |-> <<>>,used |-> 1,result |-> "none",total |-> 2,pos |-> 2,stream |-> <<[leader |-> 1, term |-> 2, snap |-> "A", meta |-> TRUE, total |-> 2, k |-> "c", id |-> 0, seq |-> 0, ok |-> TRUE]>>,tmp |-> <<<<"A", 0>>>>,sm0 |-> "old",sm |-> "old",phase |-> "run",att |-> 1,nOf |-> [A |-> 2, B |-> 0],crashAt |-> <<>>,expected |-> 1,acks |-> <<[seq |-> 0, status |-> "Accepted", next |-> 1]>>,profile |-> <<[sm |-> "old", files |-> [prev |-> "ok", A |-> "absent", B |-> "absent"]]>>,received |-> 1,n |-> 2,labels |-> <<[i |-> 2, f |-> "drop"]>>,pc |-> "count",finals |-> [prev |-> <<"p">>, A |-> <<>>, B |-> <<>>],meta |-> TRUE,finals0 |-> [prev |-> <<"p">>, A |-> <<>>, B |-> <<>>],closed |-> TRUE,snap |-> "A"]),
    ([cur |-> [leader |-> 1, term |-> 2, snap |-> "A", meta |-> TRUE, total |-> 2, k |-> "c", id |-> 0, seq |-> 0, ok |-> TRUE],tcheck |-> <<2, 1>>,log |-> <<>>,used |-> 1,result |-> "none",total |-> 2,pos |-> 2,stream |-> <<[leader |-> 1, term |-> 2, snap |-> "A", meta |-> TRUE, total |-> 2, k |-> "c", id |-> 0, seq |-> 0, ok |-> TRUE]>>,tmp |-> <<<<"A", 0>>>>,sm0 |-> "old",sm |-> "old",phase |-> "run",att |-> 1,nOf |-> [A |-> 2, B |-> 0],crashAt |-> <<>>,expected |-> 1,acks |-> <<[seq |-> 0, status |-> "Accepted", next |-> 1]>>,profile |-> <<[sm |-> "old", files |-> [prev |-> "ok", A |-> "absent", B |-> "absent"]]>>,received |-> 1,n |-> 2,labels |-> <<[i |-> 2, f |-> "drop"]>>,pc |-> "rename",finals |-> [prev |-> <<"p">>, A |-> <<>>, B |-> <<>>],meta |-> TRUE,finals0 |-> [prev |-> <<"p">>, A |-> <<>>, B |-> <<>>],closed |-> TRUE,snap |-> "A"]),
    ([cur |-> [leader |-> 1, term |-> 2, snap |-> "A", meta |-> TRUE, total |-> 2, k |-> "c", id |-> 0, seq |-> 0, ok |-> TRUE],tcheck |-> <<2, 1>>,log |-> <<>>,used |-> 1,result |-> "none",total |-> 2,pos |-> 2,stream |-> <<[leader |-> 1, term |-> 2, snap |-> "A", meta |-> TRUE, total |-> 2, k |-> "c", id |-> 0, seq |-> 0, ok |-> TRUE]>>,tmp |-> <<>>,sm0 |-> "old",sm |-> "old",phase |-> "run",att |-> 1,nOf |-> [A |-> 2, B |-> 0],crashAt |-> <<>>,expected |-> 1,acks |-> <<[seq |-> 0, status |-> "Accepted", next |-> 1]>>,profile |-> <<[sm |-> "old", files |-> [prev |-> "ok", A |-> "absent", B |-> "absent"]], [sm |-> "old", files |-> [prev |-> "ok", A |-> "bad", B |-> "absent"]]>>,received |-> 1,n |-> 2,labels |-> <<[i |-> 2, f |-> "drop"]>>,pc |-> "unpack",finals |-> [prev |-> <<"p">>, A |-> <<<<"A", 0>>>>, B |-> <<>>],meta |-> TRUE,finals0 |-> [prev |-> <<"p">>, A |-> <<>>, B |-> <<>>],closed |-> TRUE,snap |-> "A"])
    >>
----


=============================================================================

---- CONFIG SnapXfer_TTrace_1790039745 ----
CONSTANTS
    MaxChunks = 3
    MaxFaults = 2
    Kinds = { "drop" , "dup" , "swap" , "corrupt" , "leader" , "term" , "nometa" , "close" , "gap" , "crash" }
    Attempts = 2
    Dev = { "NoCountCheck" }
    EmitOn = FALSE

INVARIANT
    _inv

CHECK_DEADLOCK
    \* CHECK_DEADLOCK off because of PROPERTY or INVARIANT above.
    FALSE

INIT
    _init

NEXT
    _next

CONSTANT
    _TETrace <- _trace

ALIAS
    _expression
=============================================================================
\* Generated on Tue Sep 22 01:15:47 UTC 2026