------------------------------- MODULE BufLog -------------------------------
(***************************************************************************)
(* Reference semantics of the Raft log API (`RaftLog` trait of d-engine,   *)
(* implemented by `BufferedRaftLog`): a PLAIN indexed log = purge boundary *)
(* `base` + contiguous sequence of entries, with the Raft rules for        *)
(*   - leader append            (pre_allocate_id_range + insert_batch)      *)
(*   - conflict-aware append    (filter_out_conflicts_and_append)           *)
(*   - purge up to a log id     (purge_logs_up_to)                          *)
(*   - reset                                                               *)
(* and the answers of every query of the API (C19).                        *)
(*                                                                         *)
(* Inputs are drawn from a Raft-consistent UNIVERSE of entries: the set of *)
(* all entries ever created in a cluster is a tree keyed by (index, term)  *)
(* (Log Matching: an entry determines its whole prefix) in which the       *)
(* entries of one term form one chain (one leader per term, leaders only   *)
(* append).  Every log and every AppendEntries request is a slice of a     *)
(* root path of that tree.  TLC enumerates all such universes over         *)
(* 1..MaxIdx x 1..MaxTerm and, per universe, the complete graph of plain-  *)
(* log states and operations; every state carries the expected answer of   *)
(* every query, every edge the operation, its arguments and its result.    *)
(* The harness (dv-store buflog) walks all paths of that graph up to a     *)
(* depth on the real BufferedRaftLog (its TermSegments / term index maps   *)
(* are hidden state that depends on the path, not on the abstract state).  *)
(***************************************************************************)
EXTENDS Integers, Sequences, FiniteSets, TLC, Json

CONSTANTS MaxIdx,      \* indexes 1..MaxIdx
          MaxTerm,     \* terms 1..MaxTerm
          MaxLApp,     \* a leader append adds 1..MaxLApp entries
          Emit         \* TRUE: print the graph (states with expected answers, labelled edges)

VARIABLES u,           \* the universe (constant along a behaviour)
          base,        \* purge boundary [i, t]; i = 0: never purged
          lg,          \* sequence of terms; entry k has index base.i + k
          st           \* what this node knows about each term: 0 = nothing yet, -1 = another node
                       \* leads / led it, k > 0 = this node led it and created its entries up to k

vars == <<u, base, lg, st>>

Terms == 1..MaxTerm
Idx   == 1..MaxIdx
None  == [i |-> 0, t |-> 0]          \* absent log id; 0 also encodes an absent index / term

Min(S) == CHOOSE x \in S : \A y \in S : x <= y
Max(S) == CHOOSE x \in S : \A y \in S : x >= y

-----------------------------------------------------------------------------
(* Universe: chain of term t = nodes (start[t], t), (start[t]+1, t), ...;   *)
(* its first node hangs below (start[t]-1, par[t]) or below the root.       *)
Universes ==
  {w \in [start : [Terms -> Idx], par : [Terms -> 0..MaxTerm]] :
     \A t \in Terms :
        /\ (w.start[t] = 1) => (w.par[t] = 0)
        /\ (w.start[t] > 1) => /\ w.par[t] \in 1..(t - 1)
                               /\ w.start[w.par[t]] <= w.start[t] - 1}

IsNode(w, i, t) == t \in Terms /\ i \in Idx /\ i >= w.start[t]

RECURSIVE PT(_, _, _)
\* term at index j on the root path of a node of term t (j <= that node's index)
PT(w, t, j) == IF j >= w.start[t] THEN t ELSE PT(w, w.par[t], j)

Parent(w, i, t) == IF i > w.start[t] THEN [i |-> i - 1, t |-> t]
                   ELSE IF i = 1 THEN None
                   ELSE [i |-> i - 1, t |-> w.par[t]]

\* entries p+1 .. i of the root path of node (i, t), as [i, t] records
Slice(w, i, t, p) == [k \in 1..(i - p) |-> [i |-> p + k, t |-> PT(w, t, p + k)]]

-----------------------------------------------------------------------------
(* Queries of the plain log (pure operators over base b and term list l)    *)
First(b, l)  == IF l = <<>> THEN 0 ELSE b.i + 1
Last(b, l)   == IF l = <<>> THEN 0 ELSE b.i + Len(l)
Has(b, l, i) == l # <<>> /\ i > b.i /\ i <= b.i + Len(l)
\* last log id: last entry, else the purge boundary (None if never purged)
LastId(b, l) == IF l # <<>> THEN [i |-> b.i + Len(l), t |-> l[Len(l)]] ELSE b
\* term of an entry; the purge boundary still answers for its own index
ETerm(b, l, i) == IF Has(b, l, i) THEN l[i - b.i]
                  ELSE IF b.i > 0 /\ i = b.i THEN b.t ELSE 0
IdxOfTerm(b, l, t) == {i \in (b.i + 1)..(b.i + Len(l)) : l[i - b.i] = t}
FirstOfTerm(b, l, t) == IF IdxOfTerm(b, l, t) = {} THEN 0 ELSE Min(IdxOfTerm(b, l, t))
LastOfTerm(b, l, t)  == IF IdxOfTerm(b, l, t) = {} THEN 0 ELSE Max(IdxOfTerm(b, l, t))
RECURSIVE RangeRead(_, _, _, _)
RangeRead(b, l, x, y) == IF x > y THEN <<>>
                         ELSE (IF Has(b, l, x) THEN <<[i |-> x, t |-> l[x - b.i]]>> ELSE <<>>)
                              \o RangeRead(b, l, x + 1, y)

LastE(es) == IF es = <<>> THEN None ELSE es[Len(es)]
TermsOf(es) == [k \in 1..Len(es) |-> es[k].t]

(* Operations: each yields [b, l, res]                                      *)
\* leader append of n entries of term t at the next index; res = id of the first new entry
NextIndex(b, l) == LastId(b, l).i + 1
LApp(b, l, t, n) == [b |-> b, l |-> l \o [k \in 1..n |-> t], res |-> [i |-> NextIndex(b, l), t |-> t]]

\* conflict-aware append (AppendEntries receiver rule, RaftLog trait contract):
\*  prev = (0,0): start from scratch;  prev does not match: reject, answer the local last id;
\*  otherwise keep the agreeing prefix of es, truncate at the first disagreeing index (if it
\*  exists locally), append the rest; answer the id of the last entry of es.
Foca(b, l, p, pt, es) ==
  IF p = 0 /\ pt = 0 THEN [b |-> None, l |-> TermsOf(es), res |-> LastE(es)]
  ELSE IF ETerm(b, l, p) # pt THEN [b |-> b, l |-> l, res |-> LastId(b, l)]
  ELSE LET C == {k \in 1..Len(es) : ~Has(b, l, es[k].i) \/ l[es[k].i - b.i] # es[k].t}
       IN IF C = {} THEN [b |-> b, l |-> l, res |-> LastE(es)]
          ELSE LET k == Min(C)
                   d == es[k].i
               IN [b |-> b,
                   l |-> SubSeq(l, 1, d - 1 - b.i) \o [j \in 1..(Len(es) - k + 1) |-> es[k + j - 1].t],
                   res |-> LastE(es)]

\* purge everything up to and including log id c; c becomes the boundary
Purge(b, l, c) == [b |-> c,
                   l |-> IF c.i >= b.i + Len(l) THEN <<>> ELSE SubSeq(l, c.i - b.i + 1, Len(l)),
                   res |-> None]

Reset(b, l) == [b |-> None, l |-> <<>>, res |-> None]

-----------------------------------------------------------------------------
(* Expected answers in a state (0 = None; sequences are shifted by one so   *)
(* that position k answers for argument k-1)                                *)
Obs(b, l) ==
  [first   |-> First(b, l),
   last    |-> Last(b, l),
   lastid  |-> LastId(b, l),
   empty   |-> (l = <<>>),
   eterm   |-> [k \in 1..(MaxIdx + 2) |-> ETerm(b, l, k - 1)],
   entry   |-> [k \in 1..(MaxIdx + 2) |-> IF Has(b, l, k - 1) THEN l[k - 1 - b.i] ELSE 0],
   firstof |-> [k \in 1..(MaxTerm + 2) |-> FirstOfTerm(b, l, k - 1)],
   lastof  |-> [k \in 1..(MaxTerm + 2) |-> LastOfTerm(b, l, k - 1)],
   range   |-> [x \in 1..(MaxIdx + 2) |-> [y \in 1..(MaxIdx + 2) |-> RangeRead(b, l, x - 1, y - 1)]]]

Key(w, b, l, s) == <<w.start, w.par, <<b.i, b.t>>, s, l>>

(* Which requests can reach this node in a run of Raft (input validity).  The node's current   *)
(* term is at least Cur = the highest term it has led or heard of.                             *)
Cur(s) == IF \A t \in Terms : s[t] = 0 THEN 0 ELSE Max({t \in Terms : s[t] # 0})
MaxTermOf(es) == Max({es[k].t : k \in 1..Len(es)})
\* term of the leader that sends entries es: not below Cur, not below any entry, not one of ours
SenderTerms(s, es) == {T \in Terms : T >= Cur(s) /\ T >= MaxTermOf(es) /\ s[T] <= 0}
\* entries of a term this node led exist only as far as this node created them
FromOthersOk(s, es) == /\ SenderTerms(s, es) # {}
                       /\ \A k \in 1..Len(es) : s[es[k].t] > 0 => es[k].i <= s[es[k].t]
AfterFromOthers(s, es) ==
  LET T == Min(SenderTerms(s, es))
  IN [t \in Terms |-> IF s[t] > 0 THEN s[t]
                      ELSE IF t = T \/ \E k \in 1..Len(es) : es[k].t = t THEN -1 ELSE s[t]]

-----------------------------------------------------------------------------
Init == /\ u \in Universes
        /\ base = None
        /\ lg = <<>>
        /\ st = [t \in Terms |-> 0]

Tip == LastId(base, lg)

Do(op, r, s) ==
  /\ u' = u
  /\ base' = r.b
  /\ lg' = r.l
  /\ st' = s
  /\ (Emit => PrintT(<<"EDGE", ToJson([f |-> Key(u, base, lg, st), op |-> op, res |-> r.res,
                                         t |-> Key(u, r.b, r.l, s)])>>))

\* this node, leader of term t, appends n entries to its log
LeaderAppend ==
  \E t \in Terms, n \in 1..MaxLApp :
     /\ Tip.i + n <= MaxIdx
     /\ IsNode(u, Tip.i + 1, t)
     /\ Parent(u, Tip.i + 1, t) = Tip
     /\ t >= Cur(st)
     /\ st[t] >= 0
     /\ (st[t] > 0) => (Tip = [i |-> st[t], t |-> t])
     /\ Do([k |-> "L", t |-> t, n |-> n], LApp(base, lg, t, n), [st EXCEPT ![t] = Tip.i + n])

\* an AppendEntries request carrying entries p+1..i of the root path of node (i,t)
ConflictAppend ==
  \E t \in Terms, i \in Idx :
     /\ IsNode(u, i, t)
     /\ \E p \in 0..(i - 1) :
          LET pt == IF p = 0 THEN 0 ELSE PT(u, t, p)
              es == Slice(u, i, t, p)
          IN /\ FromOthersOk(st, Slice(u, i, t, 0))
             /\ Do([k |-> "F", p |-> p, pt |-> pt, es |-> es], Foca(base, lg, p, pt, es),
                   AfterFromOthers(st, Slice(u, i, t, 0)))

\* purge up to a committed entry of the local log, or to the label of an installed snapshot
\* that is ahead of the local log (any entry of the universe)
PurgeTo ==
  \E t \in Terms, i \in Idx :
     /\ IsNode(u, i, t)
     /\ i > base.i
     /\ (i <= Tip.i) => (ETerm(base, lg, i) = t)
     /\ (i > Tip.i) => FromOthersOk(st, Slice(u, i, t, 0))
     /\ Do([k |-> "P", i |-> i, t |-> t], Purge(base, lg, [i |-> i, t |-> t]),
           IF i > Tip.i THEN AfterFromOthers(st, Slice(u, i, t, 0)) ELSE st)

ResetLog == Do([k |-> "R"], Reset(base, lg), st)

Next == LeaderAppend \/ ConflictAppend \/ PurgeTo \/ ResetLog

Spec == Init /\ [][Next]_vars

-----------------------------------------------------------------------------
(* Sanity of the reference itself (checked by TLC on the whole graph)       *)
TypeOK == /\ u \in Universes
          /\ base.i \in 0..MaxIdx /\ base.t \in 0..MaxTerm
          /\ Len(lg) <= MaxIdx - base.i
          /\ \A k \in 1..Len(lg) : lg[k] \in Terms
          /\ st \in [Terms -> -1..MaxIdx]

\* the local log is always a slice of a root path of the universe (so requests are valid
\* Raft inputs for it), in particular terms never decrease along the log
OnPath == /\ (base.i > 0) => IsNode(u, base.i, base.t)
          /\ (lg # <<>>) =>
                LET tp == Tip IN
                /\ IsNode(u, tp.i, tp.t)
                /\ \A k \in 1..Len(lg) : lg[k] = PT(u, tp.t, base.i + k)
                /\ (base.i > 0) => (PT(u, tp.t, base.i) = base.t)

\* query consistency of the reference (RaftLog trait "Safety Invariants")
QueriesConsistent ==
  /\ First(base, lg) <= Last(base, lg)
  /\ (lg = <<>>) <=> (First(base, lg) = 0)
  /\ \A t \in Terms : FirstOfTerm(base, lg, t) <= LastOfTerm(base, lg, t)
  /\ Len(RangeRead(base, lg, 0, MaxIdx + 1)) = Len(lg)

EmitState == Emit => PrintT(<<"STATE", ToJson([k |-> Key(u, base, lg, st), obs |-> Obs(base, lg)])>>)

=============================================================================
