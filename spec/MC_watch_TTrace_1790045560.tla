---- MODULE MC_watch_TTrace_1790045560 ----
EXTENDS Sequences, TLCExt, MC_watch, Toolbox, Naturals, TLC

_expression ==
    LET MC_watch_TEExpression == INSTANCE MC_watch_TEExpression
    IN MC_watch_TEExpression!expression
----

_trace ==
    LET MC_watch_TETrace == INSTANCE MC_watch_TETrace
    IN MC_watch_TETrace!trace
----

_inv ==
    ~(
        TLCGet("level") = Len(_TETrace)
        /\
        st = ([rev |-> 3, hist |-> <<[key |-> <<"a", "x">>, ty |-> "put", rev |-> 1], [key |-> <<"a", "x">>, ty |-> "put", rev |-> 2], [key |-> <<"a", "x">>, ty |-> "put", rev |-> 3]>>, bq |-> <<>>, lag |-> 0, lost |-> {1}, reg |-> {"w2"}, unregQ |-> <<>>, hb |-> FALSE, hbCount |-> 0, nops |-> 3, prog |-> 0, cl |-> [w1 |-> "none", w2 |-> "open"], tgt |-> [w1 |-> [kind |-> "none", path |-> <<>>], w2 |-> [kind |-> "prefix", path |-> <<"a">>]], regAt |-> [w1 |-> 0, w2 |-> 0], buf |-> [w1 |-> <<>>, w2 |-> <<>>], got |-> [w1 |-> <<>>, w2 |-> <<[key |-> <<"a", "x">>, ty |-> "put", rev |-> 2], [key |-> <<"a", "x">>, ty |-> "put", rev |-> 3]>>]])
        /\
        sched = (<<[w |-> "w2", t |-> [kind |-> "prefix", path |-> <<"a">>], a |-> "Register"], [ops |-> <<[c |-> "put", key |-> <<"a", "x">>, good |-> TRUE]>>, a |-> "Apply"], [ops |-> <<[c |-> "put", key |-> <<"a", "x">>, good |-> TRUE]>>, a |-> "Apply"], [ops |-> <<[c |-> "put", key |-> <<"a", "x">>, good |-> TRUE]>>, a |-> "Apply"], [a |-> "Disp"], [a |-> "Disp"], [w |-> "w2", a |-> "Recv"], [a |-> "Disp"], [w |-> "w2", a |-> "Recv"]>>)
    )
----

_init ==
    /\ sched = _TETrace[1].sched
    /\ st = _TETrace[1].st
----

_next ==
    /\ \E i,j \in DOMAIN _TETrace:
        /\ \/ /\ j = i + 1
              /\ i = TLCGet("level")
        /\ sched  = _TETrace[i].sched
        /\ sched' = _TETrace[j].sched
        /\ st  = _TETrace[i].st
        /\ st' = _TETrace[j].st

\* Uncomment the ASSUME below to write the states of the error trace
\* to the given file in Json format. Note that you can pass any tuple
\* to `JsonSerialize`. For example, a sub-sequence of _TETrace.
    \* ASSUME
    \*     LET J == INSTANCE Json
    \*         IN J!JsonSerialize("MC_watch_TTrace_1790045560.json", _TETrace)

=============================================================================

 Note that you can extract this module `MC_watch_TEExpression`
  to a dedicated file to reuse `expression` (the module in the 
  dedicated `MC_watch_TEExpression.tla` file takes precedence 
  over the module `MC_watch_TEExpression` below).

---- MODULE MC_watch_TEExpression ----
EXTENDS Sequences, TLCExt, MC_watch, Toolbox, Naturals, TLC

expression == 
    [
        \* To hide variables of the `MC_watch` spec from the error trace,
        \* remove the variables below.  The trace will be written in the order
        \* of the fields of this record.
        sched |-> sched
        ,st |-> st
        
        \* Put additional constant-, state-, and action-level expressions here:
        \* ,_stateNumber |-> _TEPosition
        \* ,_schedUnchanged |-> sched = sched'
        
        \* Format the `sched` variable as Json value.
        \* ,_schedJson |->
        \*     LET J == INSTANCE Json
        \*     IN J!ToJson(sched)
        
        \* Lastly, you may build expressions over arbitrary sets of states by
        \* leveraging the _TETrace operator.  For example, this is how to
        \* count the number of times a spec variable changed up to the current
        \* state in the trace.
        \* ,_schedModCount |->
        \*     LET F[s \in DOMAIN _TETrace] ==
        \*         IF s = 1 THEN 0
        \*         ELSE IF _TETrace[s].sched # _TETrace[s-1].sched
        \*             THEN 1 + F[s-1] ELSE F[s-1]
        \*     IN F[_TEPosition - 1]
    ]

=============================================================================



Parsing and semantic processing can take forever if the trace below is long.
 In this case, it is advised to uncomment the module below to deserialize the
 trace from a generated binary file.

\*
\*---- MODULE MC_watch_TETrace ----
\*EXTENDS IOUtils, MC_watch, TLC
\*
\*trace == IODeserialize("MC_watch_TTrace_1790045560.bin", TRUE)
\*
\*=============================================================================
\*

---- MODULE MC_watch_TETrace ----
EXTENDS MC_watch, TLC

trace == 
    <<
    ([st |-> [rev |-> 0, hist |-> <<>>, bq |-> <<>>, lag |-> 0, lost |-> {}, reg |-> {}, unregQ |-> <<>>, hb |-> FALSE, hbCount |-> 0, nops |-> 0, prog |-> 0, cl |-> [w1 |-> "none", w2 |-> "none"], tgt |-> [w1 |-> [kind |-> "none", path |-> <<>>], w2 |-> [kind |-> "none", path |-> <<>>]], regAt |-> [w1 |-> 0, w2 |-> 0], buf |-> [w1 |-> <<>>, w2 |-> <<>>], got |-> [w1 |-> <<>>, w2 |-> <<>>]],sched |-> <<>>]),
    ([st |-> [rev |-> 0, hist |-> <<>>, bq |-> <<>>, lag |-> 0, lost |-> {}, reg |-> {"w2"}, unregQ |-> <<>>, hb |-> FALSE, hbCount |-> 0, nops |-> 0, prog |-> 0, cl |-> [w1 |-> "none", w2 |-> "open"], tgt |-> [w1 |-> [kind |-> "none", path |-> <<>>], w2 |-> [kind |-> "prefix", path |-> <<"a">>]], regAt |-> [w1 |-> 0, w2 |-> 0], buf |-> [w1 |-> <<>>, w2 |-> <<>>], got |-> [w1 |-> <<>>, w2 |-> <<>>]],sched |-> <<[w |-> "w2", t |-> [kind |-> "prefix", path |-> <<"a">>], a |-> "Register"]>>]),
    ([st |-> [rev |-> 1, hist |-> <<[key |-> <<"a", "x">>, ty |-> "put", rev |-> 1]>>, bq |-> <<[key |-> <<"a", "x">>, ty |-> "put", rev |-> 1]>>, lag |-> 0, lost |-> {}, reg |-> {"w2"}, unregQ |-> <<>>, hb |-> FALSE, hbCount |-> 0, nops |-> 1, prog |-> 0, cl |-> [w1 |-> "none", w2 |-> "open"], tgt |-> [w1 |-> [kind |-> "none", path |-> <<>>], w2 |-> [kind |-> "prefix", path |-> <<"a">>]], regAt |-> [w1 |-> 0, w2 |-> 0], buf |-> [w1 |-> <<>>, w2 |-> <<>>], got |-> [w1 |-> <<>>, w2 |-> <<>>]],sched |-> <<[w |-> "w2", t |-> [kind |-> "prefix", path |-> <<"a">>], a |-> "Register"], [ops |-> <<[c |-> "put", key |-> <<"a", "x">>, good |-> TRUE]>>, a |-> "Apply"]>>]),
    ([st |-> [rev |-> 2, hist |-> <<[key |-> <<"a", "x">>, ty |-> "put", rev |-> 1], [key |-> <<"a", "x">>, ty |-> "put", rev |-> 2]>>, bq |-> <<[key |-> <<"a", "x">>, ty |-> "put", rev |-> 1], [key |-> <<"a", "x">>, ty |-> "put", rev |-> 2]>>, lag |-> 0, lost |-> {}, reg |-> {"w2"}, unregQ |-> <<>>, hb |-> FALSE, hbCount |-> 0, nops |-> 2, prog |-> 0, cl |-> [w1 |-> "none", w2 |-> "open"], tgt |-> [w1 |-> [kind |-> "none", path |-> <<>>], w2 |-> [kind |-> "prefix", path |-> <<"a">>]], regAt |-> [w1 |-> 0, w2 |-> 0], buf |-> [w1 |-> <<>>, w2 |-> <<>>], got |-> [w1 |-> <<>>, w2 |-> <<>>]],sched |-> <<[w |-> "w2", t |-> [kind |-> "prefix", path |-> <<"a">>], a |-> "Register"], [ops |-> <<[c |-> "put", key |-> <<"a", "x">>, good |-> TRUE]>>, a |-> "Apply"], [ops |-> <<[c |-> "put", key |-> <<"a", "x">>, good |-> TRUE]>>, a |-> "Apply"]>>]),
    ([st |-> [rev |-> 3, hist |-> <<[key |-> <<"a", "x">>, ty |-> "put", rev |-> 1], [key |-> <<"a", "x">>, ty |-> "put", rev |-> 2], [key |-> <<"a", "x">>, ty |-> "put", rev |-> 3]>>, bq |-> <<[key |-> <<"a", "x">>, ty |-> "put", rev |-> 2], [key |-> <<"a", "x">>, ty |-> "put", rev |-> 3]>>, lag |-> 1, lost |-> {1}, reg |-> {"w2"}, unregQ |-> <<>>, hb |-> FALSE, hbCount |-> 0, nops |-> 3, prog |-> 0, cl |-> [w1 |-> "none", w2 |-> "open"], tgt |-> [w1 |-> [kind |-> "none", path |-> <<>>], w2 |-> [kind |-> "prefix", path |-> <<"a">>]], regAt |-> [w1 |-> 0, w2 |-> 0], buf |-> [w1 |-> <<>>, w2 |-> <<>>], got |-> [w1 |-> <<>>, w2 |-> <<>>]],sched |-> <<[w |-> "w2", t |-> [kind |-> "prefix", path |-> <<"a">>], a |-> "Register"], [ops |-> <<[c |-> "put", key |-> <<"a", "x">>, good |-> TRUE]>>, a |-> "Apply"], [ops |-> <<[c |-> "put", key |-> <<"a", "x">>, good |-> TRUE]>>, a |-> "Apply"], [ops |-> <<[c |-> "put", key |-> <<"a", "x">>, good |-> TRUE]>>, a |-> "Apply"]>>]),
    ([st |-> [rev |-> 3, hist |-> <<[key |-> <<"a", "x">>, ty |-> "put", rev |-> 1], [key |-> <<"a", "x">>, ty |-> "put", rev |-> 2], [key |-> <<"a", "x">>, ty |-> "put", rev |-> 3]>>, bq |-> <<[key |-> <<"a", "x">>, ty |-> "put", rev |-> 2], [key |-> <<"a", "x">>, ty |-> "put", rev |-> 3]>>, lag |-> 0, lost |-> {1}, reg |-> {"w2"}, unregQ |-> <<>>, hb |-> FALSE, hbCount |-> 0, nops |-> 3, prog |-> 0, cl |-> [w1 |-> "none", w2 |-> "open"], tgt |-> [w1 |-> [kind |-> "none", path |-> <<>>], w2 |-> [kind |-> "prefix", path |-> <<"a">>]], regAt |-> [w1 |-> 0, w2 |-> 0], buf |-> [w1 |-> <<>>, w2 |-> <<>>], got |-> [w1 |-> <<>>, w2 |-> <<>>]],sched |-> <<[w |-> "w2", t |-> [kind |-> "prefix", path |-> <<"a">>], a |-> "Register"], [ops |-> <<[c |-> "put", key |-> <<"a", "x">>, good |-> TRUE]>>, a |-> "Apply"], [ops |-> <<[c |-> "put", key |-> <<"a", "x">>, good |-> TRUE]>>, a |-> "Apply"], [ops |-> <<[c |-> "put", key |-> <<"a", "x">>, good |-> TRUE]>>, a |-> "Apply"], [a |-> "Disp"]>>]),
    ([st |-> [rev |-> 3, hist |-> <<[key |-> <<"a", "x">>, ty |-> "put", rev |-> 1], [key |-> <<"a", "x">>, ty |-> "put", rev |-> 2], [key |-> <<"a", "x">>, ty |-> "put", rev |-> 3]>>, bq |-> <<[key |-> <<"a", "x">>, ty |-> "put", rev |-> 3]>>, lag |-> 0, lost |-> {1}, reg |-> {"w2"}, unregQ |-> <<>>, hb |-> FALSE, hbCount |-> 0, nops |-> 3, prog |-> 0, cl |-> [w1 |-> "none", w2 |-> "open"], tgt |-> [w1 |-> [kind |-> "none", path |-> <<>>], w2 |-> [kind |-> "prefix", path |-> <<"a">>]], regAt |-> [w1 |-> 0, w2 |-> 0], buf |-> [w1 |-> <<>>, w2 |-> <<[key |-> <<"a", "x">>, ty |-> "put", rev |-> 2]>>], got |-> [w1 |-> <<>>, w2 |-> <<>>]],sched |-> <<[w |-> "w2", t |-> [kind |-> "prefix", path |-> <<"a">>], a |-> "Register"], [ops |-> <<[c |-> "put", key |-> <<"a", "x">>, good |-> TRUE]>>, a |-> "Apply"], [ops |-> <<[c |-> "put", key |-> <<"a", "x">>, good |-> TRUE]>>, a |-> "Apply"], [ops |-> <<[c |-> "put", key |-> <<"a", "x">>, good |-> TRUE]>>, a |-> "Apply"], [a |-> "Disp"], [a |-> "Disp"]>>]),
    ([st |-> [rev |-> 3, hist |-> <<[key |-> <<"a", "x">>, ty |-> "put", rev |-> 1], [key |-> <<"a", "x">>, ty |-> "put", rev |-> 2], [key |-> <<"a", "x">>, ty |-> "put", rev |-> 3]>>, bq |-> <<[key |-> <<"a", "x">>, ty |-> "put", rev |-> 3]>>, lag |-> 0, lost |-> {1}, reg |-> {"w2"}, unregQ |-> <<>>, hb |-> FALSE, hbCount |-> 0, nops |-> 3, prog |-> 0, cl |-> [w1 |-> "none", w2 |-> "open"], tgt |-> [w1 |-> [kind |-> "none", path |-> <<>>], w2 |-> [kind |-> "prefix", path |-> <<"a">>]], regAt |-> [w1 |-> 0, w2 |-> 0], buf |-> [w1 |-> <<>>, w2 |-> <<>>], got |-> [w1 |-> <<>>, w2 |-> <<[key |-> <<"a", "x">>, ty |-> "put", rev |-> 2]>>]],sched |-> <<[w |-> "w2", t |-> [kind |-> "prefix", path |-> <<"a">>], a |-> "Register"], [ops |-> <<[c |-> "put", key |-> <<"a", "x">>, good |-> TRUE]>>, a |-> "Apply"], [ops |-> <<[c |-> "put", key |-> <<"a", "x">>, good |-> TRUE]>>, a |-> "Apply"], [ops |-> <<[c |-> "put", key |-> <<"a", "x">>, good |-> TRUE]>>, a |-> "Apply"], [a |-> "Disp"], [a |-> "Disp"], [w |-> "w2", a |-> "Recv"]>>]),
    ([st |-> [rev |-> 3, hist |-> <<[key |-> <<"a", "x">>, ty |-> "put", rev |-> 1], [key |-> <<"a", "x">>, ty |-> "put", rev |-> 2], [key |-> <<"a", "x">>, ty |-> "put", rev |-> 3]>>, bq |-> <<>>, lag |-> 0, lost |-> {1}, reg |-> {"w2"}, unregQ |-> <<>>, hb |-> FALSE, hbCount |-> 0, nops |-> 3, prog |-> 0, cl |-> [w1 |-> "none", w2 |-> "open"], tgt |-> [w1 |-> [kind |-> "none", path |-> <<>>], w2 |-> [kind |-> "prefix", path |-> <<"a">>]], regAt |-> [w1 |-> 0, w2 |-> 0], buf |-> [w1 |-> <<>>, w2 |-> <<[key |-> <<"a", "x">>, ty |-> "put", rev |-> 3]>>], got |-> [w1 |-> <<>>, w2 |-> <<[key |-> <<"a", "x">>, ty |-> "put", rev |-> 2]>>]],sched |-> <<[w |-> "w2", t |-> [kind |-> "prefix", path |-> <<"a">>], a |-> "Register"], [ops |-> <<[c |-> "put", key |-> <<"a", "x">>, good |-> TRUE]>>, a |-> "Apply"], [ops |-> <<[c |-> "put", key |-> <<"a", "x">>, good |-> TRUE]>>, a |-> "Apply"], [ops |-> <<[c |-> "put", key |-> <<"a", "x">>, good |-> TRUE]>>, a |-> "Apply"], [a |-> "Disp"], [a |-> "Disp"], [w |-> "w2", a |-> "Recv"], [a |-> "Disp"]>>]),
    ([st |-> [rev |-> 3, hist |-> <<[key |-> <<"a", "x">>, ty |-> "put", rev |-> 1], [key |-> <<"a", "x">>, ty |-> "put", rev |-> 2], [key |-> <<"a", "x">>, ty |-> "put", rev |-> 3]>>, bq |-> <<>>, lag |-> 0, lost |-> {1}, reg |-> {"w2"}, unregQ |-> <<>>, hb |-> FALSE, hbCount |-> 0, nops |-> 3, prog |-> 0, cl |-> [w1 |-> "none", w2 |-> "open"], tgt |-> [w1 |-> [kind |-> "none", path |-> <<>>], w2 |-> [kind |-> "prefix", path |-> <<"a">>]], regAt |-> [w1 |-> 0, w2 |-> 0], buf |-> [w1 |-> <<>>, w2 |-> <<>>], got |-> [w1 |-> <<>>, w2 |-> <<[key |-> <<"a", "x">>, ty |-> "put", rev |-> 2], [key |-> <<"a", "x">>, ty |-> "put", rev |-> 3]>>]],sched |-> <<[w |-> "w2", t |-> [kind |-> "prefix", path |-> <<"a">>], a |-> "Register"], [ops |-> <<[c |-> "put", key |-> <<"a", "x">>, good |-> TRUE]>>, a |-> "Apply"], [ops |-> <<[c |-> "put", key |-> <<"a", "x">>, good |-> TRUE]>>, a |-> "Apply"], [ops |-> <<[c |-> "put", key |-> <<"a", "x">>, good |-> TRUE]>>, a |-> "Apply"], [a |-> "Disp"], [a |-> "Disp"], [w |-> "w2", a |-> "Recv"], [a |-> "Disp"], [w |-> "w2", a |-> "Recv"]>>])
    >>
----


=============================================================================

---- CONFIG MC_watch_TTrace_1790045560 ----
CONSTANTS
    W = { "w1" , "w2" }
    Targets <- MC_TargetsFixed
    Ops <- MC_OpsTiny
    QCap = 2
    BufCap = 1
    MaxOps = 4
    MaxBatch = 1
    MaxHb = 1
    Dev = { "LaggedWatchEventsDropped" , "ProgressRevisionFromStaleCounter" }
    EmitDepth = 0

INVARIANT
    _inv

CHECK_DEADLOCK
    \* CHECK_DEADLOCK off because of PROPERTY or INVARIANT above.
    FALSE

INIT
    _init

NEXT
    _next

CONSTANT
    _TETrace <- _trace

ALIAS
    _expression
=============================================================================
\* Generated on Tue Sep 22 02:53:10 UTC 2026