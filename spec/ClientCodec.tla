----------------------------- MODULE ClientCodec -----------------------------
(***************************************************************************)
(* C37 - client writes are applied exactly as submitted.                   *)
(* C35 - multi-key reads return results aligned with the requested keys.   *)
(*                                                                         *)
(* Reference semantics of the client <-> log <-> state-machine codec.      *)
(* Like Config.tla this is a function-style specification: TLC enumerates   *)
(* the bounded input space (one initial state per case), evaluates the      *)
(* expected outcome, checks the design-level statement on the as-           *)
(* implemented pipeline and prints one CASE line per case; dv-funcs codec / *)
(* dv-funcs mget execute every case against a real single-node d-engine     *)
(* (EmbeddedEngine + its loopback gRPC service) through the real embedded    *)
(* client and the real GrpcClient.                                          *)
(*                                                                         *)
(* Part 1 (writes).  A submitted operation travels                          *)
(*   client API -> native WriteOperation (embedded)                         *)
(*              -> proto WriteCommand -> to_core_write_req (gRPC)            *)
(*   -> write_op_to_proto -> prost bytes in the log entry payload           *)
(*   -> decode_entries / TryFrom<WriteCommand> -> Command at apply_chunk.   *)
(* The wire format has no "no TTL" value: ttl_secs = 0 is documented as     *)
(* "no expiration" (client.proto), so the *meaning* of a submitted TTL of 0 *)
(* is "no expiration"; Meaning() applies exactly this documented            *)
(* convention and nothing else.  An absent / present-but-empty CAS          *)
(* expectation are different operations and must stay different.            *)
(***************************************************************************)
EXTENDS Integers, Sequences, FiniteSets, TLC

CONSTANTS
  WKeys,      \* byte-string classes used as keys of writes
  WVals,      \* byte-string classes used as values
  Ttls,       \* TTL classes of put-with-TTL: subset of {"t0","t1","tmax"}
  Paths,      \* {"embedded","grpc"}
  RKeys,      \* keys of the multi-get part
  MaxLen,     \* maximal length of a requested key list
  Part        \* "writes" | "reads": which input space this run enumerates

\* concrete representatives (hex) of the byte-string classes; printed so the harness takes them from the spec
Bytes == [bEmpty |-> "", bA |-> "61", bFF |-> "ff00ff", bB |-> "62", bLong |-> "000102feff7f80",
          k1 |-> "6b31", k2 |-> "6b32", k3 |-> "6b33"]
BytesNames == <<"bEmpty", "bA", "bFF", "bB", "bLong", "k1", "k2", "k3">>
TtlSecs == [t0 |-> "0", t1 |-> "1", tmax |-> "18446744073709551615"]   \* as decimal strings (u64)

None == "none"

(***************************************************************************)
(* Part 1: writes                                                           *)
(***************************************************************************)
Ops ==
  [kind : {"put"}, key : WKeys, value : WVals, expected : {None}, ttl : {None}]
  \cup [kind : {"put_ttl"}, key : WKeys, value : WVals, expected : {None}, ttl : Ttls]
  \cup [kind : {"delete"}, key : WKeys, value : {None}, expected : {None}, ttl : {None}]
  \cup [kind : {"cas"}, key : WKeys, value : WVals, expected : {"absent"} \cup WVals, ttl : {None}]

\* what the client means (the command the state machine must see)
Meaning(op) ==
  CASE op.kind = "put" -> [cmd |-> "insert", key |-> op.key, value |-> op.value, expected |-> None, ttl |-> None]
    [] op.kind = "put_ttl" -> [cmd |-> "insert", key |-> op.key, value |-> op.value, expected |-> None,
                               ttl |-> IF op.ttl = "t0" THEN None ELSE op.ttl]   \* 0 = "no expiration" (client.proto)
    [] op.kind = "delete" -> [cmd |-> "delete", key |-> op.key, value |-> None, expected |-> None, ttl |-> None]
    [] op.kind = "cas" -> [cmd |-> "cas", key |-> op.key, value |-> op.value, expected |-> op.expected, ttl |-> None]

\* --- the pipeline as implemented, step by step -------------------------------------------
\* proto WriteCommand: ttl_secs is a plain u64 ("t0" = 0 also stands for "not set"), expected_value is optional
ProtoOfClient(op) ==   \* GrpcClient: WriteCommand::insert / insert_with_ttl / delete / compare_and_swap
  CASE op.kind = "put" -> [cmd |-> "insert", key |-> op.key, value |-> op.value, expected |-> None, ttl |-> "t0"]
    [] op.kind = "put_ttl" -> [cmd |-> "insert", key |-> op.key, value |-> op.value, expected |-> None, ttl |-> op.ttl]
    [] op.kind = "delete" -> [cmd |-> "delete", key |-> op.key, value |-> None, expected |-> None, ttl |-> None]
    [] op.kind = "cas" -> [cmd |-> "cas", key |-> op.key, value |-> op.value, expected |-> op.expected, ttl |-> None]
\* proto_convert.rs write_command_to_op: ttl_secs 0 -> None
NativeOfProto(p) == IF p.cmd = "insert" THEN [p EXCEPT !.ttl = IF p.ttl = "t0" THEN None ELSE p.ttl] ELSE p
\* EmbeddedClient: put -> ttl None, put_with_ttl(t) -> Some(t)
NativeOfClient(op) ==
  CASE op.kind = "put" -> [cmd |-> "insert", key |-> op.key, value |-> op.value, expected |-> None, ttl |-> None]
    [] op.kind = "put_ttl" -> [cmd |-> "insert", key |-> op.key, value |-> op.value, expected |-> None, ttl |-> op.ttl]
    [] op.kind = "delete" -> [cmd |-> "delete", key |-> op.key, value |-> None, expected |-> None, ttl |-> None]
    [] op.kind = "cas" -> [cmd |-> "cas", key |-> op.key, value |-> op.value, expected |-> op.expected, ttl |-> None]
Native(op, path) == IF path = "grpc" THEN NativeOfProto(ProtoOfClient(op)) ELSE NativeOfClient(op)
\* leader_state.rs write_op_to_proto: ttl None -> 0
Encode(n) == IF n.cmd = "insert" THEN [n EXCEPT !.ttl = IF n.ttl = None THEN "t0" ELSE n.ttl] ELSE n
\* client_command_to_entry_payloads + WriteCommand::decode: prost round trip = identity on the proto record
\* command.rs TryFrom<WriteCommand>: ttl_secs 0 -> None
Decode(p) == IF p.cmd = "insert" THEN [p EXCEPT !.ttl = IF p.ttl = "t0" THEN None ELSE p.ttl] ELSE p
Applied(op, path) == Decode(Encode(Native(op, path)))

(***************************************************************************)
(* Part 2: multi-key reads.                                                *)
(*  state: key -> "absent" | "empty" | "val"   (val = a value distinct per  *)
(*  key, so that a misaligned result is visible)                            *)
(***************************************************************************)
States == [RKeys -> {"absent", "empty", "val"}]
KeyLists == UNION {[1..n -> RKeys] : n \in 0..MaxLen}
\* the property: one result per requested key, in request order
Result(st, ks) == [i \in 1..Len(ks) |-> st[ks[i]]]
\* as implemented: the server returns only the found keys (in request order, duplicates kept) ...
Sparse(st, ks) == SelectSeq([i \in 1..Len(ks) |-> <<ks[i], st[ks[i]]>>], LAMBDA e : e[2] # "absent")
\* ... and the clients realign by key (HashMap collect: last entry of a key wins)
Lookup(sp, k) ==
  LET idx == {i \in 1..Len(sp) : sp[i][1] = k} IN
  IF idx = {} THEN "absent" ELSE sp[CHOOSE i \in idx : \A j \in idx : j <= i][2]
Realigned(st, ks) == [i \in 1..Len(ks) |-> Lookup(Sparse(st, ks), ks[i])]

(***************************************************************************)
(* Enumeration                                                              *)
(***************************************************************************)
VARIABLE c
Init ==
  \/ Part = "writes" /\ c \in [op : Ops, path : Paths]
  \/ Part = "reads" /\ c \in [st : States, keys : KeyLists]
Next == UNCHANGED c
Spec == Init /\ [][Next]_c

\* design-level statements
CodecIdentity == Part = "writes" => Applied(c.op, c.path) = Meaning(c.op)
RealignCorrect == Part = "reads" => Realigned(c.st, c.keys) = Result(c.st, c.keys)

Cmd(r) == r.cmd \o " " \o r.key \o " " \o r.value \o " " \o r.expected \o " " \o r.ttl
JoinS(seq, sep) == IF seq = <<>> THEN "-" ELSE
  LET F[i \in 1..Len(seq)] == IF i = 1 THEN seq[1] ELSE F[i - 1] \o sep \o seq[i] IN F[Len(seq)]
RKeySeq == CHOOSE s \in [1..Cardinality(RKeys) -> RKeys] : \A i, j \in DOMAIN s : i # j => s[i] # s[j]
Line ==
  IF Part = "writes"
  THEN "CASE " \o c.path \o " " \o c.op.kind \o " " \o c.op.key \o " " \o c.op.value \o " " \o c.op.expected \o " "
       \o c.op.ttl \o " => " \o Cmd(Meaning(c.op))
  ELSE "CASE " \o JoinS([i \in 1..Len(RKeySeq) |-> RKeySeq[i] \o "=" \o c.st[RKeySeq[i]]], ",") \o " "
       \o JoinS(c.keys, ",") \o " => " \o JoinS(Result(c.st, c.keys), ",")
Emit == PrintT(Line)

ASSUME \A i \in 1..Len(BytesNames) : PrintT("BYTES " \o BytesNames[i] \o " " \o Bytes[BytesNames[i]] \o ".")
ASSUME \A t \in DOMAIN TtlSecs : PrintT("TTL " \o t \o " " \o TtlSecs[t])
=============================================================================
