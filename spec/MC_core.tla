---- MODULE MC_core ----
EXTENDS DEngine
====
