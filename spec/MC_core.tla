---- MODULE MC_core ----
EXTENDS DEngine
\* initial-cluster constants for the focused configurations
IV_all == [n \in Node |-> [p \in Node |-> "V"]]
\* node 1 starts alone (single-node cluster); the others are configured as joining learners
IV_expand == [n \in Node |-> [p \in Node |-> IF p = 1 THEN "V" ELSE IF p = n THEN "L" ELSE "X"]]
\* 1..k voters, the highest node a joining learner
IV_plus1 == LET mx == CHOOSE m \in Node : \A o \in Node : m >= o
            IN [n \in Node |-> [p \in Node |-> IF p # mx THEN "V" ELSE IF n = mx THEN "L" ELSE "X"]]
====
