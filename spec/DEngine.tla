------------------------------- MODULE DEngine -------------------------------
(***************************************************************************)
(* Cluster model of d-engine at the granularity of the node's critical      *)
(* sections (one action per entry point of the Raft loop, as driven by the  *)
(* step-mode harness: Timeout, StartRound, DeliverVQ, DropVQ, FinishRound,  *)
(* DeliverAE, DeliverAR, DropMsg, Heartbeat, Client, Crash, Stop, Restart). *)
(* Node-level behaviour comes from DECore.                                  *)
(*                                                                         *)
(* Deviations of the implementation from Raft are named and switchable      *)
(* through the constant Dev:                                                *)
(*   "HardStateSavedOnlyOnDrop"  term/vote reach the MetaStore only on a    *)
(*                               graceful stop (impl Drop for Raft)         *)
(*   "Prev0ResetsFollowerLog"    prev_log_index = 0 resets the follower log *)
(*   "GappedAppendRequest"       capped legacy entries + all new entries    *)
(*   "VoteResetOnAnyStepDown"    every BecomeFollower clears voted_for      *)
(***************************************************************************)
EXTENDS DECore, Json

CONSTANTS Node,        \* set of node ids (naturals)
          MaxTerm, MaxLog, MaxMsgs, Cap,
          Faults,      \* subset of {"Crash","Stop","Drop","Dup","Client","Heartbeat"}
          MaxCrash, MaxDrop, MaxCfg,  \* bounds on the number of crash/stop and drop/dup steps per behaviour
          InitView,    \* [Node -> [Node -> {"V","L","X"}]]: the initial cluster each node's config file lists
          HistOn,      \* TRUE: keep the schedule (hist) for behaviour extraction
          EmitDepth    \* simulation: print the schedule of every behaviour reaching this depth

VARIABLES ns, rnd, msgs, mon, hist

vars == <<ns, rnd, msgs, mon, hist>>
stateView == <<ns, rnd, msgs, mon>>

ZeroMap == [p \in Node |-> 0]
\* membership views: "V" voter (status Active), "L" learner (status Promotable), "X" not a member
VPeers(s, n) == {p \in Node \ {n} : s.view[p] = "V"}          \* Membership::voters()
Targets(s, n) == {p \in Node \ {n} : s.view[p] \in {"V", "L"}}  \* replication_peers()
InitSize(n) == Cardinality({p \in Node : InitView[n][p] # "X"})
Peers(n) == VPeers(ns[n], n)

InitNode(n) == [up |-> TRUE, role |-> IF InitView[n][n] = "L" THEN "Ln" ELSE "F", term |-> 1, vote |-> NoVote,
                log |-> <<>>, commit |-> 0, next |-> ZeroMap, match |-> ZeroMap, noop |-> 0, hs |-> NoHs,
                view |-> InitView[n]]
NoRound == [open |-> FALSE, pending |-> {}, resp |-> {}]

Init == /\ ns = [n \in Node |-> InitNode(n)]
        /\ rnd = [n \in Node |-> NoRound]
        /\ msgs = {}
        /\ mon = [granted |-> {}, led |-> {}, committed |-> {}, lcom |-> {}, maxTerm |-> [n \in Node |-> 1],
                  crashes |-> 0, drops |-> 0, unvoted |-> {}, cfgs |-> 0, badCommit |-> FALSE, badRestart |-> FALSE, lgrant |-> FALSE]
        /\ hist = <<>>

Busy(n) == rnd[n].open
Ready(n) == ns[n].up /\ ~Busy(n)

\* persistence of the hard state
SaveHs(s) == [s EXCEPT !.hs = [saved |-> TRUE, term |-> s.term, vid |-> s.vote.id, vt |-> s.vote.t]]
Persist(s) == IF "HardStateSavedOnlyOnDrop" \in Dev THEN s ELSE SaveHs(s)

\* history / monitor bookkeeping ------------------------------------------------------------
Led(n, t) == [n |-> n, t |-> t]
NoteState(m, nsn) ==
  [m EXCEPT !.led = @ \cup {Led(n, nsn[n].term) : n \in {x \in Node : nsn[x].up /\ nsn[x].role = "L"}},
            \* a node's vote for itself counts once its candidacy has won
            !.granted = @ \cup {[voter |-> n, t |-> nsn[n].term, cand |-> n] :
                                   n \in {x \in Node : nsn[x].up /\ nsn[x].role = "L"}},
            !.committed = @ \cup UNION {{[i |-> e.i, e |-> e, ct |-> nsn[n].term] :
                                            e \in {nsn[n].log[j] : j \in {x \in 1..Len(nsn[n].log) :
                                                       nsn[n].log[x].i <= nsn[n].commit}}}
                                         : n \in {x \in Node : nsn[x].up}},
            !.lcom = @ \cup UNION {{nsn[n].log[j] : j \in {x \in 1..Len(nsn[n].log) : nsn[n].log[x].i <= nsn[n].commit}}
                                      : n \in {x \in Node : nsn[x].up /\ nsn[x].role = "L"}},
            !.maxTerm = [n \in Node |-> IF nsn[n].up THEN Max(@[n], nsn[n].term) ELSE @[n]],
            \* C09, evaluated when a leader moves its commit index: current-term entry held by a majority of
            \* the voters of the view the leader had when it decided
            !.badCommit = @ \/ \E n \in Node :
                 /\ nsn[n].up /\ nsn[n].role = "L" /\ ns[n].up /\ nsn[n].commit > ns[n].commit
                 /\ LET N == nsn[n].commit
                        base == IF ns[n].role = "L" THEN ns[n] ELSE nsn[n]
                        vs == VPeers(base, n) \cup {n}
                    IN ~(HasIdx(nsn[n].log, N) /\ EntryAt(nsn[n].log, N).t = nsn[n].term
                         /\ IsMajority(Cardinality({v \in vs : HasIdx(nsn[v].log, N)
                                                        /\ EntryAt(nsn[v].log, N) = EntryAt(nsn[n].log, N)}),
                                       Cardinality(vs)))]

Step(label, nsn, rndn, msgsn, monn) ==
  /\ ns' = nsn /\ rnd' = rndn /\ msgs' = msgsn
  /\ mon' = NoteState(monn, nsn)
  /\ hist' = IF HistOn THEN Append(hist, label) ELSE hist

\* membership entries take effect when the node's commit index passes them (commit handler)
RECURSIVE ApplyCfgFrom(_, _, _, _)
ApplyCfgFrom(vw, log, j, upto) ==
  IF j > Len(log) THEN vw
  ELSE IF log[j].i > upto THEN vw
  ELSE LET e == log[j]
           v1 == IF e.k # "cfg" THEN vw
                 ELSE IF e.v = "add" THEN [p \in Node |-> IF p \in e.ids /\ vw[p] = "X" THEN "L" ELSE vw[p]]
                 ELSE IF e.v = "batchpromote" THEN [p \in Node |-> IF p \in e.ids /\ vw[p] # "X" THEN "V" ELSE vw[p]]
                 ELSE IF e.v = "batchremove" THEN [p \in Node |-> IF p \in e.ids THEN "X" ELSE vw[p]]
                 ELSE vw
       IN ApplyCfgFrom(v1, log, j + 1, upto)
\* entries with index in (from, upto]
ApplyCfgRange(vw, log, from, upto) ==
  ApplyCfgFrom(vw, SelectSeq(log, LAMBDA e : e.i > from), 1, upto)
\* node n moved from state s0 to s1 (DECore operator); apply the membership entries it newly committed
WithCfg(n, s0, s1) ==
  LET v1 == IF s1.commit > s0.commit THEN ApplyCfgRange(s0.view, s1.log, s0.commit, s1.commit) ELSE s0.view
      s2 == [s1 EXCEPT !.view = v1]
  IN \* a learner that sees its own promotion becomes a follower; a leader that removed itself steps down
     IF s2.role = "Ln" /\ v1[n] = "V" THEN StepDown(s2)
     ELSE IF s2.role = "L" /\ v1[n] = "X" THEN StepDown(s2)
     ELSE IF s2.role = "L"
     THEN [s2 EXCEPT !.next = [p \in Node |-> IF p \in Targets(s2, n) \ Targets(s0, n)
                                               THEN LastIdx(s2.log) + 1 ELSE s2.next[p]]]
     ELSE s2

\* a single-voter leader commits on its own log flush
SoloCommit(n, s0, s1) == IF VPeers(s1, n) = {} THEN WithCfg(n, s0, [s1 EXCEPT !.commit = LastIdx(s1.log)]) ELSE s1

\* leader: append entries to own log and send one request per peer -----------------------------
LeaderSend(s, me, newEnts) ==
  LET lastBefore == LastIdx(s.log)
      s1 == [s EXCEPT !.log = @ \o newEnts]
      reqs == {BuildAE(s1, me, p, lastBefore, newEnts, Cap) : p \in Targets(s, me)}
      s2 == [s1 EXCEPT !.next = [p \in Node |->
                 IF p \notin Targets(s, me) THEN s1.next[p]
                 ELSE SpecNext(s1, BuildAE(s1, me, p, lastBefore, newEnts, Cap))]]
  IN [st |-> s2, reqs |-> reqs]

BecomeLeader(s, me) ==
  LET s0 == [s EXCEPT !.role = "L", !.vote = [id |-> me, t |-> s.term, c |-> TRUE],
                      !.next = [p \in Node |-> IF p = me THEN 0 ELSE LastIdx(s.log) + 1],
                      !.match = ZeroMap, !.noop = 0]
      noop == <<[i |-> LastIdx(s.log) + 1, t |-> s.term, k |-> "noop", v |-> "", ids |-> {}]>>
  IN LeaderSend(s0, me, noop)

\* ------------------------------------------------------------------------------------------
Timeout(n) ==
  /\ Ready(n) /\ ns[n].role = "F"
  /\ Step([a |-> "Timeout", n |-> n], [ns EXCEPT ![n].role = "C"], rnd, msgs, mon)

FinishWith(n, R, outcome, label) ==
  LET s == ns[n] IN
  CASE outcome.k = "win" ->
         LET bl == BecomeLeader(s, n)
         IN Step(label, [ns EXCEPT ![n] = Persist(bl.st)], [rnd EXCEPT ![n] = NoRound],
                 msgs \cup bl.reqs, mon)
    [] outcome.k = "higher" ->
         Step(label, [ns EXCEPT ![n] = Persist(StepDown([s EXCEPT !.term = outcome.t]))],
              [rnd EXCEPT ![n] = NoRound], msgs, mon)
    [] outcome.k = "lose" ->
         Step(label, ns, [rnd EXCEPT ![n] = NoRound], msgs, mon)

StartRound(n) ==
  /\ Ready(n) /\ ns[n].role = "C" /\ ns[n].term < MaxTerm
  /\ LET s == Persist([ns[n] EXCEPT !.term = @ + 1, !.vote = [id |-> n, t |-> ns[n].term + 1, c |-> FALSE]])
         Q(p) == [ty |-> "VQ", from |-> n, to |-> p, t |-> s.term, li |-> LastIdx(s.log), lt |-> LastTerm(s.log)]
         alone == IF "SingleNodeFromInitialConfig" \in Dev THEN InitSize(n) = 1 ELSE Peers(n) = {}
     IN IF alone
        THEN \* is_single_node_cluster(): wins without asking anybody
             LET bl == BecomeLeader(s, n)
             IN Step([a |-> "StartRound", n |-> n], [ns EXCEPT ![n] = Persist(SoloCommit(n, s, bl.st))], rnd,
                     msgs \cup bl.reqs,
                     [mon EXCEPT !.unvoted = @ \cup {[n |-> n, t |-> s.term, others |-> Peers(n)]}])
        ELSE IF Peers(n) = {}
        THEN Step([a |-> "StartRound", n |-> n], [ns EXCEPT ![n] = s], rnd, msgs, mon)   \* NoVotingMemberFound
        ELSE Step([a |-> "StartRound", n |-> n], [ns EXCEPT ![n] = s],
                  [rnd EXCEPT ![n] = [open |-> TRUE, pending |-> Peers(n), resp |-> {}]],
                  msgs \cup {Q(p) : p \in Peers(n)}, mon)

\* close the round of candidate c if nothing is pending any more
AutoFinish(c, nsn, rndn, msgsn, monn, label) ==
  IF rndn[c].open /\ rndn[c].pending = {}
  THEN \E o \in RoundOutcomes(nsn[c], Peers(c), rndn[c].resp) :
         LET s == nsn[c] IN
         CASE o.k = "win" ->
                LET bl == BecomeLeader(s, c)
                IN Step(label, [nsn EXCEPT ![c] = Persist(bl.st)], [rndn EXCEPT ![c] = NoRound],
                        msgsn \cup bl.reqs, monn)
           [] o.k = "higher" ->
                Step(label, [nsn EXCEPT ![c] = Persist(StepDown([s EXCEPT !.term = o.t]))],
                     [rndn EXCEPT ![c] = NoRound], msgsn, monn)
           [] o.k = "lose" -> Step(label, nsn, [rndn EXCEPT ![c] = NoRound], msgsn, monn)
  ELSE Step(label, nsn, rndn, msgsn, monn)

DeliverVQ(m, dup) ==
  /\ m.ty = "VQ" /\ Ready(m.to)
  /\ LET s   == ns[m.to]
         q   == [from |-> m.from, t |-> m.t, li |-> m.li, lt |-> m.lt]
         s1  == Persist(HandleVQ_State(s, q))
         r   == HandleVQ_Resp(s, q)
         counted == ~dup /\ rnd[m.from].open /\ ns[m.from].term = m.t /\ m.to \in rnd[m.from].pending
         rnd1 == IF counted
                 THEN [rnd EXCEPT ![m.from].pending = @ \ {m.to},
                                  ![m.from].resp = @ \cup {[from |-> m.to, g |-> r.g, t |-> r.t, li |-> r.li, lt |-> r.lt]}]
                 ELSE rnd
         mon0 == IF dup THEN [mon EXCEPT !.drops = @ + 1] ELSE mon
         mon1 == IF r.g THEN [mon0 EXCEPT !.granted = @ \cup {[voter |-> m.to, t |-> m.t, cand |-> m.from]},
                                          !.lgrant = @ \/ s.role = "Ln"]
                 ELSE mon0
         lbl == [a |-> "DeliverVQ", from |-> m.from, to |-> m.to, dup |-> IF dup THEN 1 ELSE 0]
     IN AutoFinish(m.from, [ns EXCEPT ![m.to] = s1], rnd1,
                   IF dup THEN msgs ELSE msgs \ {m}, mon1, lbl)

DropVQ(m) ==
  /\ m.ty = "VQ" /\ mon.drops < MaxDrop
  /\ LET counted == rnd[m.from].open /\ ns[m.from].term = m.t /\ m.to \in rnd[m.from].pending
         rnd1 == IF counted THEN [rnd EXCEPT ![m.from].pending = @ \ {m.to}] ELSE rnd
     IN AutoFinish(m.from, ns, rnd1, msgs \ {m}, [mon EXCEPT !.drops = @ + 1],
                   [a |-> "DropVQ", from |-> m.from, to |-> m.to])

FinishRound(n) ==
  /\ ns[n].up /\ Busy(n)
  /\ \E o \in RoundOutcomes(ns[n], Peers(n), rnd[n].resp) :
        FinishWith(n, rnd[n].resp, o, [a |-> "FinishRound", n |-> n])

DeliverAE(m, dup) ==
  /\ m.ty = "AE" /\ Ready(m.to)
  /\ LET s  == ns[m.to]
         s1 == Persist(WithCfg(m.to, s, HandleAE_State(s, m)))
         r  == HandleAE_Resp(s, m)
         ar == [ty |-> "AR", from |-> m.to, to |-> m.from, kind |-> r.kind, t |-> r.t,
                mi |-> r.mi, mt |-> r.mt, ct |-> r.ct, ci |-> r.ci]
     IN Step([a |-> "DeliverAE", from |-> m.from, to |-> m.to, t |-> m.t, prev |-> m.prev,
              cnt |-> Len(m.ents), lc |-> m.lc, dup |-> IF dup THEN 1 ELSE 0],
             [ns EXCEPT ![m.to] = s1], rnd, (IF dup THEN msgs ELSE msgs \ {m}) \cup {ar},
             IF dup THEN [mon EXCEPT !.drops = @ + 1] ELSE mon)

DeliverAR(m) ==
  /\ m.ty = "AR" /\ Ready(m.to)
  /\ LET s  == ns[m.to]
         vp == IF "M_CountLearners" \in Dev THEN Targets(s, m.to) ELSE Peers(m.to)
         s1 == Persist(WithCfg(m.to, s, AR_State(s, m, vp)))
     IN Step([a |-> "DeliverAR", from |-> m.from, to |-> m.to, kind |-> m.kind, mi |-> m.mi, t |-> m.t],
             [ns EXCEPT ![m.to] = s1], rnd, msgs \ {m}, mon)

DropMsg(m) ==
  /\ m.ty \in {"AE", "AR"} /\ mon.drops < MaxDrop
  /\ Step([a |-> "DropMsg", ty |-> m.ty, from |-> m.from, to |-> m.to,
           t |-> m.t, prev |-> IF m.ty = "AE" THEN m.prev ELSE 0,
           cnt |-> IF m.ty = "AE" THEN Len(m.ents) ELSE 0,
           lc |-> IF m.ty = "AE" THEN m.lc ELSE 0,
           kind |-> IF m.ty = "AR" THEN m.kind ELSE "", mi |-> IF m.ty = "AR" THEN m.mi ELSE 0],
          ns, rnd, msgs \ {m}, [mon EXCEPT !.drops = @ + 1])

Heartbeat(n) ==
  /\ Ready(n) /\ ns[n].role = "L"
  /\ LET ls == LeaderSend(ns[n], n, <<>>)
     IN Step([a |-> "Heartbeat", n |-> n], [ns EXCEPT ![n] = ls.st], rnd, msgs \cup ls.reqs, mon)

ClientWrite(n, v) ==
  /\ Ready(n) /\ ns[n].role = "L" /\ LastIdx(ns[n].log) < MaxLog
  /\ LET e  == <<[i |-> LastIdx(ns[n].log) + 1, t |-> ns[n].term, k |-> "cmd", v |-> v, ids |-> {}]>>
         ls == LeaderSend(ns[n], n, e)
     IN Step([a |-> "Client", n |-> n, op |-> "put", key |-> "k1", val |-> v],
             [ns EXCEPT ![n] = SoloCommit(n, ns[n], ls.st)], rnd, msgs \cup ls.reqs, mon)

\* ---- membership changes (leader side) --------------------------------------------------------
CfgEntry(s, kind, ids) == <<[i |-> LastIdx(s.log) + 1, t |-> s.term, k |-> "cfg", v |-> kind, ids |-> ids]>>

Join(l, p) ==      \* JoinCluster request of node p handled by leader l
  /\ Ready(l) /\ ns[l].role = "L" /\ ns[l].view[p] = "X" /\ LastIdx(ns[l].log) < MaxLog /\ mon.cfgs < MaxCfg
  /\ LET ls == LeaderSend(ns[l], l, CfgEntry(ns[l], "add", {p}))
     IN Step([a |-> "Join", n |-> p, to |-> l], [ns EXCEPT ![l] = SoloCommit(l, ns[l], ls.st)], rnd,
             msgs \cup ls.reqs, [mon EXCEPT !.cfgs = @ + 1])

\* learners the leader considers caught up (match within the catch-up threshold of the commit index)
ReadyLearners(s, l) == {p \in Node \ {l} : s.view[p] = "L" /\ s.commit <= s.match[p] + 1}
SafeBatch(cur, avail) == IF (cur + avail) % 2 = 1 THEN avail ELSE (IF avail = 0 THEN 0 ELSE avail - 1)
Promote(l, S) ==   \* handle_promote_ready_learners: BatchPromote of S
  /\ Ready(l) /\ ns[l].role = "L" /\ S # {} /\ S \subseteq ReadyLearners(ns[l], l)
  /\ LastIdx(ns[l].log) < MaxLog /\ mon.cfgs < MaxCfg
  /\ IF "BatchPromoteAnySize" \in Dev
     THEN Cardinality(S) = SafeBatch(Cardinality(VPeers(ns[l], l)) + 1, Cardinality(ReadyLearners(ns[l], l)))
     ELSE \* repaired design: one server at a time, and only when no earlier change is still uncommitted
          /\ Cardinality(S) = 1
          /\ \A j \in 1..Len(ns[l].log) : ns[l].log[j].k = "cfg" => ns[l].log[j].i <= ns[l].commit
  /\ LET ls == LeaderSend(ns[l], l, CfgEntry(ns[l], "batchpromote", S))
     IN Step([a |-> "Promote", n |-> l], [ns EXCEPT ![l] = SoloCommit(l, ns[l], ls.st)], rnd,
             msgs \cup ls.reqs, [mon EXCEPT !.cfgs = @ + 1])

Remove(l, p) ==    \* zombie report -> BatchRemove
  /\ Ready(l) /\ ns[l].role = "L" /\ p # l /\ ns[l].view[p] # "X" /\ LastIdx(ns[l].log) < MaxLog /\ mon.cfgs < MaxCfg
  /\ LET ls == LeaderSend(ns[l], l, CfgEntry(ns[l], "batchremove", {p}))
     IN Step([a |-> "Zombie", n |-> p, to |-> l], [ns EXCEPT ![l] = SoloCommit(l, ns[l], ls.st)], rnd,
             msgs \cup ls.reqs, [mon EXCEPT !.cfgs = @ + 1])

DownNode(s) == [s EXCEPT !.up = FALSE, !.role = "Down", !.term = 0, !.vote = NoVote, !.commit = 0,
                         !.view = [p \in Node |-> "X"],
                         !.next = ZeroMap, !.match = ZeroMap, !.noop = 0]
\* the state machine of the reference harness persists what it applied; applied = commit
Crash(n) ==
  /\ ns[n].up /\ mon.crashes < MaxCrash
  /\ Step([a |-> "Crash", n |-> n],
          [ns EXCEPT ![n] = [DownNode(@) EXCEPT !.commit = ns[n].commit]],
          [rnd EXCEPT ![n] = NoRound], msgs, [mon EXCEPT !.crashes = @ + 1])
Stop(n) ==
  /\ Ready(n) /\ mon.crashes < MaxCrash
  /\ Step([a |-> "Stop", n |-> n],
          [ns EXCEPT ![n] = [DownNode(SaveHs(@)) EXCEPT !.commit = ns[n].commit]], rnd, msgs,
          [mon EXCEPT !.crashes = @ + 1])
Restart(n) ==
  /\ ~ns[n].up
  /\ LET s == ns[n]
     IN Step([a |-> "Restart", n |-> n],
             [ns EXCEPT ![n] = [s EXCEPT !.up = TRUE, !.role = IF InitView[n][n] = "L" THEN "Ln" ELSE "F",
                                  !.view = IF "MembershipNotReplayedOnRestart" \in Dev THEN InitView[n]
                                           ELSE ApplyCfgRange(InitView[n], s.log, 0, s.commit),
                                  !.term = IF s.hs.saved THEN s.hs.term ELSE 1,
                                  !.vote = IF s.hs.saved /\ s.hs.vid # 0
                                           THEN [id |-> s.hs.vid, t |-> s.hs.vt, c |-> FALSE] ELSE NoVote]],
             rnd, msgs,
             [mon EXCEPT !.badRestart = @ \/
                 (IF "MembershipNotReplayedOnRestart" \in Dev THEN InitView[n] ELSE ApplyCfgRange(InitView[n], s.log, 0, s.commit))
                   # ApplyCfgRange(InitView[n], s.log, 0, s.commit)])

Next ==
  \/ \E n \in Node : Timeout(n) \/ StartRound(n) \/ FinishRound(n)
  \/ \E m \in msgs : DeliverVQ(m, FALSE) \/ DeliverAE(m, FALSE) \/ DeliverAR(m)
  \/ ("Dup" \in Faults /\ mon.drops < MaxDrop /\ \E m \in msgs : DeliverVQ(m, TRUE) \/ DeliverAE(m, TRUE))
  \/ ("Drop" \in Faults /\ \E m \in msgs : DropVQ(m) \/ DropMsg(m))
  \/ ("Heartbeat" \in Faults /\ \E n \in Node : Heartbeat(n))
  \/ ("Client" \in Faults /\ \E n \in Node : ClientWrite(n, "v"))
  \/ ("Crash" \in Faults /\ \E n \in Node : Crash(n) \/ Restart(n))
  \/ ("Stop" \in Faults /\ \E n \in Node : Stop(n) \/ Restart(n))
  \/ ("Member" \in Faults /\ \E l, p \in Node : Join(l, p) \/ Remove(l, p))
  \/ ("Member" \in Faults /\ \E l \in Node : \E S \in SUBSET Node : Promote(l, S))

Spec == Init /\ [][Next]_vars

Bound == /\ Cardinality(msgs) <= MaxMsgs
         /\ \A n \in Node : Len(ns[n].log) <= MaxLog /\ ns[n].term <= MaxTerm

\* Invariants -------------------------------------------------------------------------------
LedIn == [t \in {x.t : x \in mon.led} |-> {x.n : x \in {y \in mon.led : y.t = t}}]
C01_ElectionSafety == P_ElectionSafety(LedIn)
C02_VoteOnce == P_VoteOnce(mon.granted)
C02_TermMonotone == \A n \in Node : ns[n].up => ns[n].term >= mon.maxTerm[n]
C04_LogMatching == P_LogMatching([n \in Node |-> ns[n].log])
C08_GapFree == \A n \in Node : P_GapFree(ns[n].log)
C08_ContiguousAE == \A m \in msgs : m.ty = "AE" => P_ContiguousAE(m)
\* C05: a committed entry is in the log of every leader of a later term
C05_LeaderCompleteness ==
  \A c \in mon.committed : \A n \in Node :
     (ns[n].up /\ ns[n].role = "L" /\ ns[n].term > c.ct) =>
        (HasIdx(ns[n].log, c.i) /\ EntryAt(ns[n].log, c.i) = c.e)
\* at most one entry is ever committed per index
C05_CommitAgreement == \A c, d \in mon.committed : c.i = d.i => c.e = d.e
\* C07: what a follower treats as committed was committed by a leader with the identical entry
C07_FollowerCommitMatches ==
  \A n \in Node : (ns[n].up /\ ns[n].role \in {"F", "C"}) =>
     \A j \in 1..Len(ns[n].log) : ns[n].log[j].i <= ns[n].commit => ns[n].log[j] \in mon.lcom
\* C09: a leader's commit index is backed by a majority holding the entry, of the current term
C09_CommitRule == ~mon.badCommit

\* C03: a node that became leader without asking anybody had no other voter in its view
C03_SoleVoterShortcut == \A u \in mon.unvoted : u.others = {}
\* C26: any two quorums that nodes may use (election or commit) intersect
DisjointMaj(A, B) == \E Qa \in SUBSET A, Qb \in SUBSET B :
                        IsMajority(Cardinality(Qa), Cardinality(A)) /\ IsMajority(Cardinality(Qb), Cardinality(B))
                        /\ Qa \cap Qb = {}
C26_QuorumsIntersect ==
  \A i, j \in {x \in Node : ns[x].up /\ ns[x].view[x] = "V"} :
     ~DisjointMaj(VPeers(ns[i], i) \cup {i}, VPeers(ns[j], j) \cup {j})
\* C27: learners never lead, never are candidates
C27_LearnersPassive == /\ \A n \in Node : (ns[n].up /\ ns[n].view[n] = "L") => ns[n].role \in {"Ln"}
                       /\ ~mon.lgrant
\* C28: a live node's view is the fold of the membership entries it has committed over its initial view
C28_ViewAfterRestart == ~mon.badRestart

\* behaviour extraction (simulation mode): print the schedule of every behaviour of depth D
Emit == (Len(hist) = EmitDepth) => PrintT(<<"REPLAY", ToJson(hist)>>)
=============================================================================
