---- MODULE MC_watch ----
EXTENDS Watch
\* keys "/a", "/a/x", "/b"; watch targets: exact "/a/x", exact "/a", prefix "/a/", prefix "/"
K_a == <<"a">>
K_ax == <<"a", "x">>
K_b == <<"b">>
T_ex(k) == [kind |-> "exact", path |-> k]
T_pre(k) == [kind |-> "prefix", path |-> k]
AllTargets == {T_ex(K_ax), T_ex(K_a), T_pre(K_a), T_pre(<<>>)}
\* simulation: any watcher may pick any target
MC_TargetsAny == [w \in W |-> AllTargets]
\* exhaustive runs: w1 exact "/a/x", w2 prefix "/a/", w3 prefix "/" (or exact "/a")
MC_TargetsFixed == [w \in W |-> IF w = "w1" THEN {T_ex(K_ax)} ELSE IF w = "w2" THEN {T_pre(K_a)} ELSE {T_pre(<<>>)}]
Op(c, k, g) == [c |-> c, key |-> k, good |-> g]
MC_Ops == {Op("put", K_ax, TRUE), Op("del", K_ax, TRUE), Op("put", K_a, TRUE), Op("put", K_b, TRUE),
           Op("cas", K_ax, TRUE), Op("cas", K_ax, FALSE), Op("noop", <<>>, TRUE)}
MC_OpsSmall == {Op("put", K_ax, TRUE), Op("put", K_b, TRUE), Op("cas", K_ax, FALSE)}
MC_OpsTiny == {Op("put", K_ax, TRUE), Op("cas", K_ax, FALSE)}
====
