------------------------------ MODULE MC_merge ------------------------------
(* Model-checking configurations of MergeAE.tla (TLC cfg files cannot hold sequences). *)
EXTENDS MergeAE

CONSTANT Scope   \* "pairs": queues of 1-2 requests, full request alphabet
                 \* "pairs-small": the same over fewer follower logs / prev indexes (quick)
                 \* "triples": queues of exactly 3 requests, reduced alphabet (quick)
                 \* "triples-full": queues of exactly 3 requests, full alphabet (thorough)

mc_LTerms == <<1, 1, 2, 2, 2, 2, 2, 2>>
\* follower logs of length <= 4: equal to the leader's prefix, diverging at index 2 / 3, shorter, empty
mc_FLogs ==
  IF Scope = "triples" THEN {<<1, 1>>, <<1, 2, 2, 2>>}
  ELSE IF Scope = "pairs-small" THEN {<<>>, <<1, 1>>, <<1, 2, 2, 2>>}
  ELSE {<<>>, <<1>>, <<1, 1>>, <<1, 2>>, <<1, 1, 2>>, <<1, 2, 2, 2>>, <<1, 1, 1, 1>>, <<1, 1, 2, 2>>}
mc_FCommits == IF Scope = "triples" THEN {0} ELSE IF Scope = "pairs-small" THEN {0} ELSE {0, 2}
mc_MaxMerges == {2, 3}
mc_Terms == IF Scope = "triples" THEN {2} ELSE {2, 3}
mc_Prevs == IF Scope = "triples" THEN {0, 1} ELSE IF Scope = "pairs-small" THEN {0, 1, 2} ELSE {0, 1, 2, 3, 4}
mc_Shapes == {"hb", "one", "two", "gap"}
mc_MinQ == IF Scope \in {"pairs", "pairs-small"} THEN 1 ELSE 3
mc_MaxQ == IF Scope \in {"pairs", "pairs-small"} THEN 2 ELSE 3
mc_Lcs == <<1, 4>>
=============================================================================
