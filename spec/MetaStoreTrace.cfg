SPECIFICATION Spec
CHECK_DEADLOCK FALSE
INVARIANT Emit
INVARIANT Done
