------------------------------ MODULE MetaStore ------------------------------
(***************************************************************************)
(* C21: saved term and vote are never lost or corrupted.                   *)
(*                                                                         *)
(* save_hard_state of a file-backed MetaStore as file-system steps over    *)
(* FsModel, a crash (process crash / power loss) at any point, and the     *)
(* load at restart.  Property:                                             *)
(*   the value loaded after a crash is the previously saved value or the   *)
(*   one being saved - never missing, never undecodable;                   *)
(*   once save returned, a process crash keeps the new value.              *)
(*                                                                         *)
(* Dev names the deviations of the current FileMetaStore::save_to_file:    *)
(*   "RewriteInPlace"  File::create(hard_state.bin) (truncate) + write     *)
(*                     instead of temp file + rename                       *)
(*   "NoFsync"         no fsync of the file / directory before returning   *)
(* Dev = {} is the repaired procedure (temp file, fsync, rename, fsync of  *)
(* the directory) and satisfies the property under both crash kinds.       *)
(*                                                                         *)
(* The same FsModel judges the system-call traces of the real meta stores  *)
(* (MetaStoreTrace.tla).                                                   *)
(***************************************************************************)
EXTENDS FsModel

CONSTANTS Vals,        \* values that can be saved (ids 1..n)
          Dev,         \* subset of {"RewriteInPlace", "NoFsync"}
          MaxSaves,
          CrashKinds   \* subset of {"process", "power"}

VARIABLES fs, pc, saved, cur, nsaves, loaded, crash

vars == <<fs, pc, saved, cur, nsaves, loaded, crash>>

Final == "hard_state.bin"
Tmp   == "hard_state.tmp"

NoState == 0          \* nothing saved / nothing loaded
Undecodable == -1     \* the file exists but does not decode
\* encodings have different lengths (a vote makes the record longer); cells are <<value, k>>
EncLen(v) == 2 + (v % 2)
Enc(v) == [k \in 1..EncLen(v) |-> <<v, k>>]
Decode(c) == IF \E v \in Vals : c = Enc(v) THEN CHOOSE v \in Vals : c = Enc(v) ELSE Undecodable
Load(img) == IF Final \in DOMAIN img THEN Decode(img[Final]) ELSE NoState

Init == /\ fs = EmptyFs /\ pc = "idle" /\ saved = NoState /\ cur = NoState /\ nsaves = 0
        /\ loaded = -2 /\ crash = "no"

Alive == crash = "no"

Begin == /\ Alive /\ pc = "idle" /\ nsaves < MaxSaves
         /\ \E v \in Vals : v # saved /\ cur' = v
         /\ nsaves' = nsaves + 1
         /\ pc' = "open"
         /\ UNCHANGED <<fs, saved, loaded, crash>>

Target == IF "RewriteInPlace" \in Dev THEN Final ELSE Tmp

Step ==
  /\ Alive
  /\ \/ /\ pc = "open" /\ fs' = FsOpen(fs, Target, TRUE, TRUE) /\ pc' = "write"
     \/ /\ pc = "write" /\ fs' = FsWrite(fs, Target, 0, Enc(cur))
        /\ pc' = IF "NoFsync" \in Dev THEN (IF "RewriteInPlace" \in Dev THEN "return" ELSE "rename") ELSE "fsync"
     \/ /\ pc = "fsync" /\ fs' = FsFsync(fs, Target)
        /\ pc' = IF "RewriteInPlace" \in Dev THEN "fsyncdir" ELSE "rename"
     \/ /\ pc = "rename" /\ fs' = FsRename(fs, Tmp, Final)
        /\ pc' = IF "NoFsync" \in Dev THEN "return" ELSE "fsyncdir"
     \/ /\ pc = "fsyncdir" /\ fs' = FsFsyncDir(fs) /\ pc' = "return"
  /\ UNCHANGED <<saved, cur, nsaves, loaded, crash>>

Return == /\ Alive /\ pc = "return" /\ saved' = cur /\ cur' = NoState /\ pc' = "idle"
          /\ UNCHANGED <<fs, nsaves, loaded, crash>>

Crash == /\ Alive
         /\ \E k \in CrashKinds :
              /\ crash' = k
              /\ \E img \in (IF k = "process" THEN {ProcImage(fs)} ELSE PowerImages(fs)) :
                    loaded' = Load(img)
         /\ UNCHANGED <<fs, pc, saved, cur, nsaves>>

Next == Begin \/ Step \/ Return \/ Crash
Spec == Init /\ [][Next]_vars

-----------------------------------------------------------------------------
Allowed == {saved} \cup (IF pc # "idle" THEN {cur} ELSE {})

\* the loaded state is the previous or the new value, never missing / undecodable
C21_OldOrNew == (crash # "no") => (loaded \in Allowed)
\* once save returned, a process crash keeps the new value
C21_ReturnedSurvivesProcessCrash == (crash = "process" /\ pc = "idle") => (loaded = saved)

TypeOK == pc \in {"idle", "open", "write", "fsync", "rename", "fsyncdir", "return"}
=============================================================================
