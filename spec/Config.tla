------------------------------- MODULE Config -------------------------------
(***************************************************************************)
(* C34 - accepted configurations satisfy the safety timing constraints.    *)
(*                                                                         *)
(* The specification is a reference semantics (a function), not a          *)
(* transition system:                                                      *)
(*   Safe(c)      the property's consequent, exact arithmetic              *)
(*   Validate(c)  the decision table of RaftConfig::validate as            *)
(*                implemented (first failing check, in code order)         *)
(* and TLC is used as enumerator + oracle: every configuration of the      *)
(* abstract numeric domain is one initial state; for each TLC evaluates    *)
(* Safe / Validate, checks the design-level theorem                        *)
(*   Validate(c) = "ok" => Safe(c)                                         *)
(* and prints one CASE line.  The harness (dv-funcs config) maps the       *)
(* abstract points to concrete u64 values, builds a real RaftConfig /      *)
(* RaftNodeConfig, calls the real validate() and evaluates Safe on the     *)
(* concrete numbers with u128 arithmetic; the two Safe values must agree   *)
(* (abstraction check) and "real validate accepted /\ ~Safe" is the        *)
(* violation of C34.                                                       *)
(*                                                                         *)
(* Numbers.  TLC integers are 32 bit, the configuration fields are u64.    *)
(* An abstract number is a pair [q, c] denoting q * 2^62 + c with |c|      *)
(* small (|c| << 2^62), so that                                            *)
(*    Mid = [2, 0] = 2^63,  Max = [4, -1] = 2^64 - 1 = u64::MAX.           *)
(* Comparison is lexicographic, sums are component-wise: both are exact    *)
(* as long as |c| stays small, which holds for every term built here (at   *)
(* most 3 additions of points with |c| <= 3).  Halving is exact for even   *)
(* q, which is the case for every point of the domain.                     *)
(***************************************************************************)
EXTENDS Integers, Sequences, FiniteSets, TLC

CONSTANTS
  TimingPts,    \* names of the points used for lease / rtt / etMin / etMax
  LimitPts,     \* names of the points used for heartbeat / batch / perRequest / retained
  Others        \* scenarios for fields the property does not mention ("none" = all default)

(***************************************************************************)
(* Abstract numeric domain                                                 *)
(***************************************************************************)
N(q, c) == [q |-> q, c |-> c]
Point == [p0 |-> N(0, 0), p1 |-> N(0, 1), p2 |-> N(0, 2), p3 |-> N(0, 3),
          midm1 |-> N(2, -1), mid |-> N(2, 0), midp1 |-> N(2, 1),
          maxm2 |-> N(4, -3), maxm1 |-> N(4, -2), max |-> N(4, -1)]
PointNames == <<"p0", "p1", "p2", "p3", "midm1", "mid", "midp1", "maxm2", "maxm1", "max">>
Zero == N(0, 0)
One == N(0, 1)
MaxV == N(4, -1)

Lt(a, b) == a.q < b.q \/ (a.q = b.q /\ a.c < b.c)
Le(a, b) == ~Lt(b, a)
Add(a, b) == N(a.q + b.q, a.c + b.c)              \* exact (mathematical) sum
Dbl(a) == Add(a, a)
SatAdd(a, b) == IF Lt(MaxV, Add(a, b)) THEN MaxV ELSE Add(a, b)   \* u64::saturating_add
Half(a) == N(a.q \div 2, a.c \div 2)              \* u64 `/ 2` (floor); exact because a.q is even
ASSUME \A i \in 1..Len(PointNames) : Point[PointNames[i]].q % 2 = 0

(***************************************************************************)
(* A configuration: the fields C34 talks about + one scenario for the rest *)
(***************************************************************************)
TimingFields == <<"lease", "rtt", "etMin", "etMax">>
LimitFields == <<"hb", "batch", "perReq", "retained">>

Cfgs ==
  {c \in [lease : TimingPts, rtt : TimingPts, etMin : TimingPts, etMax : TimingPts,
          hb : LimitPts, batch : LimitPts, perReq : LimitPts, retained : LimitPts, other : Others] :
     \* scenarios for the other fields are combined with in-range limits only
     c.other # "none" => (c.hb = "p1" /\ c.batch = "p1" /\ c.perReq = "p1" /\ c.retained = "p1")}

V(c, f) == Point[c[f]]

(***************************************************************************)
(* The property (consequent of C34).                                        *)
(*  "lease window shorter than the minimum election timeout (with the      *)
(*   configured round-trip margin)":  lease + rtt/2 < etMin, evaluated in  *)
(*   exact rational arithmetic as 2*lease + rtt < 2*etMin.                 *)
(***************************************************************************)
LeaseWindowOK(c) == Lt(Add(Dbl(V(c, "lease")), V(c, "rtt")), Dbl(V(c, "etMin")))
\* the same with the integer half the code computes; equal on integers (checked below)
LeaseWindowOKFloor(c) == Lt(Add(V(c, "lease"), Half(V(c, "rtt"))), V(c, "etMin"))
ElectionOrderOK(c) == Lt(V(c, "etMin"), V(c, "etMax"))
Unsafe(c) ==   \* the conjuncts of the consequent that fail, as a sequence of names
  (IF LeaseWindowOK(c) THEN <<>> ELSE <<"lease-window">>) \o
  (IF ElectionOrderOK(c) THEN <<>> ELSE <<"election-order">>) \o
  (IF Lt(Zero, V(c, "hb")) THEN <<>> ELSE <<"zero-heartbeat">>) \o
  (IF Lt(Zero, V(c, "batch")) THEN <<>> ELSE <<"zero-batch">>) \o
  (IF Lt(Zero, V(c, "perReq")) THEN <<>> ELSE <<"zero-per-request">>) \o
  (IF Le(One, V(c, "retained")) THEN <<>> ELSE <<"zero-retained">>)
Safe(c) == Unsafe(c) = <<>>

(***************************************************************************)
(* RaftConfig::validate as implemented: name of the first failing check    *)
(* in code order (d-engine-core/src/config/raft.rs), "ok" if none.         *)
(***************************************************************************)
Validate(c) ==
  CASE c.other = "lct0" -> "learner_catchup_threshold"
    [] c.other = "gen0" -> "general_raft_timeout"
    [] V(c, "hb") = Zero -> "heartbeat"
    [] V(c, "perReq") = Zero -> "per_request"
    [] V(c, "batch") = Zero -> "batch"
    [] c.other = "merge0" -> "max_merge_entries"
    [] ~Lt(V(c, "etMin"), V(c, "etMax")) -> "election_order"
    [] c.other = "mon0" -> "monitor_interval"
    [] c.other = "ttl99" -> "lease_cleanup_interval"
    [] c.other = "snapmax0" -> "max_log_entries_before_snapshot"
    [] c.other = "retain0" -> "cleanup_retain_count"
    [] c.other = "chunk0" -> "chunk_size"
    [] Lt(V(c, "retained"), One) -> "retained"
    [] V(c, "lease") = Zero -> "lease_zero"
    [] Le(V(c, "etMin"), SatAdd(V(c, "lease"), Half(V(c, "rtt")))) -> "lease_window"
    [] c.other = "idle0" -> "idle_flush"
    [] OTHER -> "ok"

(***************************************************************************)
(* Enumeration: one state per configuration                                 *)
(***************************************************************************)
VARIABLE cfg
Init == cfg \in Cfgs
Next == UNCHANGED cfg
Spec == Init /\ [][Next]_cfg

\* design-level theorem: the validation table implies the property
ValidatedIsSafe == Validate(cfg) = "ok" => Safe(cfg)
\* the two readings of "with the round-trip margin" coincide on integers
HalfReadingsAgree == LeaseWindowOK(cfg) <=> LeaseWindowOKFloor(cfg)

Join(seq) == IF seq = <<>> THEN "-" ELSE
  LET F[i \in 1..Len(seq)] == IF i = 1 THEN seq[1] ELSE F[i - 1] \o "," \o seq[i] IN F[Len(seq)]
Line(c) ==
  "CASE " \o c.lease \o " " \o c.rtt \o " " \o c.etMin \o " " \o c.etMax \o " " \o c.hb \o " " \o c.batch
  \o " " \o c.perReq \o " " \o c.retained \o " " \o c.other \o " " \o Validate(c) \o " " \o Join(Unsafe(c))
Emit == PrintT(Line(cfg))

\* the point table, printed once, so that the harness takes the concrete values from the spec
ASSUME \A i \in 1..Len(PointNames) :
  PrintT("POINT " \o PointNames[i] \o " " \o ToString(Point[PointNames[i]].q) \o " " \o ToString(Point[PointNames[i]].c))
=============================================================================
