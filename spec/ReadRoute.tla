------------------------------ MODULE ReadRoute ------------------------------
(***************************************************************************)
(* C13 - read policy routing is enforced.                                  *)
(*                                                                         *)
(* Decision table of the read paths of a node:                             *)
(*   (role, server default policy, allow_client_override, requested        *)
(*    policy, API path, lease valid?, quorum reachable?)                   *)
(*     |->  effective policy, outcome                                      *)
(* outcome: "served"    the node answers from its local state machine      *)
(*          "notleader" the client is told the node is not the leader      *)
(*          "pending"   the read waits for a quorum round that cannot       *)
(*                      complete (only when the quorum is unreachable)      *)
(*                                                                         *)
(* Design (Dev = {}), the same on every path:                              *)
(*   effective = IF requested # none /\ allow THEN requested ELSE default  *)
(*   non-leader: eventual -> served, linearizable / lease -> notleader      *)
(*   leader:     eventual -> served; lease / linearizable -> served while   *)
(*               the lease is valid, else after a quorum round              *)
(* Properties (the two sentences of C13):                                  *)
(*   NonLeaderNeverServesStrongReads, OverrideFlagEnforced.                *)
(*                                                                         *)
(* As implemented (Dev = {"FastPathIgnoresOverrideFlag"}): the Raft command *)
(* path (role_state.rs push_client_cmd, leader_state.rs                    *)
(* determine_read_policy) follows the design; the gRPC handler             *)
(* (grpc_raft_service.rs handle_client_read -> StandaloneReadHandle ->      *)
(* ReadActor) and the embedded client (EmbeddedReadHandle::get_batch) take  *)
(* a fast path keyed on the REQUESTED policy before anything looks at       *)
(* allow_client_override: requested eventual is answered from the local     *)
(* state machine on any role; requested lease is answered locally while     *)
(* the node's lease is valid; everything else falls through to the Raft     *)
(* command path carrying the requested policy.                              *)
(*                                                                         *)
(* Function-style spec: TLC enumerates the table (one initial state per     *)
(* case), checks the two properties on the design, and prints one CASE      *)
(* line with the design outcome and the as-implemented outcome; dv-funcs    *)
(* route executes the cases: Raft command path on simulated nodes of all    *)
(* four roles, embedded / gRPC paths on a real 3-node loopback cluster.     *)
(***************************************************************************)
EXTENDS Naturals, Sequences, FiniteSets, TLC

CONSTANT Dev
AsImplemented == {"FastPathIgnoresOverrideFlag"}

Roles == {"L", "F", "C", "Ln"}
Policies == {"lin", "lease", "ev"}
Paths == {"raft", "embedded", "grpc"}

Cases ==
  {c \in [role : Roles, dflt : Policies, allow : BOOLEAN, req : Policies \cup {"none"}, path : Paths,
          lease : {"valid", "expired"}, quorum : {"reachable", "unreachable"}] :
     /\ c.path = "embedded" => c.req # "none"            \* the embedded client API always names a policy
     /\ c.role # "L" => (c.lease = "expired" /\ c.quorum = "unreachable")   \* only a leader holds a lease / runs quorum rounds
     /\ (c.role = "L" /\ c.quorum = "reachable") => c.lease = "valid"}      \* a leader that reaches its quorum keeps its lease

Effective(c) == IF c.req # "none" /\ c.allow THEN c.req ELSE c.dflt

\* outcome of serving a read under policy p on this node
Serve(c, p) ==
  IF c.role # "L" THEN (IF p = "ev" THEN "served" ELSE "notleader")
  ELSE CASE p = "ev" -> "served"
         [] p = "lease" -> IF c.lease = "valid" \/ c.quorum = "reachable" THEN "served" ELSE "pending"
         \* as implemented a linearizable read is also answered without a quorum round while the leader's lease is
         \* valid (leader_state.rs "Phase 3: route linearizable reads"); that rule belongs to C11/C12, here it only
         \* means that linearizable and lease reads have the same observable outcome on a leader
         [] p = "lin" -> IF c.lease = "valid" \/ c.quorum = "reachable" THEN "served" ELSE "pending"

\* the Raft command path (ClientCmd::Read): resolves the policy with the override flag, on every role
RaftPath(c) == [eff |-> Effective(c), out |-> Serve(c, Effective(c))]

\* the fast paths in front of it (gRPC handler / embedded read handle)
FastPath(c) ==
  IF "FastPathIgnoresOverrideFlag" \in Dev /\ c.path \in {"grpc", "embedded"} /\ c.req = "ev"
  THEN [eff |-> "ev", out |-> "served"]
  ELSE IF "FastPathIgnoresOverrideFlag" \in Dev /\ c.path \in {"grpc", "embedded"} /\ c.req = "lease"
          /\ c.role = "L" /\ c.lease = "valid"
  THEN [eff |-> "lease", out |-> "served"]
  ELSE RaftPath(c)

Route(c) == FastPath(c)
Design(c) == RaftPath(c)

(***************************************************************************)
(* The property                                                             *)
(***************************************************************************)
\* sentence 1: a non-leader never answers linearizable or lease reads from local state and says NotLeader
NonLeaderOK(c, r) == (c.role # "L" /\ Effective(c) \in {"lin", "lease"}) => r.out = "notleader"
\* sentence 2: with overrides disallowed every read is served under the server default, whatever the client asked
OverrideOK(c, r) == ~c.allow => (r.eff = c.dflt /\ r.out = Serve(c, c.dflt))
Broken(c, r) == (IF NonLeaderOK(c, r) THEN <<>> ELSE <<"non-leader-serves-strong-read">>)
                \o (IF OverrideOK(c, r) THEN <<>> ELSE <<"override-flag-ignored">>)

VARIABLE c
Init == c \in Cases
Next == UNCHANGED c
Spec == Init /\ [][Next]_c

\* INVARIANTs of the Dev = {} run
NonLeaderNeverServesStrongReads == NonLeaderOK(c, Route(c))
OverrideFlagEnforced == OverrideOK(c, Route(c))

JoinS(seq, sep) == IF seq = <<>> THEN "-" ELSE
  LET F[i \in 1..Len(seq)] == IF i = 1 THEN seq[1] ELSE F[i - 1] \o sep \o seq[i] IN F[Len(seq)]
Line == "CASE " \o c.path \o " " \o c.role \o " " \o c.dflt \o " " \o (IF c.allow THEN "allow" ELSE "deny") \o " " \o c.req
        \o " " \o c.lease \o " " \o c.quorum
        \o " D " \o Design(c).eff \o " " \o Design(c).out
        \o " I " \o Route(c).eff \o " " \o Route(c).out \o " " \o JoinS(Broken(c, Route(c)), ",")
Emit == PrintT(Line)
=============================================================================
