---- MODULE MC_client ----
EXTENDS DEClient
IV_all == [n \in Node |-> [p \in Node |-> "V"]]
BoundC == Bound /\ cs.nread <= MaxReads
\* symmetry by hand for the two-leader scenarios: node 1 is the only candidate up to term 2, node 2 afterwards
TwoLeaders == \A n \in Node : ns[n].role = "C" => (n = 1 /\ ns[n].term <= 2) \/ (n = 2 /\ ns[n].term >= 2)
BoundC2 == BoundC /\ TwoLeaders
\* depth-bounded exploration (quick tier): MaxLevel is substituted by the configuration
CONSTANT MaxLevel
BoundC3 == BoundC2 /\ TLCGet("level") <= MaxLevel

\* The settled state after the first election (node 1 leads term 2, its no-op is committed, known to be committed
\* everywhere and not yet applied anywhere, nothing in flight).  TLC reaches it from Init at depth 13 (configuration `settle`, invariant
\* NotSettled); the two-leader configurations start from it to spend their depth on what happens afterwards.
Settled == /\ ns[1].role = "L" /\ ns[1].term = 2 /\ ns[2].role = "F" /\ ns[3].role = "F" /\ msgs = {} /\ \A n \in Node : ns[n].commit = 1 /\ cs.ap[n] = (IF n \in Eager THEN 1 ELSE 0) /\ ~rnd[n].open
           /\ cs.lease[1]
NotSettled == ~Settled
Noop1 == [k |-> "noop", i |-> 1, t |-> 2, v |-> "", ids |-> {}]
Hs0 == IF "HardStateSavedOnlyOnDrop" \in Dev THEN NoHs ELSE [term |-> 2, saved |-> TRUE, vid |-> 1, vt |-> 2]
LedNode(n) == [up |-> TRUE, role |-> IF n = 1 THEN "L" ELSE "F", term |-> 2, commit |-> 1, noop |-> IF n = 1 THEN 1 ELSE 0,
               log |-> <<Noop1>>, view |-> IV_all[n], vote |-> [c |-> TRUE, id |-> 1, t |-> 2],
               next |-> [p \in Node |-> IF n = 1 /\ p # 1 THEN 2 ELSE 0],
               match |-> [p \in Node |-> IF n = 1 /\ p # 1 THEN 1 ELSE 0], hs |-> Hs0]
InitLed ==
  /\ ns = [n \in Node |-> LedNode(n)]
  /\ rnd = [n \in Node |-> NoRound]
  /\ msgs = {}
  /\ mon = [granted |-> {[t |-> 2, voter |-> n, cand |-> 1] : n \in Node}, led |-> {[n |-> 1, t |-> 2]},
            committed |-> {[i |-> 1, ct |-> 2, e |-> Noop1]}, lcom |-> {Noop1}, maxTerm |-> [n \in Node |-> 2],
            crashes |-> 0, drops |-> 0, unvoted |-> {}, cfgs |-> 0, badCommit |-> FALSE, badRestart |-> FALSE, lgrant |-> FALSE]
  /\ hist = <<>>
  /\ cs = [ap |-> [n \in Node |-> IF n \in Eager THEN 1 ELSE 0], pw |-> NoSet, pr |-> NoSet, lease |-> [n \in Node |-> n = 1],
           ackMax |-> 0, nread |-> 0, bad |-> {}]
SpecLed == InitLed /\ [][NextC]_cvars
\* with the same invariant as `settle`: the hand-written state is exactly the one TLC reaches
SettledIsInitLed == Settled => (ns = [n \in Node |-> LedNode(n)])
====
