-------------------------------- MODULE Watch --------------------------------
(***************************************************************************)
(* Watch streams of d-engine (property C24).                                *)
(*                                                                         *)
(* Code modelled:                                                           *)
(*   d-engine-core/src/state_machine_handler/default_state_machine_handler  *)
(*     apply_chunk -> broadcast_watch_events: one event per applied Insert / *)
(*     Delete / successful CAS, revision = log index, sent into a bounded   *)
(*     tokio broadcast channel (overflow: the oldest event is overwritten,  *)
(*     the receiver learns Lagged(n) on its next recv)                      *)
(*   d-engine-core/src/watch/manager.rs                                     *)
(*     WatchRegistry::{register, register_prefix, unregister},              *)
(*     WatcherHandle (drop => unregister request),                          *)
(*     WatchDispatcher::run: one select! iteration per step, biased:        *)
(*       unregister request | broadcast recv (event or Lagged) | heartbeat  *)
(*     dispatch_to_map: per-watcher bounded channel (buffer + 1 reserved    *)
(*     slot), overflow => CANCELED into the reserved slot + unregister,     *)
(*     closed receiver => unregister.                                       *)
(*                                                                         *)
(* All actions are pure functions on the state record (Do* operators), so   *)
(* the trace judge (WatchTrace.tla) folds the very same operators over the  *)
(* schedule executed on the real code.                                      *)
(*                                                                         *)
(* Dev (named deviations of the current code from the design):              *)
(*   "LaggedWatchEventsDropped"        RecvError::Lagged is only logged     *)
(*        (design: every registered watcher is cancelled)                   *)
(*   "ProgressRevisionFromStaleCounter" the dispatcher's last_applied       *)
(*        counter is never written (design: it follows dispatched events)   *)
(***************************************************************************)
EXTENDS Naturals, Sequences, FiniteSets, TLC, Json

CONSTANTS W,          \* watcher ids (strings)
          Targets,    \* [W -> set of targets]: what a watcher may register for ([kind |-> "exact"|"prefix", path |-> segments])
          Ops,        \* operations the state machine may apply
          QCap,       \* broadcast channel capacity
          BufCap,     \* per-watcher buffer size (the channel has BufCap + 1 slots)
          MaxOps, MaxBatch, MaxHb,
          Dev,
          EmitDepth   \* simulation: print the schedule of every behaviour of this length

VARIABLES st, sched
vars == <<st, sched>>

\* keys are sequences of path segments: <<"a","x">> is "/a/x"; a prefix <<"a">> is "/a/"; <<>> is "/"
Matches(t, k) == IF t.kind = "exact" THEN k = t.path
                 ELSE Len(t.path) < Len(k) /\ SubSeq(k, 1, Len(t.path)) = t.path

Emits(op) == op.c \in {"put", "del"} \/ (op.c = "cas" /\ op.good)
EvOf(op, r) == [ty |-> IF op.c = "del" THEN "delete" ELSE "put", key |-> op.key, rev |-> r]
CancelEv == [ty |-> "canceled", key |-> <<>>, rev |-> 0]
ProgressEv(r) == [ty |-> "progress", key |-> <<>>, rev |-> r]
IsData(e) == e.ty \in {"put", "delete"}
NoTarget == [kind |-> "none", path |-> <<>>]

Init0 == [rev |-> 0, hist |-> <<>>, bq |-> <<>>, lag |-> 0, lost |-> {}, reg |-> {}, unregQ |-> <<>>,
          hb |-> FALSE, hbCount |-> 0, nops |-> 0, prog |-> 0,
          cl |-> [w \in W |-> "none"], tgt |-> [w \in W |-> NoTarget], regAt |-> [w \in W |-> 0],
          buf |-> [w \in W |-> <<>>], got |-> [w \in W |-> <<>>]]

\* ----- client side ------------------------------------------------------------------------------
CanRegister(s, w) == s.cl[w] = "none"
DoRegister(s, w, t) == [s EXCEPT !.cl[w] = "open", !.tgt[w] = t, !.reg = @ \cup {w}, !.regAt[w] = Len(s.hist)]

\* dropping the handle sends an unregister request; the receiver is gone
CanDrop(s, w) == s.cl[w] = "open"
DoDrop(s, w) == [s EXCEPT !.cl[w] = "dropped", !.unregQ = Append(@, w), !.buf[w] = <<>>]

CanRecv(s, w) == s.cl[w] = "open" /\ s.buf[w] # <<>>
DoRecv(s, w) == [s EXCEPT !.got[w] = Append(@, Head(s.buf[w])), !.buf[w] = Tail(@)]

\* ----- state machine handler: apply_chunk + broadcast_watch_events ---------------------------
Send(s, e) == IF Len(s.bq) >= QCap
              THEN [s EXCEPT !.bq = Append(Tail(@), e), !.lag = @ + 1, !.lost = @ \cup {Head(s.bq).rev}]
              ELSE [s EXCEPT !.bq = Append(@, e)]
ApplyOne(s, op) == LET r == s.rev + 1
                       s1 == [s EXCEPT !.rev = r, !.nops = @ + 1]
                   IN IF Emits(op) THEN Send([s1 EXCEPT !.hist = Append(@, EvOf(op, r))], EvOf(op, r)) ELSE s1
RECURSIVE DoApply(_, _)
DoApply(s, ops) == IF ops = <<>> THEN s ELSE DoApply(ApplyOne(s, Head(ops)), Tail(ops))

\* ----- dispatcher -----------------------------------------------------------------------------
\* dispatch_to_map for one watcher
DeliverTo(s, w, e) ==
  IF s.cl[w] # "open" THEN [s EXCEPT !.reg = @ \ {w}]                       \* receiver closed: silent cleanup
  ELSE IF Len(s.buf[w]) >= BufCap                                           \* only the reserved slot is left
       THEN [s EXCEPT !.buf[w] = IF Len(@) = BufCap THEN Append(@, CancelEv) ELSE @, !.reg = @ \ {w}]
       ELSE [s EXCEPT !.buf[w] = Append(@, e)]
RECURSIVE DeliverAll(_, _, _)
DeliverAll(s, ws, e) == IF ws = {} THEN s
                        ELSE LET w == CHOOSE x \in ws : TRUE IN DeliverAll(DeliverTo(s, w, e), ws \ {w}, e)
CancelTo(s, w) == IF s.cl[w] # "open" THEN [s EXCEPT !.reg = @ \ {w}]
                  ELSE [s EXCEPT !.buf[w] = IF Len(@) <= BufCap THEN Append(@, CancelEv) ELSE @, !.reg = @ \ {w}]
RECURSIVE CancelAll(_, _)
CancelAll(s, ws) == IF ws = {} THEN s
                    ELSE LET w == CHOOSE x \in ws : TRUE IN CancelAll(CancelTo(s, w), ws \ {w})

CanDisp(s) == s.unregQ # <<>> \/ s.lag > 0 \/ s.bq # <<>> \/ s.hb
\* one iteration of `loop { select! { biased; ... } }`
DoDisp(s) ==
  IF s.unregQ # <<>> THEN [s EXCEPT !.reg = @ \ {Head(s.unregQ)}, !.unregQ = Tail(@)]
  ELSE IF s.lag > 0
       THEN IF "LaggedWatchEventsDropped" \in Dev THEN [s EXCEPT !.lag = 0]
            ELSE CancelAll([s EXCEPT !.lag = 0], s.reg)
  ELSE IF s.bq # <<>>
       THEN LET e == Head(s.bq)
                s1 == [s EXCEPT !.bq = Tail(@),
                                !.prog = IF "ProgressRevisionFromStaleCounter" \in Dev \/ e.rev < @ THEN @ ELSE e.rev]
            IN DeliverAll(s1, {w \in s.reg : Matches(s.tgt[w], e.key)}, e)
  ELSE IF s.hb THEN DeliverAll([s EXCEPT !.hb = FALSE], s.reg, ProgressEv(s.prog))
  ELSE s

\* the heartbeat interval elapses (MissedTickBehavior::Skip: at most one tick is pending)
CanHb(s) == s.hbCount < MaxHb
DoHb(s) == [s EXCEPT !.hb = TRUE, !.hbCount = @ + 1]

\* ----- one schedule step (used by Next and by the trace judge) --------------------------------------
Enabled(s, l) == CASE l.a = "Register" -> CanRegister(s, l.w)
                   [] l.a = "Drop" -> CanDrop(s, l.w)
                   [] l.a = "Recv" -> CanRecv(s, l.w)
                   [] l.a = "Apply" -> TRUE
                   [] l.a = "Disp" -> CanDisp(s)
                   [] l.a = "Hb" -> TRUE
                   [] OTHER -> FALSE
Do(s, l) == CASE l.a = "Register" -> DoRegister(s, l.w, l.t)
              [] l.a = "Drop" -> DoDrop(s, l.w)
              [] l.a = "Recv" -> DoRecv(s, l.w)
              [] l.a = "Apply" -> DoApply(s, l.ops)
              [] l.a = "Disp" -> DoDisp(s)
              [] l.a = "Hb" -> DoHb(s)
              [] OTHER -> s
\* a step that is not enabled is a no-op on the real system as well (harness skips it)
StepOrSkip(s, l) == IF Enabled(s, l) THEN Do(s, l) ELSE s

Batches == UNION {[1..k -> Ops] : k \in 1..MaxBatch}
Labels(s) ==
  UNION {{[a |-> "Register", w |-> w, t |-> t] : t \in Targets[w]} : w \in {x \in W : CanRegister(s, x)}}
  \cup {[a |-> "Drop", w |-> w] : w \in {x \in W : CanDrop(s, x)}}
  \cup {[a |-> "Recv", w |-> w] : w \in {x \in W : CanRecv(s, x)}}
  \cup {[a |-> "Apply", ops |-> b] : b \in {x \in Batches : s.nops + Len(x) <= MaxOps}}
  \cup (IF CanDisp(s) THEN {[a |-> "Disp"]} ELSE {})
  \cup (IF CanHb(s) THEN {[a |-> "Hb"]} ELSE {})

Init == st = Init0 /\ sched = <<>>
Next == \E l \in Labels(st) : st' = Do(st, l) /\ sched' = Append(sched, l)
Spec == Init /\ [][Next]_vars

\* ----- C24 ----------------------------------------------------------------------------------------
\* every monitor is a predicate over (ground truth s, delivered sequence g of watcher w), so that the trace
\* judge can evaluate it on the sequence the real watcher received
Range(f) == {f[i] : i \in DOMAIN f}
DataOf(g) == SelectSeq(g, IsData)
Cancelled(g) == g # <<>> /\ g[Len(g)].ty = "canceled"
\* put/delete events only for the watcher's key / keys under its prefix
OnlyOwnKeys(s, w, g) == \A i \in DOMAIN g : IsData(g[i]) => Matches(s.tgt[w], g[i].key)
\* only committed changes (a failed CAS / no-op has no event in hist), with their type, key and revision
OnlyCommitted(s, w, g) == \A i \in DOMAIN g : IsData(g[i]) => g[i] \in Range(s.hist)
\* apply order, strictly increasing revisions, no duplicates
StrictOrder(s, w, g) == LET d == DataOf(g) IN \A i \in 1..(Len(d) - 1) : d[i].rev < d[i + 1].rev
\* nothing after CANCELED
CancelIsLast(s, w, g) == \A i \in DOMAIN g : g[i].ty = "canceled" => i = Len(g)
\* what the watcher must have seen: every matching change since its registration
Must(s, w) == {s.hist[i] : i \in {j \in DOMAIN s.hist : j > s.regAt[w] /\ Matches(s.tgt[w], s.hist[j].key)}}
Missing(s, w, g) == Must(s, w) \ Range(g)
\* once everything in flight has been delivered: no gap, or the stream was ended by CANCELED
NoSilentGap(s, w, g) == s.cl[w] = "open" => (Cancelled(g) \/ Missing(s, w, g) = {})
\* (not part of C24's statement; reported as an observation) progress never claims less than what was delivered
ProgressNotBehind(s, w, g) == \A i \in DOMAIN g : g[i].ty = "progress" =>
                                 \A j \in 1..(i - 1) : IsData(g[j]) => g[j].rev <= g[i].rev

Quiescent(s) == s.bq = <<>> /\ s.lag = 0 /\ s.unregQ = <<>> /\ ~s.hb /\ \A w \in W : s.buf[w] = <<>>

C24_Safety == \A w \in W : /\ OnlyOwnKeys(st, w, st.got[w]) /\ OnlyCommitted(st, w, st.got[w])
                           /\ StrictOrder(st, w, st.got[w]) /\ CancelIsLast(st, w, st.got[w])
C24_NoSilentGap == Quiescent(st) => \A w \in W : NoSilentGap(st, w, st.got[w])
Obs_Progress == \A w \in W : ProgressNotBehind(st, w, st.got[w])

\* VIEW for exhaustive runs: the past is kept only as far as it can still matter.  Per watcher the delivered
\* sequence is replaced by a summary that determines every monitor now and in the future (are the safety
\* monitors still true, was it cancelled, which owed events are still missing, last delivered revision); the
\* ground-truth history and the registration positions are dropped (events owed in the future have indexes
\* beyond the current history in every state of the class).
Summary(s, w) == LET g == s.got[w] IN
  [ok |-> OnlyOwnKeys(s, w, g) /\ OnlyCommitted(s, w, g) /\ StrictOrder(s, w, g) /\ CancelIsLast(s, w, g),
   pok |-> ProgressNotBehind(s, w, g), cancelled |-> Cancelled(g),
   missing |-> {e.rev : e \in Missing(s, w, g)},
   last |-> IF DataOf(g) = <<>> THEN 0 ELSE DataOf(g)[Len(DataOf(g))].rev]
view == [st EXCEPT !.hist = <<>>, !.lost = {}, !.regAt = [w \in W |-> 0], !.got = [w \in W |-> Summary(st, w)]]

\* vacuity controls (must be violated)
NeverDelivered == \A w \in W : st.got[w] = <<>>
NeverCancelled == \A w \in W : ~Cancelled(st.got[w])
NeverLagged == st.lost = {}

\* witnesses: the shortest schedule on which the as-implemented model breaks a monitor
GapWitness == C24_NoSilentGap \/ (PrintT(<<"WITNESS", ToJson(sched)>>) /\ FALSE)
ProgressWitness == Obs_Progress \/ (PrintT(<<"WITNESS", ToJson(sched)>>) /\ FALSE)

Emit == (Len(sched) = EmitDepth) => PrintT(<<"REPLAY", ToJson(sched)>>)
=============================================================================
