------------------------------ MODULE LogStore ------------------------------
(***************************************************************************)
(* Reference semantics of the `LogStore` contract of d-engine               *)
(* (d-engine-core/src/storage/storage_engine.rs), implemented by            *)
(* FileLogStore and RocksDBLogStore (C20):                                  *)
(*   a store is a partial map  index -> entry  plus the purge boundary      *)
(*   recorded by purge().  Indexes are ARBITRARY: batches may be out of     *)
(*   order, may re-write an index and may leave holes.                      *)
(*                                                                         *)
(*   persist_entries(es)     every entry of es overwrites its index         *)
(*   truncate(from)          removes every index >= from                    *)
(*   replace_range(from, es) truncate(from) then persist(es), one atomic    *)
(*                           step (no intermediate state is ever visible,   *)
(*                           live or after a crash)                         *)
(*   purge(c)                removes every index <= c.index, boundary := c  *)
(*   reset()                 removes every entry                            *)
(*   flush()                 no change of contents                          *)
(*   last_index()            highest index present, 0 if none               *)
(*   entry / get_entries     the map                                        *)
(*   load_purge_boundary()   c of the last purge (never cleared)            *)
(* A reopened store (fresh instance on what a killed process left on the    *)
(* file system, or after a graceful drop) answers exactly like the live     *)
(* one.                                                                     *)
(*                                                                         *)
(* TLC emits the complete state graph (Emit = TRUE): states with the        *)
(* expected answer of every query, edges with the operation.  dv-store      *)
(* walks it on both real engines side by side.                              *)
(***************************************************************************)
EXTENDS Integers, Sequences, FiniteSets, TLC, Json

CONSTANTS MaxIdx,     \* indexes 1..MaxIdx
          NVal,       \* an entry written at an index is one of NVal distinguishable entries
          Emit

VARIABLES ents,       \* [Idx -> 0..NVal]; 0 = absent; value v = entry with term v
          pb          \* purge boundary [i, t]; i = 0: purge never called

vars == <<ents, pb>>

Idx  == 1..MaxIdx
Vals == 1..NVal
None == [i |-> 0, t |-> 0]
Max(S) == CHOOSE x \in S : \A y \in S : x >= y

\* batches: one entry, or two entries with different indexes in either order
Singles == {<<[i |-> i, v |-> v]>> : i \in Idx, v \in Vals}
Pairs   == {<<[i |-> p[1], v |-> p[3]], [i |-> p[2], v |-> p[3]]>> :
               p \in {q \in Idx \X Idx \X Vals : q[1] # q[2]}}
    \* (re-writing an index with different content happens across batches)
Batches == Singles \cup Pairs

-----------------------------------------------------------------------------
RECURSIVE Put(_, _)
Put(e, es) == IF es = <<>> THEN e
              ELSE Put([e EXCEPT ![es[1].i] = es[1].v], Tail(es))
Trunc(e, from) == [i \in Idx |-> IF i >= from THEN 0 ELSE e[i]]
PurgeUpTo(e, c) == [i \in Idx |-> IF i <= c THEN 0 ELSE e[i]]

LastIndex(e) == IF \A i \in Idx : e[i] = 0 THEN 0 ELSE Max({i \in Idx : e[i] # 0})
RECURSIVE RangeRead(_, _, _)
RangeRead(e, x, y) == IF x > y THEN <<>>
                      ELSE (IF x \in Idx /\ e[x] # 0 THEN <<[i |-> x, v |-> e[x]]>> ELSE <<>>)
                           \o RangeRead(e, x + 1, y)

\* expected answers (position k of a sequence answers for argument k-1)
Obs(e, b) ==
  [last  |-> LastIndex(e),
   pb    |-> b,
   entry |-> [k \in 1..(MaxIdx + 2) |-> IF (k - 1) \in Idx THEN e[k - 1] ELSE 0],
   range |-> [x \in 1..(MaxIdx + 2) |-> [y \in 1..(MaxIdx + 2) |-> RangeRead(e, x - 1, y - 1)]]]

Key(e, b) == <<e, <<b.i, b.t>>>>

-----------------------------------------------------------------------------
Init == ents = [i \in Idx |-> 0] /\ pb = None

Do(op, e, b) ==
  /\ ents' = e
  /\ pb' = b
  /\ (Emit => PrintT(<<"EDGE", ToJson([f |-> Key(ents, pb), op |-> op, t |-> Key(e, b)])>>))

Persist  == \E es \in Batches : Do([k |-> "persist", es |-> es], Put(ents, es), pb)
Truncate == \E from \in 1..(MaxIdx + 1) : Do([k |-> "truncate", from |-> from], Trunc(ents, from), pb)
Replace  == \E from \in 1..(MaxIdx + 1), es \in Batches \cup {<<>>} :
               Do([k |-> "replace", from |-> from, es |-> es], Put(Trunc(ents, from), es), pb)
\* purge boundaries only move forward (purge is driven by snapshots of a growing prefix)
PurgeTo  == \E c \in Idx, t \in Vals :
               /\ c > pb.i
               /\ (ents[c] # 0) => (t = ents[c])
               /\ Do([k |-> "purge", i |-> c, t |-> t], PurgeUpTo(ents, c), [i |-> c, t |-> t])
ResetAll == Do([k |-> "reset"], [i \in Idx |-> 0], pb)
Flush    == Do([k |-> "flush"], ents, pb)

Next == Persist \/ Truncate \/ Replace \/ PurgeTo \/ ResetAll \/ Flush
Spec == Init /\ [][Next]_vars

-----------------------------------------------------------------------------
TypeOK == ents \in [Idx -> 0..NVal] /\ pb.i \in 0..MaxIdx /\ pb.t \in 0..NVal
\* consistency of the reference answers
AnswersConsistent ==
  /\ LastIndex(ents) = 0 <=> RangeRead(ents, 0, MaxIdx + 1) = <<>>
  /\ \A i \in Idx : (ents[i] # 0) => (i <= LastIndex(ents))
  /\ Len(RangeRead(ents, 0, MaxIdx + 1)) = Cardinality({i \in Idx : ents[i] # 0})
EmitState == Emit => PrintT(<<"STATE", ToJson([k |-> Key(ents, pb), obs |-> Obs(ents, pb)])>>)
=============================================================================
