SPECIFICATION Spec
CONSTANTS
  Dev = {"HardStateSavedOnlyOnDrop", "Prev0ResetsFollowerLog", "GappedAppendRequest", "VoteResetOnAnyStepDown", "EmptyAEAckReportsWholeLog", "FollowerCommitUsesWholeLog"}
INVARIANT Done
CHECK_DEADLOCK FALSE
