SPECIFICATION TSpec
CONSTANTS
  W = {"w1", "w2", "w3"}
  Targets <- TraceTargets
  Ops <- TraceOps
  QCap = 2
  BufCap = 1
  MaxOps = 100
  MaxBatch = 2
  MaxHb = 100
  Dev = {"LaggedWatchEventsDropped", "ProgressRevisionFromStaleCounter"}
  EmitDepth = 0
CHECK_DEADLOCK FALSE
INVARIANT Done
