------------------------------- MODULE MergeAE -------------------------------
(***************************************************************************)
(* C36 - merging queued AppendEntries does not change the outcome.         *)
(*                                                                         *)
(* The follower operator F = (HandleAE_State, HandleAE_Resp) is the one of *)
(* DECore.tla (the same operator the cluster model and the trace judge     *)
(* use, with its as-implemented deviations).  This module adds             *)
(*   Merge      Raft::merge_append_entries + the process_inbound_events     *)
(*              loop (raft.rs), as implemented                              *)
(*   RunSeq     the queue processed one request at a time                   *)
(*   RunMerged  the queue processed the way the node does: merge at the     *)
(*              front of the buffer, handle the merged request once, fan    *)
(*              the single response out to every merged sender              *)
(* and the property                                                         *)
(*   MergeTransparent ==  RunMerged(s, q) = RunSeq(s, q)                    *)
(*                        (log, commit index, per-sender acknowledgement).  *)
(*                                                                         *)
(* Deviations of the merge step (MergeDevs; kept apart from DECore's Dev,   *)
(* which selects the follower operator, so that one TLC run evaluates the  *)
(* as-implemented and the repaired merge step on the same cases):          *)
(*   MergeKeyedOnCount   a request is absorbed when its prev_log_index       *)
(*                       equals prev + NUMBER of entries merged so far and   *)
(*                       the terms are equal; prev_log_term, the real index  *)
(*                       of the last merged entry are not looked at.         *)
(*   MergeWithoutLegalityCheck  requests are merged before the first one is  *)
(*                       checked against the log: when it is rejected, the   *)
(*                       absorbed ones are rejected with it.                 *)
(*   MergeIgnoresCommitOrder  the merged request carries the maximum of the  *)
(*                       leader commit indexes even when a later request      *)
(*                       carries a lower one (out-of-order queue).            *)
(*   MergeOneAckForAll   one response (of the merged request) is sent to     *)
(*                       every merged sender.                                *)
(* MD = {} is the repaired design: absorb only a request that really         *)
(* continues the merged one (contiguous entries, matching prev term, first   *)
(* request legal in the current state), acknowledge each sender with the     *)
(* response of its own request.  TLC checks RepairedMergeTransparent over    *)
(* the whole enumerated space; for the as-implemented merge step the module  *)
(* is an enumerator + oracle: one initial state per (follower, queue) case,  *)
(* one CASE line with the predicted outcome of both runs, executed by        *)
(* `dv-funcs merge` on two identically prepared real followers.              *)
(***************************************************************************)
EXTENDS DECore, Integers

CONSTANTS
  FLogs,        \* follower logs: set of sequences of terms (entry j has index j)
  FCommits,     \* follower commit indexes tried (capped by the log length)
  FTerm,        \* follower's current term
  MaxMerges,    \* values of batching.max_merge_entries
  LTerms,       \* leader log: LTerms[i] = term of the entry with index i in every request
  Terms,        \* request terms
  Prevs,        \* prev_log_index of the first request
  Shapes,       \* subset of {"hb","one","two","gap"}
  MinQ, MaxQ,   \* queue lengths
  Lcs           \* <<lo, hi>> leader commit values

MergeDevSeq == <<"MergeKeyedOnCount", "MergeWithoutLegalityCheck", "MergeIgnoresCommitOrder", "MergeOneAckForAll">>
MergeDevs == {MergeDevSeq[j] : j \in 1..Len(MergeDevSeq)}

(***************************************************************************)
(* Requests                                                                 *)
(***************************************************************************)
Ent(i) == [i |-> i, t |-> LTerms[i]]
EntsOf(prev, sh) ==
  CASE sh = "hb" -> <<>>
    [] sh = "one" -> <<Ent(prev + 1)>>
    [] sh = "two" -> <<Ent(prev + 1), Ent(prev + 2)>>
    [] sh = "gap" -> <<Ent(prev + 1), Ent(prev + 3)>>      \* the gapped request the leader can build (C08)
Req(r, lc) == [from |-> 1, t |-> r.t, prev |-> r.prev, pt |-> IF r.prev = 0 THEN 0 ELSE LTerms[r.prev],
               ents |-> EntsOf(r.prev, r.sh), lc |-> lc]
NextPrev(r) == r.prev + Len(EntsOf(r.prev, r.sh))           \* what the merge rule computes
MaxPrev == Len(LTerms) - 3
RawReq == [t : Terms, prev : 0..MaxPrev, sh : Shapes]
\* a following request is "consecutive": it continues, overlaps, repeats or leaves a gap after its predecessor
Follows(r, x) == x.prev \in {NextPrev(r) - 1, NextPrev(r), NextPrev(r) + 1, r.prev}
RawQueues ==
  UNION {{q \in [1..n -> RawReq] : /\ q[1].prev \in Prevs
                                   /\ \A j \in 1..n - 1 : Follows(q[j], q[j + 1])} : n \in MinQ..MaxQ}
\* leader-commit patterns over the queue: 1 = constant low, 2 = rising, 3 = falling
LcOf(p, j) == IF p = 1 THEN Lcs[1] ELSE IF p = 2 THEN (IF j = 1 THEN Lcs[1] ELSE Lcs[2])
              ELSE (IF j = 1 THEN Lcs[2] ELSE Lcs[1])
QueueOf(rq, lcs) == [j \in 1..Len(rq) |-> Req(rq[j], lcs[j])]

FLog(ts) == [j \in 1..Len(ts) |-> [i |-> j, t |-> ts[j]]]
Follower(ts, c) == [role |-> "F", term |-> FTerm, vote |-> NoVote, log |-> FLog(ts),
                    commit |-> IF c > Len(ts) THEN Len(ts) ELSE c]

(***************************************************************************)
(* The two runs                                                             *)
(***************************************************************************)
\* The log store is keyed by index: an entry written twice is kept once (last write wins) and entries are
\* read back in index order.  DECore's FilterAppend appends sequences, which is the same thing for requests
\* with strictly increasing indexes; a merged request can repeat or reorder indexes, hence the normalisation.
RECURSIVE SortSet(_)
SortSet(S) == IF S = {} THEN <<>> ELSE LET m == CHOOSE x \in S : \A y \in S : x <= y IN <<m>> \o SortSet(S \ {m})
NormLog(log) ==
  IF \A j \in 1..Len(log) - 1 : log[j].i < log[j + 1].i THEN log ELSE
  LET ix == SortSet({log[j].i : j \in 1..Len(log)})
  IN [k \in 1..Len(ix) |-> log[CHOOSE j \in 1..Len(log) : log[j].i = ix[k] /\ \A o \in 1..Len(log) : log[o].i = ix[k] => o <= j]]
F_State(s, a) == LET n == HandleAE_State(s, a) IN [n EXCEPT !.log = NormLog(@)]

RECURSIVE RunSeq(_, _)
RunSeq(s, q) ==
  IF q = <<>> THEN [s |-> s, acks |-> <<>>]
  ELSE LET r == RunSeq(F_State(s, Head(q)), Tail(q))
       IN [s |-> r.s, acks |-> <<HandleAE_Resp(s, Head(q))>> \o r.acks]

ContigReq(a) == \A j \in 1..Len(a.ents) : a.ents[j].i = a.prev + j
LastT(a) == IF Len(a.ents) = 0 THEN a.pt ELSE a.ents[Len(a.ents)].t
\* may request x be absorbed into the merged request m (np = count-based next prev)?
Absorbable(s, m, np, x, mm, MD) ==
  /\ x.prev = np /\ x.t = m.t
  /\ Len(m.ents) + Len(x.ents) <= mm
  /\ "MergeKeyedOnCount" \notin MD =>
       /\ ContigReq(m) /\ ContigReq(x) /\ x.pt = LastT(m) /\ x.from = m.from
  /\ "MergeWithoutLegalityCheck" \notin MD => s.term <= m.t /\ AELegal(s, m)
  /\ "MergeIgnoresCommitOrder" \notin MD => x.lc >= m.lc

RECURSIVE Absorb(_, _, _, _, _, _, _)
Absorb(s, m, np, rest, mm, n, MD) ==      \* -> [req, n]: merged request and number of queue elements consumed
  IF rest # <<>> /\ Absorbable(s, m, np, Head(rest), mm, MD)
  THEN Absorb(s, [m EXCEPT !.ents = @ \o Head(rest).ents, !.lc = Max(@, Head(rest).lc)],
              np + Len(Head(rest).ents), Tail(rest), mm, n + 1, MD)
  ELSE [req |-> m, n |-> n]

RECURSIVE RunMerged(_, _, _, _)
RunMerged(s, q, mm, MD) ==
  IF q = <<>> THEN [s |-> s, acks |-> <<>>, groups |-> <<>>]
  ELSE LET g    == Absorb(s, Head(q), Head(q).prev + Len(Head(q).ents), Tail(q), mm, 1, MD)
           resp == HandleAE_Resp(s, g.req)
           own  == RunSeq(s, SubSeq(q, 1, g.n)).acks
           r    == RunMerged(F_State(s, g.req), SubSeq(q, g.n + 1, Len(q)), mm, MD)
       IN [s |-> r.s,
           acks |-> (IF "MergeOneAckForAll" \in MD THEN [j \in 1..g.n |-> resp] ELSE own) \o r.acks,
           groups |-> <<g.n>> \o r.groups]

Outcome(r) == [log |-> r.s.log, commit |-> r.s.commit, acks |-> r.acks]

(***************************************************************************)
(* Enumeration                                                              *)
(***************************************************************************)
\* one seed state per (follower, merge limit); its successors are the cases (so that TLC's workers evaluate
\* the cases in parallel)
VARIABLE c
Init == c \in {x \in [st : {"seed"}, flog : FLogs, fc : FCommits, mm : MaxMerges] : x.fc <= Len(x.flog)}
Next == /\ c.st = "seed"
        /\ \E rq \in RawQueues, lcp \in 1..3 :
             /\ Len(rq) = 1 => lcp # 2
             /\ c' = [st |-> "case", flog |-> c.flog, fc |-> c.fc, mm |-> c.mm, rq |-> rq, lcp |-> lcp]
Spec == Init /\ [][Next]_c

S0 == Follower(c.flog, c.fc)
Q == QueueOf(c.rq, [j \in 1..Len(c.rq) |-> LcOf(c.lcp, j)])
SeqRun == RunSeq(S0, Q)
Mrg == RunMerged(S0, Q, c.mm, MergeDevs)        \* as implemented
MrgRepaired == RunMerged(S0, Q, c.mm, {})   \* repaired merge step

\* the property, for the merge step as implemented (fails: see the known findings) ...
MergeTransparent == c.st = "case" => Outcome(Mrg) = Outcome(SeqRun)
\* ... and for the repaired merge step on the repaired follower (Dev = {}): must hold on every case.
\* (With the as-implemented follower even a contiguity-checked merge is not transparent: "commit from the
\* whole log" + "prev = 0 resets the log" make the commit index depend on how heartbeats are grouped.)
RepairedMergeTransparent == c.st = "case" => Outcome(MrgRepaired) = Outcome(SeqRun)

(***************************************************************************)
(* Output                                                                   *)
(***************************************************************************)
JoinS(seq, sep) == IF seq = <<>> THEN "-" ELSE
  LET F[i \in 1..Len(seq)] == IF i = 1 THEN seq[1] ELSE F[i - 1] \o sep \o seq[i] IN F[Len(seq)]
N(x) == ToString(x)
LogS(log) == JoinS([j \in 1..Len(log) |-> N(log[j].i) \o ":" \o N(log[j].t)], ",")
ReqS(a) == N(a.t) \o "/" \o N(a.prev) \o "/" \o N(a.pt) \o "/" \o N(a.lc) \o "/" \o LogS(a.ents)
AckS(r) == (IF r.kind = "ok" THEN "ok." \o N(r.mi) \o "." \o N(r.mt)
            ELSE IF r.kind = "conflict" THEN "conflict." \o N(r.ct) \o "." \o N(r.ci)
            ELSE "higher." \o N(r.mt)) \o "@" \o N(r.t)
\* attribution of a difference: the first deviation (in the order of MergeDevSeq: merge conditions first, the
\* response fan-out last) whose repair alone restores the one-at-a-time outcome; none = it takes several (or a
\* follower deviation is involved)
Attr == IF Outcome(Mrg) = Outcome(SeqRun) THEN <<>>
        ELSE LET R == SelectSeq(MergeDevSeq, LAMBDA d : Outcome(RunMerged(S0, Q, c.mm, MergeDevs \ {d})) = Outcome(SeqRun))
             IN IF R = <<>> THEN <<>> ELSE <<R[1]>>
OutS(r) == LogS(r.s.log) \o " " \o N(r.s.commit) \o " " \o JoinS([j \in 1..Len(r.acks) |-> AckS(r.acks[j])], ";")
Line == "CASE " \o LogS(S0.log) \o " " \o N(S0.commit) \o " " \o N(S0.term) \o " " \o N(c.mm) \o " "
        \o JoinS([j \in 1..Len(Q) |-> ReqS(Q[j])], ";")
        \o " S " \o OutS(SeqRun) \o " M " \o OutS(Mrg) \o " G " \o JoinS([j \in 1..Len(Mrg.groups) |-> N(Mrg.groups[j])], ",")
        \o " A " \o JoinS(Attr, ",")
Emit == c.st = "case" => PrintT(Line)
=============================================================================
