------------------------------ MODULE Compaction ------------------------------
(***************************************************************************)
(* Log compaction of d-engine at cluster level (property C33): a stable      *)
(* leader L, one lagging follower F, the rest of the quorum abstracted into   *)
(* the Commit action.  One term, so entries are identified by their index and *)
(* a follower log is the interval base+1 .. last.                             *)
(*                                                                          *)
(* Actions = the critical sections of the code:                              *)
(*   Write / Commit / Apply(n)                                                *)
(*   Snapshot(n)   handle_snapshot_created on leader and follower: snapshot   *)
(*                 labelled applied - Retained, then purge if can_purge_logs  *)
(*                 (DECore!PurgeLegal)                                        *)
(*   Send          prepare_batch_requests: snapshot or AppendEntries          *)
(*                 (DECore!NeedsSnapshot), prev term from entry_term()        *)
(*                 (known only down to the purge boundary)                    *)
(*   DeliverAE     check_append_entries_request_is_legal + append             *)
(*   DeliverSnap   InstallSnapshotChunk: state replaced, log boundary set     *)
(*   DeliverAR / SnapDone   handle_append_result / snapshot push completed    *)
(* At most one message is in flight (the per-peer worker is a pipeline; this  *)
(* keeps the liveness check free of unfair-delivery artefacts).               *)
(*                                                                          *)
(* The implementation's SnapDone (raft.rs, SnapshotPushCompleted) resets the  *)
(* peer's next index to last + 1, as a new leader would; the follower's       *)
(* conflict answer then walks it back to the snapshot boundary.  There is no  *)
(* named deviation in this module: the as-implemented behaviour satisfies     *)
(* all four properties.                                                       *)
(* Mutants: "M_NextIndexNotAdvancedAfterSnapshot" (a successful push leaves   *)
(*   next untouched: the snapshot is pushed again on every heartbeat),        *)
(*   "M_SnapshotBelowBoundaryMinus1" (next < first - 1),                      *)
(*   "M_PurgeUncommitted" (purge up to the snapshot label whatever the commit *)
(*   index), "M_PurgeBeforeSnapshot" (purge up to applied before the snapshot *)
(*   exists), "M_NextAfterSnapshotIsBoundary" (next = idx instead of idx+1).  *)
(***************************************************************************)
EXTENDS Naturals, FiniteSets, TLC

CONSTANTS MaxIdx,      \* number of entries ever written
          Threshold,   \* snapshot when applied - snap >= Threshold
          Retained,    \* snapshot label = applied - Retained
          Cap,         \* entries per AppendEntries
          Dev

VARIABLES L, F, msg
vars == <<L, F, msg>>

Max(a, b) == IF a > b THEN a ELSE b
Min(a, b) == IF a < b THEN a ELSE b
NeedsSnapshot(first, nextp) ==
  IF "M_SnapshotBelowBoundaryMinus1" \in Dev THEN first > 1 /\ nextp + 1 < first ELSE first > 1 /\ nextp < first
PurgeLegal(commit, lastPurged, lastIncluded) ==
  (lastIncluded < commit \/ "M_PurgeUncommitted" \in Dev) /\ lastPurged < lastIncluded

None == [ty |-> "none"]
Init ==
  /\ L = [last |-> 0, commit |-> 0, applied |-> 0, snap |-> 0, base |-> 0, next |-> 1, match |-> 0]
  /\ F = [last |-> 0, commit |-> 0, applied |-> 0, snap |-> 0, base |-> 0]
  /\ msg = None

Write == L.last < MaxIdx /\ L' = [L EXCEPT !.last = @ + 1] /\ UNCHANGED <<F, msg>>
\* the healthy majority acknowledges: the leader's commit index moves
Commit == L.commit < L.last /\ \E c \in (L.commit + 1)..L.last : L' = [L EXCEPT !.commit = c] /\ UNCHANGED <<F, msg>>
ApplyL == L.applied < L.commit /\ L' = [L EXCEPT !.applied = L.commit] /\ UNCHANGED <<F, msg>>
ApplyF == F.applied < F.commit /\ F' = [F EXCEPT !.applied = F.commit] /\ UNCHANGED <<L, msg>>

\* snapshot creation + purge decision of one node (s = its record)
Snap(s) ==
  LET label == IF "M_PurgeBeforeSnapshot" \in Dev THEN s.snap ELSE s.applied - Retained
      cut   == IF "M_PurgeBeforeSnapshot" \in Dev THEN s.applied - Retained ELSE label
      s1    == [s EXCEPT !.snap = Max(@, label)]
  IN IF PurgeLegal(s.commit, s.base, cut) THEN [s1 EXCEPT !.base = cut] ELSE s1
CanSnap(s) == s.applied >= s.snap + Threshold /\ s.applied > Retained
SnapshotL == CanSnap(L) /\ L' = Snap(L) /\ UNCHANGED <<F, msg>>
SnapshotF == CanSnap(F) /\ F' = Snap(F) /\ UNCHANGED <<L, msg>>

\* leader: one request to the follower
First(s) == IF s.base > 0 THEN s.base + 1 ELSE IF s.last > 0 THEN 1 ELSE 0
Send ==
  /\ msg = None
  /\ IF NeedsSnapshot(First(L), L.next)
     THEN /\ L.snap > 0
          /\ msg' = [ty |-> "SNAP", idx |-> L.snap]
          /\ UNCHANGED <<L, F>>
     ELSE LET prev == L.next - 1
              pt   == IF prev = 0 THEN 0 ELSE IF prev >= L.base /\ prev <= L.last THEN 1 ELSE 0   \* entry_term(prev).unwrap_or(0)
              hi   == Min(L.last, prev + Cap)
              cnt  == IF hi > prev THEN hi - prev ELSE 0
          IN /\ msg' = [ty |-> "AE", prev |-> prev, pt |-> pt, cnt |-> cnt, lc |-> L.commit]
             /\ L' = [L EXCEPT !.next = Max(prev + cnt + 1, L.match + 1)]          \* speculative advance
             /\ UNCHANGED F

\* follower: entry_term(i) of its log (1 = the term, 0 = unknown)
FTerm(i) == IF i > 0 /\ ((i > F.base /\ i <= F.last) \/ (i = F.base)) THEN 1 ELSE 0
DeliverAE ==
  /\ msg.ty = "AE"
  /\ IF msg.prev = 0 /\ msg.pt = 0                                   \* "virtual log" request
     THEN LET nl == Max(F.last, msg.cnt)
          IN /\ F' = [F EXCEPT !.last = nl, !.commit = Max(@, Min(msg.lc, nl))]
             /\ msg' = [ty |-> "AR", kind |-> "ok", mi |-> msg.cnt, ct |-> 0, ci |-> 0]
     ELSE IF FTerm(msg.prev) # 0 /\ FTerm(msg.prev) = msg.pt          \* prev matches
     THEN LET nl == Max(F.last, msg.prev + msg.cnt)
          IN /\ F' = [F EXCEPT !.last = nl, !.commit = Max(@, Min(msg.lc, nl))]
             /\ msg' = [ty |-> "AR", kind |-> "ok", mi |-> msg.prev + msg.cnt, ct |-> 0, ci |-> 0]
     ELSE IF FTerm(msg.prev) # 0                                     \* term mismatch: first index of the term
     THEN /\ msg' = [ty |-> "AR", kind |-> "conflict", mi |-> 0, ct |-> 1, ci |-> IF F.base > 0 THEN F.base ELSE 1]
          /\ UNCHANGED F
     ELSE /\ msg' = [ty |-> "AR", kind |-> "conflict", mi |-> 0, ct |-> 0, ci |-> F.last + 1]
          /\ UNCHANGED F
  /\ UNCHANGED L

DeliverAR ==
  /\ msg.ty = "AR"
  /\ IF msg.kind = "ok"
     THEN L' = [L EXCEPT !.match = Max(@, msg.mi), !.next = Max(Max(msg.mi + 1, @), Max(L.match, msg.mi) + 1)]
     ELSE LET hint == IF msg.ct # 0 /\ msg.ci # 0 THEN L.last + 1          \* last_index_for_term(ct) + 1
                      ELSE IF msg.ci # 0 THEN msg.ci ELSE (IF L.next > 0 THEN L.next - 1 ELSE 0)
          IN L' = [L EXCEPT !.next = Max(Max(hint, 1), L.match + 1)]
  /\ msg' = None /\ UNCHANGED F

DeliverSnap ==
  /\ msg.ty = "SNAP"
  /\ IF msg.idx > F.applied
     \* the state machine and the log boundary move; the commit index is left to the next AppendEntries
     THEN F' = [F EXCEPT !.snap = Max(@, msg.idx), !.applied = msg.idx,
                         !.base = Max(@, msg.idx), !.last = Max(@, msg.idx)]
     ELSE UNCHANGED F                                                 \* stale snapshot: nothing to install
  /\ msg' = [ty |-> "SR", idx |-> msg.idx]
  /\ UNCHANGED L
SnapDone ==
  /\ msg.ty = "SR"
  /\ IF "M_NextIndexNotAdvancedAfterSnapshot" \in Dev THEN UNCHANGED L
     ELSE IF "M_NextAfterSnapshotIsBoundary" \in Dev THEN L' = [L EXCEPT !.next = msg.idx]
     ELSE L' = [L EXCEPT !.next = L.last + 1]              \* init_peers_next_index_and_match_index(last_entry_id, [peer])
  /\ msg' = None /\ UNCHANGED F

Next == Write \/ Commit \/ ApplyL \/ ApplyF \/ SnapshotL \/ SnapshotF \/ Send \/ DeliverAE \/ DeliverAR \/ DeliverSnap \/ SnapDone
Repl == Send \/ DeliverAE \/ DeliverAR \/ DeliverSnap \/ SnapDone
Spec == Init /\ [][Next]_vars
\* fairness: replication steps, commit and apply keep happening
FairSpec == Spec /\ WF_vars(Repl) /\ WF_vars(Commit) /\ WF_vars(ApplyL) /\ WF_vars(ApplyF) /\ WF_vars(Write)

\* C33 safety: a node purges only what is committed and covered by a snapshot it holds
\* (committed = committed in the cluster: an installed snapshot moves the follower's boundary before its own commit index)
PurgeSafe(s) == s.base <= L.commit /\ s.base <= s.snap
C33_PurgeSafe == PurgeSafe(L) /\ PurgeSafe(F)
\* the leader never builds an AppendEntries request whose previous-log term it cannot know
C33_PrevTermKnown == msg.ty = "AE" => (msg.pt # 0 \/ msg.prev = 0)
\* a follower's log never has a hole: what it holds is base+1 .. last with base <= last, and its state machine is
\* never ahead of what the leader committed
C33_FollowerSane == F.base <= F.last /\ F.commit <= L.last /\ F.applied <= L.commit
\* C33 liveness: replication keeps working across the purge boundary - the lagging follower ends up with every entry
C33_CatchUp == <>[](F.last = MaxIdx /\ F.commit = MaxIdx)
=============================================================================
