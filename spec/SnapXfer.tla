------------------------------ MODULE SnapXfer ------------------------------
(***************************************************************************)
(* Receiver side of a snapshot transfer in d-engine (property C17).         *)
(*                                                                         *)
(* Code modelled (d-engine-core/src/state_machine_handler):                 *)
(*   DefaultStateMachineHandler::apply_snapshot_stream_from_leader          *)
(*     -> process_snapshot_stream   (validation loop over the chunk channel)*)
(*     -> SnapshotAssembler::{new, write_chunk, finalize}                   *)
(*     -> decompress_to_directory -> StateMachine::apply_snapshot_from_file *)
(*                                                                         *)
(* A behaviour is a sequence of transfer attempts.  For every attempt a     *)
(* leader produces the chunk stream of a snapshot (the real sender's        *)
(* chunks: seq 0..n-1, total n, one term and leader id, valid crc, metadata *)
(* on chunk 0); the environment then edits what the receiver's channel      *)
(* delivers (drop, duplicate, swap, corrupt, leader / term change from some *)
(* chunk on, metadata stripped, early close, silence longer than the chunk  *)
(* timeout) and may crash the receiver; the receiver runs step by step:     *)
(*   open (create+truncate temp) ; loop: recv -> validate -> write -> ack ; *)
(*   count check ; flush+rename temp -> final ; unpack ; apply ; return.    *)
(*                                                                         *)
(* Durable state: temp file, final snapshot files, state machine.           *)
(* Property: the state machine and the final files change in an attempt     *)
(* only if the items taken from the channel are exactly the complete valid  *)
(* in-order stream of one leader and term followed by close; previous final *)
(* files never change; a final file never holds anything but a complete     *)
(* snapshot (it appears by rename).  These are state invariants, so they    *)
(* cover a crash at every step.                                             *)
(*                                                                         *)
(* Dev: named deviations of the receiver.  {} is the design and - as far as *)
(* the conformance runs show - the current code.  The other names are used  *)
(* to show that the invariants are not vacuous (each must break one).       *)
(***************************************************************************)
EXTENDS Naturals, Sequences, FiniteSets, TLC, Json

CONSTANTS MaxChunks,   \* streams of 1..MaxChunks chunks
          MaxFaults,   \* fault budget of a behaviour (stream edits + crashes)
          Kinds,       \* enabled fault kinds
          Attempts,    \* transfers per behaviour
          Dev,         \* subset of DevNames
          EmitOn       \* TRUE: print every complete behaviour as a REPLAY line

AllKinds == {"drop", "dup", "swap", "corrupt", "leader", "term", "nometa", "close", "gap", "crash"}
DevNames == {"NoTruncate", "NoCountCheck", "NoOrderCheck", "NoChecksum", "NoLeaderCheck", "InPlace",
             "ApplyBeforeRename"}

VARIABLES phase,     \* "pick" | "edit" | "run" | "fin"
          att,       \* number of the current attempt
          snap, n,   \* snapshot sent in this attempt and its number of chunks
          nOf,       \* chunk count of snapshot A / B once chosen (0 = not yet)
          stream,    \* what the channel delivers in this attempt
          used,      \* faults used so far
          labels,    \* edit labels of this attempt (history, for the report)
          \* receiver, volatile
          pc, pos, expected, received, tcheck, meta, total, cur, closed,
          \* receiver outputs
          acks, result, crashAt,
          \* durable
          tmp, finals, sm,
          \* durable state at the start of the attempt + observation history
          sm0, finals0, profile, log

vars == <<phase, att, snap, n, nOf, stream, used, labels, pc, pos, expected, received, tcheck, meta, total, cur, closed,
          acks, result, crashAt, tmp, finals, sm, sm0, finals0, profile, log>>

Files == {"prev", "A", "B"}
Chunk(s, i, cnt) == [k |-> "c", snap |-> s, id |-> i, seq |-> i, total |-> cnt, term |-> 2, leader |-> 1,
                     ok |-> TRUE, meta |-> (i = 0)]
GapItem == [k |-> "gap", snap |-> "-", id |-> 0, seq |-> 0, total |-> 0, term |-> 0, leader |-> 0,
            ok |-> TRUE, meta |-> FALSE]
Base(s, cnt) == [i \in 1..cnt |-> Chunk(s, i - 1, cnt)]

\* content of a complete file
Full(f) == IF f = "prev" THEN <<"p">>
           ELSE [i \in 1..nOf[f] |-> <<f, i - 1>>]
Present(fs, f) == fs[f] # <<>>
FileClass(fs, f) == IF ~Present(fs, f) THEN "absent" ELSE IF fs[f] = Full(f) THEN "ok" ELSE "bad"
Durable == [files |-> [f \in Files |-> FileClass(finals, f)], sm |-> sm]

\* items the receiver has taken from the channel in this attempt
Consumed == SubSeq(stream, 1, pos - 1)
SeenClose == closed
\* the complete valid in-order stream of one leader and term
CompleteValid(c) ==
  /\ Len(c) = n
  /\ \A i \in 1..Len(c) : /\ c[i].k = "c" /\ c[i].snap = snap /\ c[i].id = i - 1 /\ c[i].seq = i - 1
                          /\ c[i].ok /\ c[i].total = n
                          /\ c[i].leader = c[1].leader /\ c[i].term = c[1].term
  /\ c[1].meta

-----------------------------------------------------------------------------
Init == /\ phase = "pick" /\ att = 1 /\ snap = "A" /\ n = 0 /\ nOf = [f \in {"A", "B"} |-> 0]
        /\ stream = <<>> /\ used = 0 /\ labels = <<>>
        /\ pc = "open" /\ pos = 1 /\ expected = 0 /\ received = 0 /\ tcheck = <<>> /\ meta = FALSE /\ total = 0
        /\ cur = GapItem /\ closed = FALSE
        /\ acks = <<>> /\ result = "none" /\ crashAt = <<>>
        /\ tmp = <<>> /\ finals = [f \in Files |-> IF f = "prev" THEN <<"p">> ELSE <<>>] /\ sm = "old"
        /\ sm0 = "old" /\ finals0 = [f \in Files |-> IF f = "prev" THEN <<"p">> ELSE <<>>]
        /\ profile = <<>> /\ log = <<>>

recvVars == <<pc, pos, expected, received, tcheck, meta, total, cur, closed, acks, result, crashAt>>
durVars == <<tmp, finals, sm>>
envVars == <<phase, att, snap, n, nOf, stream, used, labels, sm0, finals0, log>>

\* ----- the leader picks the snapshot of this attempt ---------------------------------------
\* attempt 1 sends A; later attempts retry A (same file) or send the newer snapshot B
Pick == /\ phase = "pick"
        /\ \E s \in (IF att = 1 THEN {"A"} ELSE {"A", "B"}) :
           \E cnt \in (IF nOf[s] # 0 THEN {nOf[s]} ELSE 1..MaxChunks) :
              /\ snap' = s /\ n' = cnt /\ nOf' = [nOf EXCEPT ![s] = cnt]
              /\ stream' = Base(s, cnt)
        /\ phase' = "edit" /\ labels' = <<>>
        /\ UNCHANGED <<att, used, sm0, finals0, log, profile>> /\ UNCHANGED recvVars /\ UNCHANGED durVars

\* ----- faults of the channel ----------------------------------------------------------------
Remove(s, i) == SubSeq(s, 1, i - 1) \o SubSeq(s, i + 1, Len(s))
Insert(s, i, x) == SubSeq(s, 1, i - 1) \o <<x>> \o SubSeq(s, i, Len(s))   \* x becomes element i
Other(v, a, b) == IF v = a THEN b ELSE a
IsChunk(s, i) == s[i].k = "c"

Edited(lab, s) == /\ stream' = s /\ used' = used + 1 /\ labels' = Append(labels, lab)
                  /\ UNCHANGED <<phase, att, snap, n, nOf, sm0, finals0, log, profile>>
                  /\ UNCHANGED recvVars /\ UNCHANGED durVars

Edit ==
  /\ phase = "edit" /\ used < MaxFaults
  /\ \/ \E i \in 1..Len(stream) : "drop" \in Kinds /\ IsChunk(stream, i)
           /\ Edited([f |-> "drop", i |-> i], Remove(stream, i))
     \/ \E i \in 1..Len(stream) : "dup" \in Kinds /\ IsChunk(stream, i)
           /\ Edited([f |-> "dup", i |-> i], Insert(stream, i + 1, stream[i]))
     \/ \E i \in 1..(Len(stream) - 1) : "swap" \in Kinds /\ IsChunk(stream, i) /\ IsChunk(stream, i + 1)
           /\ stream[i] # stream[i + 1]
           /\ Edited([f |-> "swap", i |-> i], [stream EXCEPT ![i] = stream[i + 1], ![i + 1] = stream[i]])
     \/ \E i \in 1..Len(stream) : "corrupt" \in Kinds /\ IsChunk(stream, i) /\ stream[i].ok
           /\ Edited([f |-> "corrupt", i |-> i], [stream EXCEPT ![i].ok = FALSE])
     \/ \E i \in 1..Len(stream) : "leader" \in Kinds /\ IsChunk(stream, i)
           /\ Edited([f |-> "leader", i |-> i],
                     [j \in 1..Len(stream) |-> IF j >= i /\ IsChunk(stream, j)
                                               THEN [stream[j] EXCEPT !.leader = Other(@, 1, 3)] ELSE stream[j]])
     \/ \E i \in 1..Len(stream) : "term" \in Kinds /\ IsChunk(stream, i)
           /\ Edited([f |-> "term", i |-> i],
                     [j \in 1..Len(stream) |-> IF j >= i /\ IsChunk(stream, j)
                                               THEN [stream[j] EXCEPT !.term = Other(@, 2, 3)] ELSE stream[j]])
     \/ \E i \in 1..Len(stream) : "nometa" \in Kinds /\ IsChunk(stream, i) /\ stream[i].meta
           /\ Edited([f |-> "nometa", i |-> i], [stream EXCEPT ![i].meta = FALSE])
     \/ \E i \in 1..Len(stream) : "close" \in Kinds
           /\ Edited([f |-> "close", i |-> i], SubSeq(stream, 1, i - 1))
     \/ \E i \in 1..(Len(stream) + 1) : "gap" \in Kinds
           /\ (i > 1 => IsChunk(stream, i - 1)) /\ (i <= Len(stream) => IsChunk(stream, i))
           /\ Edited([f |-> "gap", i |-> i], Insert(stream, i, GapItem))

Start == /\ phase = "edit" /\ phase' = "run"
         /\ pc' = "open" /\ pos' = 1 /\ expected' = 0 /\ received' = 0 /\ tcheck' = <<>> /\ meta' = FALSE
         /\ total' = 0 /\ cur' = GapItem /\ closed' = FALSE /\ acks' = <<>> /\ result' = "none" /\ crashAt' = <<>>
         /\ sm0' = sm /\ finals0' = finals /\ profile' = <<Durable>>
         /\ UNCHANGED <<att, snap, n, nOf, stream, used, labels, log>> /\ UNCHANGED durVars

\* ----- the receiver ---------------------------------------------------------------------------
Ack(s, st, nx) == [seq |-> s, status |-> st, next |-> nx]
Note(d) == IF profile # <<>> /\ profile[Len(profile)] = d THEN profile ELSE Append(profile, d)
\* every receiver step records the durable state it leaves behind (destuttered)
RStep == /\ profile' = Note([files |-> [f \in Files |-> FileClass(finals', f)], sm |-> sm'])
         /\ UNCHANGED envVars
Fail(cls) == result' = cls /\ pc' = "end"

\* SnapshotAssembler::new: create + truncate the temp file
Open == /\ phase = "run" /\ pc = "open"
        /\ tmp' = IF "NoTruncate" \in Dev THEN tmp ELSE <<>>
        /\ pc' = "recv"
        /\ UNCHANGED <<pos, expected, received, tcheck, meta, total, cur, closed, acks, result, crashAt, finals, sm>>
        /\ RStep

\* timeout(chunk_timeout, recv()) + validation of one item
Recv ==
  /\ phase = "run" /\ pc = "recv"
  /\ UNCHANGED <<expected, received, crashAt>> /\ UNCHANGED durVars /\ RStep
  /\ IF pos > Len(stream)
     THEN \* channel closed
          /\ pc' = "count" /\ closed' = TRUE /\ UNCHANGED <<pos, tcheck, meta, total, cur, acks, result>>
     ELSE LET it == stream[pos]
              first == tcheck = <<>>
          IN /\ pos' = pos + 1 /\ cur' = it /\ closed' = closed
             /\ IF it.k = "gap"
                THEN /\ acks' = Append(acks, Ack(0, "Failed", 0)) /\ Fail("timeout")
                     /\ UNCHANGED <<tcheck, meta, total>>
                ELSE IF ~first /\ tcheck # <<it.term, it.leader>> /\ "NoLeaderCheck" \notin Dev
                THEN /\ acks' = Append(acks, Ack(it.seq, "OutOfOrder", 0)) /\ Fail("leader-changed")
                     /\ UNCHANGED <<tcheck, meta, total>>
                ELSE /\ tcheck' = IF first THEN <<it.term, it.leader>> ELSE tcheck
                     /\ meta' = IF first THEN it.meta ELSE meta
                     /\ total' = IF first THEN it.total ELSE total
                     /\ IF first /\ ~it.meta
                        THEN acks' = Append(acks, Ack(it.seq, "Failed", 0)) /\ Fail("missing-metadata")
                        ELSE IF ~it.ok /\ "NoChecksum" \notin Dev
                        THEN acks' = Append(acks, Ack(it.seq, "ChecksumMismatch", it.seq)) /\ Fail("checksum")
                        ELSE IF it.seq # expected /\ "NoOrderCheck" \notin Dev
                        THEN acks' = acks /\ Fail("out-of-order")       \* write_chunk fails, no ack
                        ELSE acks' = acks /\ pc' = "write" /\ result' = result

\* SnapshotAssembler::write_chunk: the file is written at the current offset
WriteAt(f, off, x) == IF off < Len(f) THEN [f EXCEPT ![off + 1] = x] ELSE Append(f, x)
Write == /\ phase = "run" /\ pc = "write"
         /\ IF "InPlace" \in Dev
            THEN finals' = [finals EXCEPT ![snap] = WriteAt(IF received = 0 THEN <<>> ELSE @, received, <<cur.snap, cur.id>>)]
                 /\ tmp' = tmp
            ELSE tmp' = WriteAt(tmp, received, <<cur.snap, cur.id>>) /\ finals' = finals
         /\ received' = received + 1 /\ expected' = expected + 1 /\ pc' = "ack"
         /\ UNCHANGED <<pos, tcheck, meta, total, cur, closed, acks, result, crashAt, sm>>
         /\ RStep

SendAck == /\ phase = "run" /\ pc = "ack"
           /\ acks' = Append(acks, Ack(cur.seq, "Accepted", cur.seq + 1)) /\ pc' = "recv"
           /\ UNCHANGED <<pos, expected, received, tcheck, meta, total, cur, closed, result, crashAt>>
           /\ UNCHANGED durVars /\ RStep

\* after the channel closed: received_chunks() != total, metadata present
Count == /\ phase = "run" /\ pc = "count"
         /\ UNCHANGED <<pos, expected, received, tcheck, meta, total, cur, closed, crashAt>> /\ UNCHANGED durVars /\ RStep
         /\ IF received # total /\ "NoCountCheck" \notin Dev
            THEN acks' = Append(acks, Ack(received, "Failed", 0)) /\ Fail("count")
            ELSE IF ~meta THEN acks' = acks /\ Fail("missing-metadata-at-end")
            ELSE acks' = acks /\ result' = result
                 /\ pc' = IF "ApplyBeforeRename" \in Dev THEN "apply" ELSE "rename"

\* SnapshotAssembler::finalize: flush, rename temp -> final path of the metadata's last_included
Rename == /\ phase = "run" /\ pc = "rename"
          /\ IF "InPlace" \in Dev THEN UNCHANGED <<tmp, finals>>
             ELSE finals' = [finals EXCEPT ![snap] = tmp] /\ tmp' = <<>>
          /\ pc' = IF "ApplyBeforeRename" \in Dev THEN "ret" ELSE "unpack"
          /\ UNCHANGED <<pos, expected, received, tcheck, meta, total, cur, closed, acks, result, crashAt, sm>>
          /\ RStep

\* decompress_to_directory: only a complete archive unpacks
Unpack == /\ phase = "run" /\ pc = "unpack"
          /\ IF finals[snap] = Full(snap) THEN pc' = "apply" /\ result' = result ELSE Fail("unpack")
          /\ UNCHANGED <<pos, expected, received, tcheck, meta, total, cur, closed, acks, crashAt>>
          /\ UNCHANGED durVars /\ RStep

\* StateMachine::apply_snapshot_from_file
Apply == /\ phase = "run" /\ pc = "apply"
         /\ sm' = snap /\ pc' = IF "ApplyBeforeRename" \in Dev THEN "rename" ELSE "ret"
         /\ UNCHANGED <<pos, expected, received, tcheck, meta, total, cur, closed, acks, result, crashAt, tmp, finals>>
         /\ RStep

Return == /\ phase = "run" /\ pc = "ret"
          /\ result' = "ok" /\ pc' = "end"
          /\ UNCHANGED <<pos, expected, received, tcheck, meta, total, cur, closed, acks, crashAt>>
          /\ UNCHANGED durVars /\ RStep

\* process crash of the receiver at a point the harness can realise: while it waits for the next
\* item (after open / after each processed chunk / before it sees the close), at the entry of
\* apply_snapshot_from_file (after rename + unpack) and right after it.  All other steps are
\* covered by the state invariants.
Crash == /\ phase = "run" /\ "crash" \in Kinds /\ used < MaxFaults
         /\ pc \in {"recv", "apply", "ret"}
         /\ crashAt' = <<pc, pos - 1>> /\ result' = "crashed" /\ pc' = "end" /\ used' = used + 1
         /\ UNCHANGED <<pos, expected, received, tcheck, meta, total, cur, closed, acks, profile>>
         /\ UNCHANGED <<phase, att, snap, n, nOf, stream, labels, sm0, finals0, log>>
         /\ UNCHANGED durVars

Summary == [snap |-> snap, n |-> n, items |-> stream, edits |-> labels, crash |-> crashAt,
            exp |-> [result |-> result, acks |-> acks, after |-> Durable, profile |-> profile,
                     complete |-> (SeenClose /\ CompleteValid(Consumed))]]

EndAttempt == /\ phase = "run" /\ pc = "end"
              /\ log' = Append(log, Summary)
              /\ IF att < Attempts THEN phase' = "pick" /\ att' = att + 1
                                   ELSE phase' = "fin" /\ att' = att
              /\ UNCHANGED <<snap, n, nOf, stream, used, labels, sm0, finals0, profile>>
              /\ UNCHANGED recvVars /\ UNCHANGED durVars

Next == Pick \/ Edit \/ Start \/ Open \/ Recv \/ Write \/ SendAck \/ Count \/ Rename \/ Unpack \/ Apply
        \/ Return \/ Crash \/ EndAttempt

Spec == Init /\ [][Next]_vars

-----------------------------------------------------------------------------
\* C17 as state invariants over the durable state (phase "run": the attempt is in progress or over)
InAttempt == phase = "run"
Took == SeenClose /\ CompleteValid(Consumed)

\* the state machine is replaced only by the complete valid stream, and then by that snapshot
StateOnlyIfComplete == InAttempt /\ sm # sm0 => Took /\ sm = snap
\* final files change only for the complete valid stream: the new file is that snapshot, all others untouched
FilesOnlyIfComplete ==
  InAttempt /\ finals # finals0 => /\ Took
                                   /\ finals = [finals0 EXCEPT ![snap] = Full(snap)]
\* a final file never holds anything but a complete snapshot (appears atomically)
FinalAtomic == \A f \in Files : FileClass(finals, f) # "bad"
\* previous files are never touched, whatever happens
PrevUntouched == finals["prev"] = <<"p">>
\* the state machine only ever holds a snapshot whose complete final file exists
StateFromFinal == sm # "old" => FileClass(finals, sm) = "ok"
\* sanity: success is reported only after the replacement
OkMeansReplaced == InAttempt /\ result = "ok" => sm = snap /\ Took

C17 == StateOnlyIfComplete /\ FilesOnlyIfComplete /\ FinalAtomic /\ PrevUntouched /\ StateFromFinal /\ OkMeansReplaced

\* vacuity controls (checked to be *violated* by dedicated runs)
NeverReplaced == sm = "old"
NeverFailed == result \in {"none", "ok", "crashed"}

\* behaviour extraction: print every complete behaviour
Emit == (EmitOn /\ phase = "fin") => PrintT(<<"REPLAY", ToJson(log)>>)
=============================================================================
