------------------------------ MODULE BufLogIO ------------------------------
(***************************************************************************)
(* C18: the Raft log recovers a durable, gap-free prefix after a crash.    *)
(*                                                                         *)
(* BufferedRaftLog = in-memory log + background IO task + LogStore with a  *)
(* written (page cache) and a synced (stable) layer.  Operations of the    *)
(* log API change the memory at once and hand work to the IO task; the IO  *)
(* task performs LogStore calls (persist_entries, replace_range, purge,    *)
(* reset, flush) one by one.  A crash can happen between any two LogStore  *)
(* calls: a process crash leaves the written layer, a power loss the       *)
(* synced layer; restart loads the log from what is left.                  *)
(*                                                                         *)
(* This module models the IO task at LogStore-call granularity for ONE     *)
(* outstanding operation at a time (the operation's calls are its          *)
(* `script`), exactly following batch_processor / handle_non_write_cmd /   *)
(* advance_durable_after_write of buffered_raft_log.rs:                    *)
(*   append         notify -> persist (durable, max] ; flush ; durable :=  *)
(*                  max(durable, pending_max)                              *)
(*   conflict       memory truncate+insert ; ReplaceRange -> replace_range *)
(*                  (no flush; pending_max := max(pending_max, last new))   *)
(*   purge          memory ; durable := cutoff if cutoff >= durable ;      *)
(*                  Purge -> purge                                          *)
(*   reset+append   memory clear ; durable := 0 ; Reset -> reset ; append   *)
(*   flush()        returns at once if durable >= max ; else Flush ->       *)
(*                  persist (durable, max] ; flush                          *)
(* Dev (named deviations of the current code):                              *)
(*   "DurableIndexNeverLowered"  a conflict truncation leaves durable_index *)
(*        above the truncation point (repaired: the IO task lowers it to    *)
(*        from-1 when it executes the ReplaceRange).                        *)
(*   "PendingMaxNotLowered"      the IO task keeps a pending_max above the  *)
(*        last replaced index (repaired: pending_max := last new index).    *)
(*                                                                         *)
(* Property (evaluated for every reachable state and both crash kinds):    *)
(*   GapFree        the recovered indexes form an interval                 *)
(*   DurableKept    every entry the log holds at an index <= durable_index *)
(*                  is recovered with the same content                     *)
(*   FlushKept      after flush() returned Ok (and nothing changed since)  *)
(*                  every entry the log holds is recovered                 *)
(*   NoResurrection after a conflict append returned, a process crash does *)
(*                  not bring back an entry it replaced                    *)
(* While an operation is in flight the requirement is the one of the state *)
(* before it, restricted to the entries the operation does not touch.      *)
(***************************************************************************)
EXTENDS Integers, Sequences, FiniteSets, TLC, Json

CONSTANTS MaxIdx, MaxTerm, MaxOps, Dev, Emit

VARIABLES base,      \* purge boundary index of the in-memory log (0: none)
          mem,       \* [Idx -> 0..MaxTerm] in-memory log: term at index, 0 = absent
          dur,       \* durable_index as the log reports it
          pmax,      \* pending_max of the IO task
          W, S,      \* written / synced layer of the store: [Idx -> 0..MaxTerm]
          script,    \* LogStore calls the IO task still has to make for the operation in flight
          pre,       \* [mem, dur, fl] before the operation in flight (meaningful while script # <<>>)
          fl,        \* flush() returned Ok and nothing changed since
          repl,      \* set of <<index, term>> replaced by conflict appends that returned
          ct,        \* highest term used so far
          cur,       \* kind of the operation in flight ("none" when idle)
          nops

vars == <<base, mem, dur, pmax, W, S, script, pre, fl, repl, ct, cur, nops>>

Idx == 1..MaxIdx
Empty == [i \in Idx |-> 0]
Max(S_) == CHOOSE x \in S_ : \A y \in S_ : x >= y
Dom(m) == {i \in Idx : m[i] # 0}
Last(m) == IF Dom(m) = {} THEN 0 ELSE Max(Dom(m))
EntriesIn(m, a, b) == {[i |-> i, t |-> m[i]] : i \in {j \in Dom(m) : j >= a /\ j <= b}}
\* entries of a set as a sequence ordered by index
RECURSIVE SeqOf(_)
SeqOf(es) == IF es = {} THEN <<>>
             ELSE LET e == CHOOSE x \in es : \A y \in es : x.i <= y.i IN <<e>> \o SeqOf(es \ {e})
PutAll(m, es) == [i \in Idx |-> IF \E e \in es : e.i = i THEN (CHOOSE e \in es : e.i = i).t ELSE m[i]]

-----------------------------------------------------------------------------
(* scripts: what the IO task does for an operation, given the state at its start *)
\* notify branch / Flush command: persist (d, max], then flush if anything is pending
PersistScript(m, d, pm) ==
  LET end == Last(m)
      es  == EntriesIn(m, d + 1, end)
      p1  == IF d + 1 <= end /\ es # {} THEN <<[c |-> "persist", es |-> SeqOf(es), end |-> end]>> ELSE <<>>
      pm1 == IF p1 # <<>> THEN (IF end > pm THEN end ELSE pm) ELSE pm
  IN p1 \o (IF pm1 > 0 THEN <<[c |-> "flush"]>> ELSE <<>>)

-----------------------------------------------------------------------------
Init == /\ base = 0 /\ mem = Empty /\ dur = 0 /\ pmax = 0 /\ W = Empty /\ S = Empty
        /\ script = <<>> /\ pre = [mem |-> Empty, dur |-> 0, fl |-> FALSE]
        /\ fl = FALSE /\ repl = {} /\ ct = 1 /\ cur = "none" /\ nops = 0

Idle == script = <<>>

ReplSeq(r) == SeqOf({[i |-> x[1], t |-> x[2]] : x \in r})
Key(b, m, d, p, w, s_, sc, f, r, c, cu, pr, n) == <<b, m, d, p, w, s_, sc, f, ReplSeq(r), c, cu, <<pr.mem, pr.dur, pr.fl>>, n>>
Here == Key(base, mem, dur, pmax, W, S, script, fl, repl, ct, cur, pre, nops)
There == Key(base', mem', dur', pmax', W', S', script', fl', repl', ct', cur', pre', nops')
EmitEdge(op) == Emit => PrintT(<<"EDGE", ToJson([f |-> Here, op |-> op, t |-> There])>>)

Start(op, m2, d2, b2, sc, ct2) ==
  /\ mem' = m2 /\ dur' = d2 /\ base' = b2 /\ script' = sc /\ ct' = ct2
  /\ pre' = [mem |-> mem, dur |-> dur, fl |-> fl]
  /\ fl' = FALSE
  /\ cur' = (IF sc = <<>> THEN "none" ELSE op.k)
  /\ nops' = nops + 1
  /\ UNCHANGED <<pmax, W, S, repl>>
  /\ EmitEdge(op)

\* append n entries of the current term at the tail (RaftLog::append_entries)
TailAppend ==
  \E n \in 1..2 :
     LET l == IF Last(mem) > 0 THEN Last(mem) ELSE base
         es == {[i |-> l + k, t |-> ct] : k \in 1..n}
         m2 == PutAll(mem, es)
     IN /\ Idle /\ nops < MaxOps /\ l + n <= MaxIdx
        /\ Start([k |-> "append", es |-> SeqOf(es)], m2, dur, base, PersistScript(m2, dur, pmax), ct)

\* an AppendEntries of a new leader (higher term) that conflicts at index d: entries d..d+n-1
Conflict ==
  \E d \in Idx, n \in 1..2 :
     LET es == {[i |-> d + k - 1, t |-> ct + 1] : k \in 1..n}
         m2 == PutAll([i \in Idx |-> IF i >= d THEN 0 ELSE mem[i]], es)
     IN /\ Idle /\ nops < MaxOps /\ ct < MaxTerm
        /\ d >= 2 /\ mem[d] # 0 /\ mem[d - 1] # 0 /\ d + n - 1 <= MaxIdx
        /\ Start([k |-> "conflict", p |-> d - 1, pt |-> mem[d - 1], es |-> SeqOf(es)],
                 m2, dur, base, <<[c |-> "replace", from |-> d, es |-> SeqOf(es)]>>, ct + 1)

\* purge up to an entry of the log
PurgeTo ==
  \E c \in Idx :
     /\ Idle /\ nops < MaxOps /\ mem[c] # 0
     /\ Start([k |-> "purge", i |-> c, t |-> mem[c]],
              [i \in Idx |-> IF i <= c THEN 0 ELSE mem[i]],
              IF c >= dur THEN c ELSE dur, c,
              <<[c |-> "purge", i |-> c, t |-> mem[c]]>>, ct)

\* an AppendEntries with prev_log_index = 0: reset, then append n entries from index 1
ResetAppend ==
  \E n \in 1..2 :
     LET es == {[i |-> k, t |-> ct] : k \in 1..n}
         m2 == PutAll(Empty, es)
     IN /\ Idle /\ nops < MaxOps /\ nops > 0
        \* the call clears the memory, waits for the IO task's reset, then inserts the entries
        /\ Start([k |-> "resetappend", es |-> SeqOf(es)], Empty, 0, 0,
                 <<[c |-> "reset", app |-> SeqOf(es)]>> \o PersistScript(m2, 0, 0), ct)

\* RaftLog::flush(): returns at once when nothing is in memory or durable_index covers it
FlushCall ==
  /\ Idle /\ nops < MaxOps /\ nops > 0
  /\ LET short == Last(mem) = 0 \/ dur >= Last(mem)
         sc == IF short THEN <<>> ELSE PersistScript(mem, dur, pmax)
     IN /\ mem' = mem /\ dur' = dur /\ base' = base /\ ct' = ct
        /\ script' = sc
        /\ pre' = [mem |-> mem, dur |-> dur, fl |-> fl]
        /\ fl' = (IF sc = <<>> THEN TRUE ELSE fl)    \* Ok at once, or Ok when the script is done
        /\ cur' = (IF sc = <<>> THEN "none" ELSE "flush")
        /\ nops' = nops + 1
        /\ UNCHANGED <<pmax, W, S, repl>>
        /\ EmitEdge([k |-> "flush", short |-> short])

\* the IO task makes its next LogStore call
IOStep ==
  /\ script # <<>>
  /\ LET c == Head(script)
         rest == Tail(script)
     IN /\ script' = rest
        /\ CASE c.c = "persist" ->
                  /\ W' = PutAll(W, {c.es[k] : k \in 1..Len(c.es)})
                  /\ pmax' = (IF c.end > pmax THEN c.end ELSE pmax)
                  /\ UNCHANGED <<S, dur, repl>>
             [] c.c = "replace" ->
                  /\ W' = PutAll([i \in Idx |-> IF i >= c.from THEN 0 ELSE W[i]], {c.es[k] : k \in 1..Len(c.es)})
                  /\ pmax' = (LET lm == c.es[Len(c.es)].i
                               IN IF "PendingMaxNotLowered" \in Dev /\ pmax > lm THEN pmax ELSE lm)
                  /\ dur' = (IF "DurableIndexNeverLowered" \in Dev \/ dur < c.from - 1 THEN dur ELSE c.from - 1)
                  /\ repl' = repl \cup {<<i, pre.mem[i]>> : i \in {j \in Idx : j >= c.from /\ pre.mem[j] # 0}}
                  /\ UNCHANGED S
             [] c.c = "purge" ->
                  /\ W' = [i \in Idx |-> IF i <= c.i THEN 0 ELSE W[i]]
                  /\ UNCHANGED <<S, dur, pmax, repl>>
             [] c.c = "reset" ->
                  /\ W' = Empty /\ pmax' = 0
                  /\ UNCHANGED <<S, dur, repl>>
             [] c.c = "flush" ->
                  /\ S' = W
                  /\ dur' = (IF pmax > dur THEN pmax ELSE dur)
                  /\ pmax' = 0
                  /\ UNCHANGED <<W, repl>>
        /\ fl' = (IF rest = <<>> /\ cur = "flush" THEN TRUE ELSE fl)
        /\ cur' = (IF rest = <<>> THEN "none" ELSE cur)
        /\ mem' = (IF c.c = "reset" THEN PutAll(Empty, {c.app[k] : k \in 1..Len(c.app)}) ELSE mem)
        /\ UNCHANGED <<base, pre, ct, nops>>
        /\ EmitEdge([k |-> "io", call |-> c])

Next == TailAppend \/ Conflict \/ PurgeTo \/ ResetAppend \/ FlushCall \/ IOStep
Spec == Init /\ [][Next]_vars

-----------------------------------------------------------------------------
(* crash + recovery: the restarted log holds exactly the entries of the surviving layer *)
Recovered(kind) == IF kind = "process" THEN W ELSE S

GapFree(r) == \A i \in Dom(r), j \in Dom(r) : \A k \in Idx : (i < k /\ k < j) => r[k] # 0

\* what must be recovered: reported durable (durable_index / flush) in the state the requirement refers to,
\* and not touched by the operation in flight
InFlight == script # <<>>
ReqMem == IF ~InFlight THEN mem
          ELSE IF cur = "resetappend" THEN Empty     \* a reset discards the whole log on purpose
          ELSE [i \in Idx |-> IF pre.mem[i] = mem[i] THEN mem[i] ELSE 0]
ReqDur == IF InFlight THEN pre.dur ELSE dur
ReqFl  == IF InFlight THEN pre.fl ELSE fl
MustHave == {i \in Dom(ReqMem) : i <= ReqDur \/ ReqFl}

DurableKept(r) == \A i \in Dom(ReqMem) : (i <= ReqDur) => (r[i] = ReqMem[i])
FlushKept(r)   == ReqFl => \A i \in Dom(ReqMem) : r[i] = ReqMem[i]
NoResurrection(r) == \A i \in Dom(r) : <<i, r[i]>> \notin repl

C18_GapFree        == \A k \in {"process", "power"} : GapFree(Recovered(k))
C18_DurableKept    == \A k \in {"process", "power"} : DurableKept(Recovered(k))
C18_FlushKept      == \A k \in {"process", "power"} : FlushKept(Recovered(k))
C18_NoResurrection == NoResurrection(Recovered("process"))

TypeOK == /\ mem \in [Idx -> 0..MaxTerm] /\ W \in [Idx -> 0..MaxTerm] /\ S \in [Idx -> 0..MaxTerm]
          /\ dur \in 0..MaxIdx /\ pmax \in 0..MaxIdx /\ nops \in 0..MaxOps

-----------------------------------------------------------------------------
Verdict(k) == [gapfree |-> GapFree(Recovered(k)), durable |-> DurableKept(Recovered(k)),
               flush |-> FlushKept(Recovered(k)),
               nores |-> IF k = "process" THEN NoResurrection(Recovered(k)) ELSE TRUE]

EmitState ==
  Emit => PrintT(<<"STATE", ToJson(
     [k |-> Here,
      n |-> nops,
      obs |-> [mem |-> mem, dur |-> dur, fl |-> fl, base |-> base,
               next |-> IF script = <<>> THEN [c |-> "idle"] ELSE Head(script),
               inflight |-> InFlight,
               reqmem |-> ReqMem, reqdur |-> ReqDur, reqfl |-> ReqFl,
               repl |-> ReplSeq(repl),
               process |-> [rec |-> W, verdict |-> Verdict("process")],
               power   |-> [rec |-> S, verdict |-> Verdict("power")]]])>>)
=============================================================================
