-------------------------------- MODULE Lease --------------------------------
(***************************************************************************)
(* Leader lease protocol of d-engine with an explicit clock (C12).          *)
(* Node 1 is the leader of term 1; the followers F may time out and elect   *)
(* one of themselves for term 2.  The leader renews its lease when an       *)
(* acknowledgement arrives (leader_state.rs handle_append_result ->         *)
(* update_lease_timestamp) and serves lease reads while clock < lease.      *)
(* Deviations (Dev):                                                        *)
(*  "LeaseAnchoredAtLastSendTs"  any acknowledgement, however old the       *)
(*      request it answers, renews the lease from the timestamp of the      *)
(*      LATEST send (single shared last_heartbeat_send_ts) once the stored  *)
(*      match indexes form a quorum                                         *)
(*  "VotersIgnoreRecentLeader"   a follower grants its vote although it     *)
(*      heard from the leader less than the minimum election timeout ago    *)
(*      (no leader stickiness / check-quorum), so a majority that keeps the *)
(*      old leader's lease alive can at the same time elect a new leader    *)
(***************************************************************************)
EXTENDS Naturals, FiniteSets

CONSTANTS F, LeaseDur, ETmin, MaxClock, MaxInFlight, Dev

VARIABLES clock, heard, aes, acks, lastSend, ackTs, everAcked, lease, newLeaderAt

vars == <<clock, heard, aes, acks, lastSend, ackTs, everAcked, lease, newLeaderAt>>

Init == /\ clock = 0 /\ heard = [f \in F |-> 0] /\ aes = {} /\ acks = {}
        /\ lastSend = 0 /\ ackTs = [f \in F |-> 0] /\ everAcked = {} /\ lease = 0 /\ newLeaderAt = 0

IsMaj(n) == 2 * n > Cardinality(F) + 1

Tick == /\ clock < MaxClock /\ clock' = clock + 1
        /\ UNCHANGED <<heard, aes, acks, lastSend, ackTs, everAcked, lease, newLeaderAt>>

Send == /\ Cardinality(aes) + Cardinality(F) <= MaxInFlight
        /\ lastSend' = clock
        /\ aes' = aes \cup {[to |-> f, ts |-> clock] : f \in F}
        /\ UNCHANGED <<clock, heard, acks, ackTs, everAcked, lease, newLeaderAt>>

RecvAE(m) == /\ m \in aes /\ newLeaderAt = 0      \* after the election the followers reject term-1 requests
             /\ Cardinality(acks) < MaxInFlight
             /\ heard' = [heard EXCEPT ![m.to] = clock]
             /\ aes' = aes \ {m}
             /\ acks' = acks \cup {[from |-> m.to, ts |-> m.ts]}
             /\ UNCHANGED <<clock, lastSend, ackTs, everAcked, lease, newLeaderAt>>

Lose(m) == /\ (m \in aes /\ aes' = aes \ {m} /\ acks' = acks) \/ (m \in acks /\ acks' = acks \ {m} /\ aes' = aes)
           /\ UNCHANGED <<clock, heard, lastSend, ackTs, everAcked, lease, newLeaderAt>>

\* k-th largest of the send timestamps acknowledged by the followers plus "now" for the leader itself
Anchor(ts) == LET S == {ts[f] : f \in F}
                  need == (Cardinality(F) + 1) \div 2     \* followers needed besides the leader
              IN IF need = 0 THEN clock
                 ELSE CHOOSE v \in S \cup {0} :
                        /\ Cardinality({f \in F : ts[f] >= v}) >= need
                        /\ \A w \in S : w > v => Cardinality({f \in F : ts[f] >= w}) < need

RecvAck(a) ==
  /\ a \in acks /\ acks' = acks \ {a}
  /\ ackTs' = [ackTs EXCEPT ![a.from] = IF a.ts > @ THEN a.ts ELSE @]
  /\ everAcked' = everAcked \cup {a.from}
  /\ lease' = IF "LeaseAnchoredAtLastSendTs" \in Dev
              THEN (IF IsMaj(Cardinality(everAcked') + 1) THEN lastSend + LeaseDur ELSE lease)
              ELSE (IF IsMaj(Cardinality({f \in F : ackTs'[f] > 0}) + 1)
                    THEN (IF Anchor(ackTs') + LeaseDur > lease THEN Anchor(ackTs') + LeaseDur ELSE lease)
                    ELSE lease)
  /\ UNCHANGED <<clock, heard, aes, lastSend, newLeaderAt>>

\* follower c times out and wins term 2 with the votes of V (a set of other followers); the old leader never votes
Elect(c, V) ==
  /\ newLeaderAt = 0 /\ c \in F /\ V \subseteq F \ {c}
  /\ clock >= heard[c] + ETmin
  /\ IsMaj(Cardinality(V) + 1)
  /\ ("VotersIgnoreRecentLeader" \in Dev \/ \A v \in V : clock >= heard[v] + ETmin)
  /\ newLeaderAt' = clock
  /\ UNCHANGED <<clock, heard, aes, acks, lastSend, ackTs, everAcked, lease>>

Next == Tick \/ Send \/ (\E m \in aes : RecvAE(m)) \/ (\E m \in aes \cup acks : Lose(m))
        \/ (\E a \in acks : RecvAck(a)) \/ (\E c \in F : \E V \in SUBSET F : Elect(c, V))

Spec == Init /\ [][Next]_vars

\* C12: while the old leader would still serve a lease read, no other node has won an election
C12_LeaseExclusive == (clock < lease) => newLeaderAt = 0
=============================================================================
