------------------------------- MODULE DETrace -------------------------------
(***************************************************************************)
(* Trace judge for executions of the real d-engine nodes (step-mode        *)
(* harness `dv-cluster`).  Every record of the ndjson trace is the full    *)
(* projected cluster state after one scheduler step, plus the events the   *)
(* step produced and the messages it consumed.                             *)
(*                                                                         *)
(* Layer 1 (property monitors): the property operators of DECore / the      *)
(*   invariants of DEngine evaluated on every observed state; violations    *)
(*   are accumulated as data in out.viol.                                   *)
(* Layer 2 (conformance): every observed step is compared with what the     *)
(*   DECore operators (the same ones DEngine's actions are built from)      *)
(*   allow; differences are accumulated in out.div and never raise an alarm *)
(*   by themselves.                                                         *)
(***************************************************************************)
EXTENDS DECore, Json, IOUtils, Integers

Rec == ndJsonDeserialize(IOEnv.TRACE)

VARIABLES l, h, out
tvars == <<l, h, out>>

NodeIds(r) == {n \in 1..7 : ToString(n) \in DOMAIN r.st.nodes}
ND(r, n) == r.st.nodes[ToString(n)]
MapGet(m, n) == IF ToString(n) \in DOMAIN m THEN m[ToString(n)] ELSE 0
Core(r, n) ==
  LET d == ND(r, n) IN
  [up |-> d.up, role |-> d.role, term |-> d.term, vote |-> d.vote, log |-> d.log, commit |-> d.commit,
   next |-> [p \in NodeIds(r) |-> MapGet(d.next, p)], match |-> [p \in NodeIds(r) |-> MapGet(d.match, p)],
   noop |-> d.noop, hs |-> d.hs]
\* what is compared between model and implementation for every node
Cmp(s) == [role |-> s.role, term |-> s.term, vid |-> s.vote.id, vt |-> s.vote.t, log |-> s.log, commit |-> s.commit]
CmpL(s) == [role |-> s.role, term |-> s.term, vid |-> s.vote.id, vt |-> s.vote.t, log |-> s.log, commit |-> s.commit,
            next |-> s.next, match |-> s.match]
Evs(r, name) == SelectSeq(r.ev, LAMBDA e : e.e = name)
Fld(rec, name, dflt) == IF name \in DOMAIN rec THEN rec[name] ELSE dflt
SeqToSet(s) == {s[j] : j \in 1..Len(s)}
Voters(r, n) ==   \* voting members in node n's membership view, other than n (status Active, not learner)
  {p \in NodeIds(r) \ {n} : ToString(p) \in DOMAIN ND(r, n).view
                             /\ ND(r, n).view[ToString(p)][2] = "A"
                             /\ ND(r, n).view[ToString(p)][1] # "Ln"}
VotePeers(r, n) == \* membership.voters(): every other member with status Active (role is not looked at)
  {p \in NodeIds(r) \ {n} : ToString(p) \in DOMAIN ND(r, n).view /\ ND(r, n).view[ToString(p)][2] = "A"}
Holds(r, n, e) == \E j \in 1..Len(ND(r, n).log) : ND(r, n).log[j] = e

EmptyHist(r) ==
  [granted |-> {}, led |-> {}, committed |-> {}, maxTerm |-> [n \in NodeIds(r) |-> 1],
   ldrLog |-> [t \in {} |-> <<>>], appliedCmd |-> [i \in {} |-> [op |-> "noop"]], appliedOk |-> [i \in {} |-> TRUE],
   lastApplied |-> [n \in NodeIds(r) |-> 0], inc |-> [n \in NodeIds(r) |-> 1],
   rresp |-> [n \in NodeIds(r) |-> {}], acked |-> {}, rejected |-> {}, responded |-> {},
   notifTerm |-> [n \in NodeIds(r) |-> 0], notif |-> {}, lostByReset |-> {}, hsLoss |-> FALSE, gapSeen |-> FALSE,
   downView |-> [n \in NodeIds(r) |-> ND(r, n).view], initView |-> [n \in NodeIds(r) |-> ND(r, n).view],
   leaseMs |-> r.cfg.lease_ms, sentAt |-> [m \in {} |-> 0],
   ackSend |-> [n \in NodeIds(r) |-> [p \in NodeIds(r) |-> 0]],
   ackedMax |-> 0, readFloor |-> [i \in {} |-> 0], readAt |-> [i \in {} |-> 0], readIdx |-> [i \in {} |-> 0]]

(***************************************************************************)
(* History update from one record                                           *)
(***************************************************************************)
UpNodes(r) == {n \in NodeIds(r) : ND(r, n).up}
Leaders(r) == {n \in UpNodes(r) : ND(r, n).role = "L"}

FnUpdate(f, k, v) == [x \in DOMAIN f \cup {k} |-> IF x = k THEN v ELSE f[x]]

RECURSIVE FoldApplied(_, _, _)
FoldApplied(hh, evs, j) ==
  IF j > Len(evs) THEN hh
  ELSE LET e == evs[j]
       IN FoldApplied([hh EXCEPT !.appliedCmd = IF e.idx \in DOMAIN @ THEN @ ELSE FnUpdate(@, e.idx, e.c),
                                 !.appliedOk = IF e.idx \in DOMAIN @ THEN @ ELSE FnUpdate(@, e.idx, e.ok),
                                 !.lastApplied[e.n] = e.idx], evs, j + 1)

RECURSIVE FoldLdr(_, _, _)
FoldLdr(f, r, S) ==
  IF S = {} THEN f
  ELSE LET n == CHOOSE x \in S : TRUE
       IN FoldLdr(FnUpdate(f, ND(r, n).term, ND(r, n).log), r, S \ {n})

NewHist(hp, r) ==
  LET vr == Evs(r, "VoteResp")
      ae == Evs(r, "AESent")
      cr == Evs(r, "ClientResp")
      h1 == [hp EXCEPT
        !.granted = @ \cup {[voter |-> vr[j].voter, t |-> vr[j].rt, cand |-> vr[j].cand, inc |-> vr[j].inc] :
                              j \in {x \in 1..Len(vr) : vr[x].granted}}
                     \* a node's vote for itself counts once its candidacy has won
                     \cup {[voter |-> n, t |-> ND(r, n).term, cand |-> n, inc |-> ND(r, n).inc] : n \in Leaders(r)},
        !.led = @ \cup {[n |-> n, t |-> ND(r, n).term] : n \in Leaders(r)}
                  \cup {[n |-> ae[j].leader, t |-> ae[j].t] : j \in 1..Len(ae)},
        !.committed = @ \cup UNION {{[i |-> e.i, e |-> e, ct |-> ND(r, n).term] :
                          e \in {ND(r, n).log[j] : j \in {x \in 1..Len(ND(r, n).log) :
                                      ND(r, n).log[x].i <= ND(r, n).commit}}} : n \in UpNodes(r)},
        !.maxTerm = [n \in NodeIds(r) |-> IF ND(r, n).up THEN Max(@[n], ND(r, n).term) ELSE @[n]],
        !.ldrLog = FoldLdr(@, r, Leaders(r)),
        !.inc = [n \in NodeIds(r) |-> ND(r, n).inc],
        \* a restarted node continues after what its state machine holds
        !.lastApplied = [n \in NodeIds(r) |-> IF ND(r, n).inc # hp.inc[n]
                                               THEN (IF Len(SelectSeq(r.ev, LAMBDA e : e.e = "Applied" /\ e.n = n)) > 0
                                                     THEN 0 ELSE ND(r, n).applied)
                                               ELSE @[n]],
        !.downView = [n \in NodeIds(r) |-> IF ND(r, n).up THEN ND(r, n).view ELSE @[n]],
        !.acked = @ \cup {cr[j].id : j \in {x \in 1..Len(cr) : cr[x].ok}},
        !.sentAt = [m \in DOMAIN @ \cup {ae[j].mid : j \in 1..Len(ae)} |->
                      IF m \in DOMAIN @ THEN @[m] ELSE r.st.clock],
        !.readFloor = LET ci == Evs(r, "ClientInvoke")
                          new == {ci[j].id : j \in {x \in 1..Len(ci) : ci[x].kind = "read"}}
                      IN [i \in DOMAIN @ \cup new |-> IF i \in DOMAIN @ THEN @[i] ELSE hp.ackedMax],
        !.readAt = LET ci == Evs(r, "ClientInvoke")
                       new == {ci[j].id : j \in {x \in 1..Len(ci) : ci[x].kind = "read"}}
                   IN [i \in DOMAIN @ \cup new |-> IF i \in DOMAIN @ THEN @[i] ELSE r.st.clock],
        !.responded = @ \cup {cr[j].id : j \in 1..Len(cr)}]
  IN FoldApplied(h1, Evs(r, "Applied"), 1)

(***************************************************************************)
(* Layer 1: property monitors.  Each returns a set of violation records.    *)
(***************************************************************************)
V(p, m, r, cause, detail) == [p |-> p, m |-> m, run |-> r.run, id |-> r.id, step |-> r.step, cause |-> cause, info |-> detail]

\* ---- cause classifiers (evaluated on the trace; used to tell a listed finding from a new one) ----
Prev0Step(r) == r.a.a = "DeliverAE" /\ \E j \in 1..Len(r.msgs) :
                   r.msgs[j].prev = 0 /\ r.msgs[j].pt = 0 /\ Len(r.msgs[j].ents) > 0
\* entries a node dropped in this step because a prev_log_index = 0 request reset its log
LostByReset(rp, r) ==
  IF ~Prev0Step(r) THEN {}
  ELSE LET f == r.a.to
       IN IF ~ND(rp, f).up THEN {}
          ELSE {[n |-> f, e |-> e] : e \in {x \in SeqToSet(ND(rp, f).log) : ~Holds(r, f, x)}}
\* some node came back from a restart with a lower term or without the vote it had given
HsLossNow(hp, rp, r) ==
  \E n \in UpNodes(r) : ~ND(rp, n).up /\ (ND(r, n).term < hp.maxTerm[n])
CascadeCause(hn) == IF hn.lostByReset # {} THEN "after-prev0-reset"
                    ELSE IF hn.gapSeen THEN "after-gapped-request"
                    ELSE IF hn.hsLoss THEN "after-hard-state-loss" ELSE "other"

LedFn(hh) == [t \in {x.t : x \in hh.led} |-> {x.n : x \in {y \in hh.led : y.t = t}}]
DoubleVoteAcrossRestart(hh) ==
  \E x, y \in hh.granted : x.voter = y.voter /\ x.t = y.t /\ x.cand # y.cand /\ x.inc # y.inc
Mon_C01(hp, hn, r) ==
  LET L == LedFn(hn)
  IN IF P_ElectionSafety(L) \/ ~P_ElectionSafety(LedFn(hp)) THEN {}
     ELSE {V("C01", "ElectionSafety", r,
             IF DoubleVoteAcrossRestart(hn) THEN "double-vote-after-restart"
             ELSE IF hn.hsLoss THEN "after-hard-state-loss" ELSE "other",
             ToString({t \in DOMAIN L : Cardinality(L[t]) > 1}))}

Mon_C02(hp, hn, rp, r) ==
  (IF P_VoteOnce(hn.granted) \/ ~P_VoteOnce(hp.granted) THEN {}
   ELSE {V("C02", "VoteOnce", r,
           IF DoubleVoteAcrossRestart(hn)
              /\ ~\E x, y \in hn.granted : x.voter = y.voter /\ x.t = y.t /\ x.cand # y.cand /\ x.inc = y.inc
           THEN "after-restart" ELSE "same-incarnation", "")})
  \cup
  {V("C02", "TermMonotone", r, IF ~ND(rp, n).up THEN "after-restart" ELSE "same-incarnation", ToString(n)) :
      n \in {x \in UpNodes(r) : ND(r, x).term < hp.maxTerm[x] /\ (~ND(rp, x).up \/ ND(r, x).term < ND(rp, x).term)}}

\* C03: a node that is leader got a real majority of its current voting members
Mon_C03(hn, rp, r) ==
  {V("C03", "MajorityOfCurrentVoters", r,
     IF ND(r, n).initSize = 1 THEN "single-node-shortcut-after-expansion" ELSE "other", ToString(n)) :
     n \in {x \in Leaders(r) : (~ND(rp, x).up \/ ND(rp, x).role # "L") /\
              LET t == ND(r, x).term
                  others == Voters(r, x)
                  got == {g.voter : g \in {y \in hn.granted : y.cand = x /\ y.t = t}}
              IN ~IsMajority(Cardinality(got \cap others) + 1, Cardinality(others) + 1)}}

Mon_C04(hn, rp, r) ==
  IF P_LogMatching([n \in NodeIds(r) |-> ND(r, n).log])
     \/ ~P_LogMatching([n \in NodeIds(rp) |-> ND(rp, n).log]) THEN {}
  ELSE {V("C04", "LogMatching", r,
          IF \E n \in NodeIds(r) : ~Contiguous(ND(r, n).log) THEN "gap-in-log"
          ELSE IF hn.hsLoss THEN "after-hard-state-loss" ELSE "other", "")}

Mon_C05(hp, hn, rp, r) ==
  \* leader completeness
  {V("C05", "LeaderCompleteness", r, CascadeCause(hn), ToString(<<n, c.i>>)) :
      <<n, c>> \in {<<x, y>> \in Leaders(r) \X hn.committed :
                       (~ND(rp, x).up \/ ND(rp, x).role # "L")      \* reported when the node becomes leader
                       /\ ND(r, x).term > y.ct /\ y.i > ND(r, x).base /\ ~Holds(r, x, y.e)}}
  \cup \* at most one entry is committed per index
  (IF (\A c, d \in hn.committed : c.i = d.i => c.e = d.e) \/ ~(\A c, d \in hp.committed : c.i = d.i => c.e = d.e)
   THEN {} ELSE {V("C05", "CommitAgreement", r, CascadeCause(hn), "")})
  \cup \* a live node never drops or overwrites an entry that was committed (same incarnation)
  {V("C05", "CommittedStable", r, IF Prev0Step(r) /\ r.a.to = n THEN "prev0-reset" ELSE "other", ToString(<<n, c.i>>)) :
      <<n, c>> \in {<<x, y>> \in UpNodes(r) \X hp.committed :
                       ND(rp, x).up /\ ND(rp, x).inc = ND(r, x).inc
                       /\ Holds(rp, x, y.e) /\ ~Holds(r, x, y.e) /\ y.i > ND(r, x).base}}

\* C06: per node apply order; cross-node agreement; state = fold of the applied commands
RECURSIVE KvFold(_, _, _, _)
KvGet(kv, k) == IF k \in DOMAIN kv THEN kv[k] ELSE "-"
KvFold(kv, cmds, i, upto) ==
  IF i > upto THEN kv
  ELSE IF i \notin DOMAIN cmds THEN KvFold(kv, cmds, i + 1, upto)
  ELSE LET c == cmds[i]
           kv1 == IF c.op = "put" THEN FnUpdate(kv, c.key, c.val)
                  ELSE IF c.op = "del" THEN [x \in DOMAIN kv \ {c.key} |-> kv[x]]
                  ELSE IF c.op = "cas" THEN (IF KvGet(kv, c.key) = c.exp THEN FnUpdate(kv, c.key, c.val) ELSE kv)
                  ELSE kv
       IN KvFold(kv1, cmds, i + 1, upto)
KvOf(r, n) == LET s == ND(r, n).kv IN [k \in {s[j][1] : j \in 1..Len(s)} |->
                                          (CHOOSE p \in SeqToSet(s) : p[1] = k)[2]]
RECURSIVE ApplyOrderBad(_, _, _, _)
ApplyOrderBad(evs, j, last, incs) ==   \* evs: Applied events of this record in order
  IF j > Len(evs) THEN {}
  ELSE LET e == evs[j]
           prev == last[e.n]
           fresh == incs[e.n] # e.inc          \* first apply of a new incarnation: starts after what the SM holds
           dbl == prev # 0 /\ e.idx <= prev      \* an index applied again (never acceptable)
       IN (IF ~fresh /\ prev # 0 /\ e.idx # prev + 1 THEN {<<e.n, prev, e.idx>>} ELSE {})
          \cup ApplyOrderBad(evs, j + 1, [last EXCEPT ![e.n] = e.idx], [incs EXCEPT ![e.n] = e.inc])
Mon_C06(hp, hn, rp, r) ==
  LET evs == Evs(r, "Applied")
      \* a snapshot installed before this step's applies moves the node's apply position to its boundary
      si == Evs(rp, "SnapInstall") \o Evs(r, "SnapInstall")
      last0 == [n \in DOMAIN hp.lastApplied |->
                  IF \E j \in 1..Len(si) : si[j].to = n /\ si[j].ok THEN 0 ELSE hp.lastApplied[n]]
  IN {V("C06", "ApplyOrder", r,
        IF x[3] <= x[2] THEN "index-applied-again" ELSE IF ~Contiguous(ND(r, x[1]).log) THEN "gap-in-log" ELSE "other",
        ToString(x)) :
         x \in ApplyOrderBad(evs, 1, last0, hp.inc)}
     \cup {V("C06", "ApplyAgreement", r, CascadeCause(hn), ToString(evs[j].idx)) :
             j \in {x \in 1..Len(evs) : evs[x].idx \in DOMAIN hp.appliedCmd /\ hp.appliedCmd[evs[x].idx] # evs[x].c}}
     \cup {V("C06", "StateIsFold", r,
             IF ND(r, n).snapIdx > 0 /\ \E p \in (ND(r, n).applied + 1)..(ND(r, n).applied + 3) :
                    KvOf(r, n) = KvFold([k \in {} |-> ""], hn.appliedCmd, 1, p)
             THEN "state-ahead-of-applied-index-after-snapshot" ELSE CascadeCause(hn), ToString(n)) :
             n \in {x \in NodeIds(r) : ND(rp, x).kv # ND(r, x).kv /\
                       KvOf(r, x) # KvFold([k \in {} |-> ""], hn.appliedCmd, 1, ND(r, x).applied)}}

\* C07: a follower's newly committed entries equal the leader's entries (leader of the request's term)
Mon_C07(hn, rp, r) ==
  LET ar == Evs(r, "AEResp")
  IN {V("C07", "FollowerCommitMatches", r, CascadeCause(hn), ToString(<<ar[j].node, ar[j].rt>>)) :
        j \in {x \in 1..Len(ar) :
                 LET f == ar[x].node
                     t == ar[x].rt
                 IN /\ ND(r, f).role \in {"F", "Ln"} /\ ND(rp, f).up
                    /\ ND(r, f).commit > ND(rp, f).commit
                    /\ t \in DOMAIN hn.ldrLog
                    /\ \E k \in (ND(rp, f).commit + 1)..ND(r, f).commit :
                         k > ND(r, f).base /\ k >= FirstIdx(hn.ldrLog[t]) /\   \* comparable: not purged on either side
                         ~(HasIdx(ND(r, f).log, k) /\ HasIdx(hn.ldrLog[t], k)
                           /\ EntryAt(ND(r, f).log, k) = EntryAt(hn.ldrLog[t], k))}}

\* C08: requests are contiguous; logs are gap-free; agreeing entries are not discarded
AgreePrefix(log, ll) ==  \* largest k such that the entries 1..k (by position) are equal
  LET S == {k \in 0..Min(Len(log), Len(ll)) : \A j \in 1..k : log[j] = ll[j]}
  IN CHOOSE k \in S : \A o \in S : k >= o
\* a request built as "capped old entries followed by the new batch": first gap sits right after
\* a run of consecutive entries starting at prev+1
Mon_C08(hn, rp, r) ==
  LET ae == Evs(r, "AESent")
      ar == Evs(r, "AEResp")
  IN {V("C08", "ContiguousAE", r,
        IF ae[j].ents[1][1] = ae[j].prev + 1 THEN "legacy-cap-then-new-entries" ELSE CascadeCause(hn),
        ToString(<<ae[j].from, ae[j].to, ae[j].prev>>)) :
        j \in {x \in 1..Len(ae) : \E y \in 1..Len(ae[x].ents) : ae[x].ents[y][1] # ae[x].prev + y}}
     \cup {V("C08", "GapFree", r, IF r.a.a = "DeliverAE" /\ r.a.to = n THEN "gapped-request-appended" ELSE "other", ToString(n)) :
             n \in {x \in NodeIds(r) : ~Contiguous(ND(r, x).log) /\ Contiguous(ND(rp, x).log)}}
     \cup {V("C08", "KeepsAgreeingEntries", r, IF Prev0Step(r) THEN "prev0-reset" ELSE "other", ToString(ar[j].node)) :
        j \in {x \in 1..Len(ar) :
                 LET f == ar[x].node
                     t == ar[x].rt
                 IN /\ ar[x].kind = "ok" /\ ND(rp, f).up /\ t \in DOMAIN hn.ldrLog
                    /\ ND(rp, f).base = 0 /\ ND(r, f).base = 0
                    /\ AgreePrefix(ND(r, f).log, hn.ldrLog[t]) < AgreePrefix(ND(rp, f).log, hn.ldrLog[t])}}

\* C09: leader commit advance: current-term entry held by a majority of the current voters
Mon_C09(hn, rp, r) ==
  {V("C09", "CommitRule", r,
     LET N == ND(r, n).commit
         vs == Voters(r, n)
         e == IF HasIdx(ND(r, n).log, N) THEN EntryAt(ND(r, n).log, N) ELSE [i |-> 0]
         lost == {v \in vs : [n |-> v, e |-> e] \in hn.lostByReset}
     IN IF e.i # 0 /\ e.t = ND(r, n).term
           /\ IsMajority(Cardinality({v \in vs : Holds(r, v, e)} \cup lost) + 1, Cardinality(vs) + 1)
        THEN "holder-lost-entry-by-prev0-reset"
        ELSE CascadeCause(hn),
     ToString(<<n, ND(r, n).commit>>)) :
     n \in {x \in Leaders(r) : ND(rp, x).up /\ ND(rp, x).inc = ND(r, x).inc
              /\ ND(r, x).commit > ND(rp, x).commit /\
              LET N == ND(r, x).commit
                  vs == Voters(r, x)
              IN ~(HasIdx(ND(r, x).log, N)
                   /\ EntryAt(ND(r, x).log, N).t = ND(r, x).term
                   /\ IsMajority(Cardinality({v \in vs : Holds(r, v, EntryAt(ND(r, x).log, N))}) + 1,
                                 Cardinality(vs) + 1))}}
  \cup
  {V("C09", "MatchMonotone", r, "other", ToString(<<n, p>>)) :
     <<n, p>> \in {<<x, y>> \in Leaders(r) \X NodeIds(r) :
                     ND(rp, x).up /\ ND(rp, x).role = "L" /\ ND(rp, x).term = ND(r, x).term
                     /\ ND(rp, x).inc = ND(r, x).inc
                     /\ MapGet(ND(r, x).match, y) < MapGet(ND(rp, x).match, y)}}

\* C10 / C29 / C14: client responses
CmdStr(c) == IF c.kind = "put" THEN "put:" \o c.key \o ":" \o c.val
             ELSE IF c.kind = "del" THEN "del:" \o c.key
             ELSE IF c.kind = "cas" THEN "cas:" \o c.key \o ":" \o c.exp \o ":" \o c.val ELSE "?"
Mon_Client(hp, hn, r) ==
  LET cr == Evs(r, "ClientResp")
      writes == {j \in 1..Len(cr) : cr[j].kind \in {"put", "del", "cas"}}
  IN \* C10: an acknowledged write is a committed entry
     {V("C10", "AckedIsCommitted", r, "other", ToString(cr[j].id)) :
        j \in {x \in writes : cr[x].ok /\ ~\E c \in hn.committed : c.e.k = "cmd" /\ c.e.v = CmdStr(cr[x])}}
     \cup \* C29: exactly one response per request
     {V("C29", "OneResponse", r, "other", ToString(cr[j].id)) : j \in {x \in 1..Len(cr) : cr[x].id \in hp.responded}}
     \cup \* C29: a CAS response reports the outcome actually applied at its entry
     {V("C29", "CasOutcomeAsApplied", r, CascadeCause(hn), ToString(cr[j].id)) :
        j \in {x \in writes : cr[x].kind = "cas" /\ cr[x].err = 0 /\ cr[x].wsucc \in BOOLEAN /\
                 \E i \in DOMAIN hn.appliedCmd :
                     /\ hn.appliedCmd[i].op = "cas" /\ hn.appliedCmd[i].key = cr[x].key
                     /\ hn.appliedCmd[i].val = cr[x].val /\ hn.appliedCmd[i].exp = cr[x].exp
                     /\ hn.appliedOk[i] # cr[x].wsucc}}
     \cup \* C29: success only after the entry is applied on the responding leader; CAS outcome as applied
     {V("C29", "OkOnlyAfterApply", r, CascadeCause(hn), ToString(cr[j].id)) :
        j \in {x \in writes : cr[x].ok /\
                 ~\E i \in DOMAIN hn.appliedCmd :
                     /\ hn.appliedCmd[i].op = cr[x].kind /\ hn.appliedCmd[i].key = cr[x].key
                     /\ hn.appliedCmd[i].val = cr[x].val
                     /\ i <= ND(r, cr[x].node).applied}}

\* C14: a rejected write never appears in any log / applied sequence
RejClass(c) == ~c.ok /\ c.kind \in {"put", "del", "cas", "empty"}
               /\ (c.err = 4001 \/ c.err = -10 \/ c.err = -4 \/ c.err = -9)
               \* NotLeader, FailedPrecondition("Not leader"), InvalidArgument, ResourceExhausted
Mon_C14(hn, r) ==
  {V("C14", "RejectedNeverApplied", r, "other", c) :
     c \in {x \in hn.rejected : \E i \in DOMAIN hn.appliedCmd :
               hn.appliedCmd[i].op # "noop" /\
               (hn.appliedCmd[i].op \o ":" \o hn.appliedCmd[i].key \o ":" \o hn.appliedCmd[i].val) = x}}

\* C31: leader notifications
Mon_C31(hp, hn, r) ==
  LET ln == SelectSeq(Evs(r, "LeaderNotify"), LAMBDA e : e.leader # 0)
  IN {V("C31", "TermsNeverDecrease", r, "other", ToString(<<ln[j].n, ln[j].t>>)) :
        j \in {x \in 1..Len(ln) : ln[x].t < hp.notifTerm[ln[x].n]}}
     \cup {V("C31", "OneLeaderPerTerm", r,
             IF DoubleVoteAcrossRestart(hn) THEN "double-vote-after-restart"
             ELSE IF hn.hsLoss THEN "after-hard-state-loss" ELSE "other", ToString(ln[j].t)) :
        j \in {x \in 1..Len(ln) : \E y \in hp.notif : y.t = ln[x].t /\ y.leader # ln[x].leader}}
     \cup {V("C31", "NotifiedNodeWasLeader", r, "other", ToString(<<ln[j].leader, ln[j].t>>)) :
        j \in {x \in 1..Len(ln) : [n |-> ln[x].leader, t |-> ln[x].t] \notin hn.led}}


(***************************************************************************)
(* Membership: C26 (quorum intersection), C27 (learners), C28 (restart)     *)
(***************************************************************************)
InView(r, n, p) == ToString(p) \in DOMAIN ND(r, n).view
ViewRole(r, n, p) == ND(r, n).view[ToString(p)][1]
SelfVoter(r, n) == ND(r, n).up /\ InView(r, n, n) /\ ViewRole(r, n, n) # "Ln"
CommitSet(r, n) == Voters(r, n) \cup {n}          \* quorum base a leader uses to commit
ElectSet(r, n)  == VotePeers(r, n) \cup {n}       \* quorum base a candidate uses to win
DisjointMaj(A, B) == \E Qa \in SUBSET A, Qb \in SUBSET B :
                        IsMajority(Cardinality(Qa), Cardinality(A)) /\ IsMajority(Cardinality(Qb), Cardinality(B))
                        /\ Qa \cap Qb = {}
QuorumsIntersect(r) ==
  \A i, j \in {x \in UpNodes(r) : SelfVoter(r, x)} :
     \A A \in {CommitSet(r, i), ElectSet(r, i)}, B \in {CommitSet(r, j), ElectSet(r, j)} : ~DisjointMaj(A, B)
MaxBatchPromote(r) ==
  LET S == UNION {{Len(ND(r, n).log[j].ids) : j \in {x \in 1..Len(ND(r, n).log) :
                      ND(r, n).log[x].k = "cfg" /\ ND(r, n).log[x].v = "batchpromote"}} : n \in NodeIds(r)}
  IN IF S = {} THEN 0 ELSE CHOOSE m \in S : \A o \in S : m >= o
Mon_C26(hn, rp, r) ==
  IF QuorumsIntersect(r) \/ ~QuorumsIntersect(rp) THEN {}
  ELSE {V("C26", "QuorumsIntersect", r,
          IF \E n \in UpNodes(r) : ~ND(rp, n).up THEN "view-reset-by-restart"
          ELSE IF MaxBatchPromote(r) >= 2 THEN "multi-node-batch-promotion" ELSE "other",
          ToString([n \in {x \in UpNodes(r) : SelfVoter(r, x)} |-> CommitSet(r, n)]))}

\* committed promotions a node has applied: ids of batchpromote/promote entries at or below its commit index
PromotedBy(r, n) == UNION {SeqToSet(ND(r, n).log[j].ids) :
                             j \in {x \in 1..Len(ND(r, n).log) : ND(r, n).log[x].k = "cfg"
                                       /\ ND(r, n).log[x].v \in {"batchpromote", "promote"}
                                       /\ ND(r, n).log[x].i <= ND(r, n).commit}}
Mon_C27(hp, hn, rp, r) ==
  LET vr == Evs(r, "VoteResp")
      vq == Evs(r, "VQSent")
      jr == Evs(r, "JoinResp")
      ji == Evs(r, "JoinInvoke")
  IN {V("C27", "LearnerGrantsVote", r, "other", ToString(vr[j].voter)) :
        j \in {x \in 1..Len(vr) : vr[x].granted /\ vr[x].voterRole = "Ln"}}
     \cup {V("C27", "LearnerStartsElection", r, "other", ToString(vq[j].from)) :
        j \in {x \in 1..Len(vq) : ND(rp, vq[x].from).up /\ ND(rp, vq[x].from).role = "Ln"}}
     \cup {V("C27", "JoinOkOnlyAfterCommit", r, "other", ToString(jr[j].n)) :
        j \in {x \in 1..Len(jr) : jr[x].ok /\
                 ~\E c \in hn.committed : c.e.k = "cfg" /\ c.e.v = "add" /\ c.e.ids = <<jr[x].n>>}}
     \cup {V("C27", "JoinExistingRejected", r, "other", ToString(ji[j].n)) :
        j \in {x \in 1..Len(ji) : ji[x].alreadyMember /\
                 \E y \in 1..Len(jr) : jr[y].id = ji[x].id /\ jr[y].ok}}
     \cup {V("C27", "PromotionOnlyByCommittedEntry", r, "other", ToString(<<n, p>>)) :
        <<n, p>> \in {<<x, y>> \in UpNodes(r) \X NodeIds(r) :
                        ND(rp, x).up /\ ND(rp, x).inc = ND(r, x).inc
                        /\ InView(rp, x, y) /\ InView(r, x, y)
                        /\ ViewRole(rp, x, y) = "Ln" /\ ViewRole(r, x, y) # "Ln"
                        /\ y \notin PromotedBy(r, x)}}

Mon_C28(hp, rp, r) ==
  {V("C28", "ViewAfterRestart", r,
     IF ND(r, n).view = hp.initView[n] THEN "view-reset-to-initial-config" ELSE "other", ToString(n)) :
     n \in {x \in UpNodes(r) : ~ND(rp, x).up /\ ND(r, x).view # hp.downView[x]}}


(***************************************************************************)
(* Reads: C11 (linearizable), C12 (lease)                                   *)
(***************************************************************************)
MaxApplied(r) == LET S == {ND(r, n).applied : n \in NodeIds(r)} IN CHOOSE m \in S : \A o \in S : m >= o
ReadVal(c) == IF c.read = <<>> THEN "-" ELSE c.read[1][2]
Mon_C11(hn, rp, r) ==
  LET cr == Evs(r, "ClientResp")
  IN {V("C11", "LinearizableRead", r,
        \* an acknowledgement delivered in this very step released the read on a deposed leader whose lease had
        \* expired before the step: the acknowledgement says nothing about leadership after the read arrived
        IF ND(r, cr[j].node).role = "L" /\ r.a.a = "DeliverAR" /\ r.a.to = cr[j].node
           /\ ND(rp, cr[j].node).up /\ ~ND(rp, cr[j].node).lease
           /\ \E m \in Leaders(rp) : ND(rp, m).term > ND(rp, cr[j].node).term
        THEN "deposed-leader-confirmed-by-stale-ack"
        ELSE IF ND(r, cr[j].node).role = "L" /\ ND(r, cr[j].node).lease
           /\ \E m \in Leaders(r) : ND(r, m).term > ND(r, cr[j].node).term
        THEN "deposed-leader-with-valid-lease"
        \* Path B of the leader (handle_apply_completed): a queued read is answered when the state machine reaches
        \* its read index, in a step in which the node received no acknowledgement, its lease expired, and a
        \* leader of a higher term exists
        ELSE IF ND(r, cr[j].node).role = "L" /\ ~ND(r, cr[j].node).lease
                /\ (\E m \in Leaders(r) : ND(r, m).term > ND(r, cr[j].node).term)
                /\ ~(r.a.a = "DeliverAR" /\ r.a.to = cr[j].node)
        THEN "deposed-leader-answers-on-apply-without-confirmation" ELSE CascadeCause(hn),
        ToString(<<cr[j].id, cr[j].key, ReadVal(cr[j])>>)) :
        j \in {x \in 1..Len(cr) : cr[x].kind = "read" /\ cr[x].policy = "lin" /\ cr[x].ok
                 /\ cr[x].id \in DOMAIN hn.readFloor /\
                 ~\E p \in hn.readFloor[cr[x].id]..MaxApplied(r) :
                     KvGet(KvFold([k \in {} |-> ""], hn.appliedCmd, 1, p), cr[x].key) = ReadVal(cr[x])}}

\* voters of leader n whose acknowledgement of a request sent at sigma is known to n, with tau < sigma + lease
FreshAckers(hn, r, n) == {p \in Voters(r, n) : hn.ackSend[n][p] > 0 /\ r.st.clock < hn.ackSend[n][p] + hn.leaseMs}
Mon_C12(hp, hn, rp, r) ==
  LET cr == Evs(r, "ClientResp")
      lr == {j \in 1..Len(cr) : cr[j].kind = "read" /\ cr[j].policy = "lease" /\ cr[j].ok}
  IN {V("C12", "LeaseReadOnlyByLeader", r, "other", ToString(cr[j].node)) :
        j \in {x \in lr : ND(r, cr[x].node).role # "L" /\ ~(ND(rp, cr[x].node).up /\ ND(rp, cr[x].node).role = "L")}}
     \cup {V("C12", "LeaseBackedByFreshMajority", r,
             \* a majority did acknowledge something in this leadership, only not recently enough: the lease the
             \* leader holds was anchored at a later send than the one that was acknowledged
             IF IsMajority(Cardinality({p \in Voters(r, cr[j].node) : hn.ackSend[cr[j].node][p] > 0}) + 1,
                           Cardinality(Voters(r, cr[j].node)) + 1)
             THEN "stale-ack-renews-lease-from-latest-send-ts" ELSE "other", ToString(<<cr[j].node, r.st.clock>>)) :
        j \in {x \in lr : LET n == cr[x].node
                              \* voters that acknowledged a request sent after this read was invoked
                              \* (leadership confirmed after the invocation: as good as a read index)
                              conf == {p \in Voters(r, n) : cr[x].id \in DOMAIN hn.readAt
                                                             /\ hn.ackSend[n][p] >= hn.readAt[cr[x].id]}
                          IN Voters(r, n) # {} /\
                             ~IsMajority(Cardinality(FreshAckers(hn, r, n)) + 1, Cardinality(Voters(r, n)) + 1) /\
                             ~IsMajority(Cardinality(conf) + 1, Cardinality(Voters(r, n)) + 1)}}
     \cup {V("C12", "NoNewerLeaderWhileLeaseRead", r,
             IF ND(r, cr[j].node).role = "L" /\ ND(r, cr[j].node).lease THEN "deposed-leader-with-valid-lease"
             ELSE CascadeCause(hn), ToString(cr[j].node)) :
        j \in {x \in lr : \E m \in Leaders(r) : m # cr[x].node /\ ND(r, m).term > ND(r, cr[x].node).term}}
     \* only a voter's acknowledgement can (re)validate a lease (C12: "a voter majority acknowledged it"; C27: a learner
     \* never counts toward a lease quorum)
     \cup {V("C12", "LeaseRenewedOnlyByVoterAck", r, "other", ToString(<<n, r.a.from>>)) :
        n \in {x \in UpNodes(r) : r.a.a = "DeliverAR" /\ r.applied /\ r.a.to = x /\ ND(rp, x).up /\ ~ND(rp, x).lease
                                  /\ ND(r, x).lease /\ r.a.from \notin Voters(rp, x)}}
     \cup {V("C12", "StepDownRevokesLease", r, "other", ToString(n)) :
        n \in {x \in UpNodes(r) : ND(r, x).role # "L" /\ ND(r, x).leaseAny
                                  /\ ~(ND(rp, x).up /\ ND(rp, x).role # "L" /\ ND(rp, x).leaseAny)}}


(***************************************************************************)
(* Epilogue monitors: C30 (no silently dropped request), C32 (recovery)     *)
(***************************************************************************)
Mon_C30(r) ==
  LET oe == Evs(r, "Outstanding")
      \* a write that is committed on its leader and waits for a state machine that has not caught up with the commit
      \* index (pending_write_apply) has no deadline of its own
      stalled(o) == o.kind \in {"put", "del", "cas"} /\ o.nodeRole = "L" /\ o.node \in UpNodes(r)
                    /\ ND(r, o.node).applied < ND(r, o.node).commit
  IN UNION {{V("C30", "AnsweredByDeadline", r,
               IF stalled(oe[j].ops[k]) THEN "committed-write-waiting-for-stalled-apply-has-no-deadline" ELSE "other",
               ToString(<<oe[j].ops[k].id, oe[j].ops[k].kind, oe[j].ops[k].nodeRole>>)) :
               k \in 1..Len(oe[j].ops)} : j \in 1..Len(oe)}
Mon_C32(hn, r) ==
  LET re == Evs(r, "Recovered")
  IN {V("C32", "RecoversAfterHeal", r, CascadeCause(hn),
        ToString(<<re[j].leader, re[j].writeOk, re[j].lagging>>)) :
        j \in {x \in 1..Len(re) : re[x].leader = 0 \/ ~re[x].writeOk \/ Len(re[x].lagging) > 0}}


(***************************************************************************)
(* C33: log compaction                                                      *)
(***************************************************************************)
Mon_C33(hn, rp, r) ==
  {V("C33", "PurgeOnlyCommittedAndSnapshotted", r, "other", ToString(<<n, ND(r, n).base, ND(r, n).commit, ND(r, n).snapIdx>>)) :
     n \in {x \in UpNodes(r) : ND(rp, x).up /\ ND(rp, x).inc = ND(r, x).inc /\ ND(r, x).base > ND(rp, x).base
              /\ r.a.a # "DeliverSnap"          \* installing a received snapshot is not a purge decision of this node
              /\ ~(ND(r, x).base <= ND(r, x).commit /\ ND(r, x).snapIdx >= ND(r, x).base)}}
  \cup
  \* a node that purged its log must hold a snapshot covering the purged prefix (otherwise lagging peers
  \* can be served neither by log nor by snapshot) -- also right after a restart
  {V("C33", "PurgedPrefixCoveredBySnapshot", r,
     IF ~ND(rp, n).up THEN "snapshot-metadata-lost-by-restart"
     \* a snapshot older than what the node already holds was installed: state machine, snapshot metadata and log boundary
     \* go back (InstallSnapshotChunk does not compare the snapshot's last included index with the applied index)
     ELSE IF r.a.a = "DeliverSnap" /\ r.a.to = n /\ ND(r, n).snapIdx < ND(rp, n).snapIdx
     THEN "stale-snapshot-installed-over-newer-state"
     ELSE "other", ToString(<<n, ND(r, n).base, ND(r, n).snapIdx>>)) :
     n \in {x \in UpNodes(r) : ND(r, x).first > 1 /\ ND(r, x).snapIdx + 1 < ND(r, x).first
              /\ ~(ND(rp, x).up /\ ND(rp, x).first > 1 /\ ND(rp, x).snapIdx + 1 < ND(rp, x).first)}}

  \cup
  \* replication keeps working across the purge boundary: after the fault-free recovery epilogue no live voter that
  \* still needs the leader's first retained entry or something below it (match index < first) is still behind
  (LET re == Evs(r, "Recovered")
   IN {V("C33", "CatchUpAcrossPurgeBoundary", r, CascadeCause(hn), ToString(<<re[j].leader, re[j].lagging>>)) :
         j \in {x \in 1..Len(re) : re[x].leader # 0 /\ Len(re[x].lagging) > 0 /\ re[x].leader \in UpNodes(r)
                   /\ ND(r, re[x].leader).first > 1
                   /\ \E k \in 1..Len(re[x].lagging) :
                         MapGet(ND(r, re[x].leader).match, re[x].lagging[k][1]) < ND(r, re[x].leader).first}})

Monitors(hp, hn, rp, r) ==
  Mon_C01(hp, hn, r) \cup Mon_C02(hp, hn, rp, r) \cup Mon_C03(hn, rp, r) \cup Mon_C04(hn, rp, r)
  \cup Mon_C05(hp, hn, rp, r) \cup Mon_C06(hp, hn, rp, r) \cup Mon_C07(hn, rp, r) \cup Mon_C08(hn, rp, r)
  \cup Mon_C09(hn, rp, r) \cup Mon_Client(hp, hn, r) \cup Mon_C14(hn, r) \cup Mon_C31(hp, hn, r)
  \cup Mon_C26(hn, rp, r) \cup Mon_C27(hp, hn, rp, r) \cup Mon_C28(hp, rp, r)
  \cup Mon_C11(hn, rp, r) \cup Mon_C12(hp, hn, rp, r) \cup Mon_C30(r) \cup Mon_C32(hn, r) \cup Mon_C33(hn, rp, r)

(***************************************************************************)
(* Layer 2: conformance of the observed step with the DECore operators.     *)
(***************************************************************************)
D(r, what, n) == [run |-> r.run, id |-> r.id, step |-> r.step, a |-> r.a.a, what |-> what, n |-> n]

OthersUnchanged(rp, r, S) ==
  {D(r, "other-node-changed", n) : n \in {x \in NodeIds(r) \ S : Cmp(Core(rp, x)) # Cmp(Core(r, x))}}

VQMsg(m) == [from |-> m.from, t |-> m.t, li |-> m.li, lt |-> m.lt]
AEMsg(m) == [from |-> m.from, to |-> m.to, t |-> m.t, prev |-> m.prev, pt |-> m.pt, ents |-> m.ents, lc |-> m.lc]

\* outcome of a finished round: the candidate's post state must be one of the allowed outcomes
RoundPost(hp2, rp, r, c) ==
  LET s0 == Core(rp, c)
      \* the candidate's pre-state inside the round: term/vote already bumped (projected while busy);
      \* a round that started and ended within one step is bumped here
      s == IF ND(rp, c).busy THEN s0 ELSE [s0 EXCEPT !.term = @ + 1]
      outs == RoundOutcomes(s, VotePeers(rp, c), hp2.rresp[c])
      post == Cmp(Core(r, c))
  IN \/ ND(rp, c).initSize = 1 /\ post.role = "L" /\ post.term = s.term /\ post.vid = c   \* single-node shortcut
     \/ \E o \in outs :
       \/ o.k = "win" /\ post.role = "L" /\ post.term = s.term /\ post.vid = c
       \/ o.k = "higher" /\ post.role = "F" /\ post.term = o.t /\ post.vid = 0
       \/ o.k = "lose" /\ post.role = "C" /\ post.term = s.term

Conf(hp, rp, r) ==
  LET a == r.a IN
  IF ~r.applied THEN {}
  ELSE IF a.a = "Timeout" THEN
    (IF Cmp(Core(r, a.n)) = Cmp([Core(rp, a.n) EXCEPT !.role = "C"]) THEN {} ELSE {D(r, "timeout-post", a.n)})
    \cup OthersUnchanged(rp, r, {a.n})
  ELSE IF a.a = "StartRound" THEN
    LET s == Core(rp, a.n)
        ended == Len(Evs(r, "RoundEnd")) > 0
    IN (IF ended THEN {}
        ELSE IF Cmp(Core(r, a.n)) = Cmp([s EXCEPT !.term = @ + 1, !.vote = [id |-> a.n, t |-> s.term + 1, c |-> FALSE]])
             THEN {} ELSE {D(r, "startround-post", a.n)})
       \cup OthersUnchanged(rp, r, {a.n})
  ELSE IF a.a = "DeliverVQ" /\ Len(r.msgs) = 1 THEN
    LET q == VQMsg(r.msgs[1])
        s == Core(rp, a.to)
        vr == Evs(r, "VoteResp")
        exp == HandleVQ_Resp(s, q)
    IN (IF Cmp(Core(r, a.to)) = Cmp(HandleVQ_State(s, q)) THEN {} ELSE {D(r, "vq-state", a.to)})
       \cup (IF Len(vr) = 1 /\ vr[1].granted = exp.g /\ vr[1].term = exp.t /\ vr[1].li = exp.li /\ vr[1].lt = exp.lt
             THEN {} ELSE {D(r, "vq-resp", a.to)})
       \cup OthersUnchanged(rp, r, {a.to, a.from})
  ELSE IF a.a = "DeliverAE" /\ Len(r.msgs) = 1 THEN
    LET m == AEMsg(r.msgs[1])
        s == Core(rp, a.to)
        ar == Evs(r, "AEResp")
        exp == HandleAE_Resp(s, m)
    IN (IF Cmp(Core(r, a.to)) = Cmp(HandleAE_State(s, m)) THEN {} ELSE {D(r, "ae-state", a.to)})
       \cup (IF Len(ar) = 1 /\ ar[1].kind = exp.kind /\ ar[1].term = exp.t /\ ar[1].mi = exp.mi
                /\ ar[1].mt = exp.mt /\ ar[1].ct = exp.ct /\ ar[1].ci = exp.ci
             THEN {} ELSE {D(r, "ae-resp", a.to)})
       \cup OthersUnchanged(rp, r, {a.to})
  ELSE IF a.a = "DeliverAR" /\ Len(r.msgs) = 1 /\ Len(Evs(r, "ARLost")) = 0 THEN
    LET m == r.msgs[1]
        s == Core(rp, a.to)
        exp == AR_State(s, m, Voters(rp, a.to))
    IN (IF CmpL(Core(r, a.to)) = CmpL(exp) THEN {} ELSE {D(r, "ar-state", a.to)})
       \cup OthersUnchanged(rp, r, {a.to})
  ELSE IF a.a \in {"DropMsg", "DropVQ", "BreakStream", "HoldApply", "HoldIo", "Advance", "Settle"} THEN
    OthersUnchanged(rp, r, IF a.a = "DropVQ" THEN {a.from} ELSE {})
  ELSE {}

(***************************************************************************)
(* The trace behaviour                                                      *)
(***************************************************************************)
Init == /\ l = 1
        /\ h = NewHist(EmptyHist(Rec[1]), Rec[1])
        /\ out = [runs |-> 1, steps |-> 0, conf |-> 0]
        /\ TLCSet(1, {}) /\ TLCSet(2, {})       \* accumulated violations / divergences live outside the state

Next ==
  /\ l < Len(Rec)
  /\ l' = l + 1
  /\ LET r  == Rec[l + 1]
         rp == Rec[l]
     IN IF r.step = 0
        THEN /\ h' = NewHist(EmptyHist(r), r)
             /\ out' = [out EXCEPT !.runs = @ + 1]
        ELSE LET \* responses collected by open rounds
                 vr  == Evs(r, "VoteResp")
                 hp2 == [h EXCEPT !.rresp =
                           [n \in DOMAIN @ |->
                              IF r.a.a = "StartRound" /\ r.a.n = n THEN {}
                              ELSE @[n] \cup {[from |-> vr[j].voter, g |-> vr[j].granted, t |-> vr[j].term,
                                               li |-> vr[j].li, lt |-> vr[j].lt] :
                                                j \in {x \in 1..Len(vr) : vr[x].cand = n /\ ND(rp, n).busy
                                                          /\ vr[x].rt = ND(rp, n).term /\ Fld(r.a, "dup", 0) = 0}}]]
                 cr  == Evs(r, "ClientResp")
                 hp3 == [hp2 EXCEPT !.rejected = @ \cup {cr[j].kind \o ":" \o cr[j].key \o ":" \o cr[j].val :
                                                         j \in {x \in 1..Len(cr) : RejClass(cr[x])}}]
                 hn0 == NewHist(hp3, r)
                 okw == {cr[j] : j \in {x \in 1..Len(cr) : cr[x].ok /\ cr[x].kind \in {"put", "del", "cas"}}}
                 widx == {i \in DOMAIN hn0.appliedCmd : \E c \in okw :
                            hn0.appliedCmd[i].op = c.kind /\ hn0.appliedCmd[i].key = c.key /\ hn0.appliedCmd[i].val = c.val}
                 hn  == [hn0 EXCEPT
                                                !.ackedMax = IF widx = {} THEN @
                                                             ELSE Max(@, CHOOSE m \in widx : \A o \in widx : m >= o),
                                                !.ackSend = [n \in DOMAIN @ |->
                                                   IF ~ND(r, n).up \/ ND(r, n).role # "L" THEN [p \in DOMAIN @[n] |-> 0]
                                                   ELSE IF r.a.a = "DeliverAR" /\ r.applied /\ r.a.to = n /\ Len(r.msgs) = 1
                                                           /\ Len(Evs(r, "ARLost")) = 0 /\ r.msgs[1].kind = "ok"
                                                           /\ r.msgs[1].t >= ND(rp, n).term /\ r.msgs[1].req \in DOMAIN hn0.sentAt
                                                        THEN [@[n] EXCEPT ![r.a.from] = Max(@, hn0.sentAt[r.msgs[1].req])]
                                                        ELSE @[n]],
                                                \* DEClient!ReadIndex at the arrival of a linearizable read (state before the step)
                                                !.readIdx = LET ci == Evs(r, "ClientInvoke")
                                                                new == {j \in 1..Len(ci) : ci[j].kind = "read" /\ ci[j].policy = "lin"
                                                                           /\ ND(rp, ci[j].node).up}
                                                            IN [i \in DOMAIN @ \cup {ci[j].id : j \in new} |->
                                                                  IF i \in DOMAIN @ THEN @[i]
                                                                  ELSE LET j == CHOOSE x \in new : ci[x].id = i
                                                                       IN Max(ND(rp, ci[j].node).commit, ND(rp, ci[j].node).noop)],
                                                !.lostByReset = @ \cup LostByReset(rp, r),
                                                !.hsLoss = @ \/ HsLossNow(h, rp, r),
                                                !.gapSeen = @ \/ \E n \in NodeIds(r) : ~Contiguous(ND(r, n).log)]
                 ln  == SelectSeq(Evs(r, "LeaderNotify"), LAMBDA e : e.leader # 0)
                 hn2 == [hn EXCEPT !.notif = @ \cup {[leader |-> ln[j].leader, t |-> ln[j].t] : j \in 1..Len(ln)},
                                   !.notifTerm = [n \in DOMAIN @ |->
                                       LET S == {ln[j].t : j \in {x \in 1..Len(ln) : ln[x].n = n}}
                                           base == IF ND(r, n).inc # h.inc[n] THEN 0 ELSE @[n]  \* new process, new subscription
                                       IN IF S = {} THEN base ELSE CHOOSE m \in S : \A o \in S : m >= o]]
                 \* layer 2, client layer (DEClient): a linearizable read is answered only by a leader whose state
                 \* machine has reached the read index fixed at the read's arrival
                 gdiv == {D(r, "read-served-before-apply", cr[j].node) :
                            j \in {x \in 1..Len(cr) : cr[x].kind = "read" /\ cr[x].policy = "lin" /\ cr[x].ok
                                      /\ cr[x].id \in DOMAIN hn.readIdx /\ ND(r, cr[x].node).up
                                      /\ ND(r, cr[x].node).applied < hn.readIdx[cr[x].id]}}
                 \* layer 2, log compaction (DECore!NeedsSnapshot): what a leader that was leader before the step sends
                 \* to a peer is decided by the peer's next index and the leader's first retained index
                 sdiv == IF r.a.a \notin {"Heartbeat", "Client", "ClientBatch", "LeaderTick"} THEN {}
                         ELSE LET ae == Evs(r, "AESent")
                                  sn == Evs(r, "SnapSent")
                                  L(n) == n \in NodeIds(rp) /\ ND(rp, n).up /\ ND(rp, n).role = "L"
                              IN {D(r, "append-below-purge-boundary", ae[j].from) :
                                    j \in {x \in 1..Len(ae) : L(ae[x].from) /\
                                              NeedsSnapshot(ND(rp, ae[x].from).first, MapGet(ND(rp, ae[x].from).next, ae[x].to))}}
                                 \cup {D(r, "snapshot-although-log-suffices", sn[j].from) :
                                    j \in {x \in 1..Len(sn) : L(sn[x].from) /\
                                              ~NeedsSnapshot(ND(rp, sn[x].from).first, MapGet(ND(rp, sn[x].from).next, sn[x].to))}}
                 rdiv == IF Len(Evs(r, "RoundEnd")) > 0 /\ r.a.a \notin {"Recover", "Drain", "Final", "RecoverEnd", "DrainEnd", "FinalEnd"}
                         THEN LET c == Evs(r, "RoundEnd")[1].n
                              IN IF RoundPost(hp2, rp, r, c) THEN {} ELSE {D(r, "round-outcome", c)}
                         ELSE {}
             IN /\ h' = hn2
                /\ TLCSet(1, TLCGet(1) \cup Monitors(h, hn, rp, r))
                /\ TLCSet(2, TLCGet(2) \cup Conf(h, rp, r) \cup rdiv \cup gdiv \cup sdiv)
                /\ out' = [out EXCEPT !.steps = @ + 1,
                                      !.conf = @ + (IF r.applied THEN 1 ELSE 0)]

Spec == Init /\ [][Next]_tvars

Done == (l = Len(Rec)) =>
          JsonSerialize(IOEnv.OUT, [viol |-> TLCGet(1), div |-> TLCGet(2), runs |-> out.runs, steps |-> out.steps,
                                    conf |-> out.conf])
=============================================================================
