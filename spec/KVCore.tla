------------------------------- MODULE KVCore -------------------------------
(***************************************************************************)
(* Pure operators of the key-value state machine of d-engine: the          *)
(* reference semantics of the commands (put / put-with-TTL / delete / CAS), *)
(* prefix scans, TTL bookkeeping.  Used by KV.tla (model, behaviour         *)
(* generator) and KVTrace.tla (judge of executions of the real              *)
(* FileStateMachine / RocksDBStateMachine).                                 *)
(*                                                                         *)
(* Keys and values are byte strings = sequences of 0..255.  "Absent" is the *)
(* distinguished value NoVal = <<-1>>, so a store is a total function       *)
(* KeySet -> value.                                                         *)
(***************************************************************************)
EXTENDS Integers, Sequences, FiniteSets

NoVal == <<-1>>

\* the alphabet (one key is a prefix of another, two contain the byte 0xFF, "b" is the exclusive
\* upper bound of the prefixes "a" and "a\xFF")
KA   == <<97>>
KAF  == <<97, 255>>
KB   == <<98>>
KF   == <<255>>
AllKeys     == <<KA, KAF, KB, KF>>
AllPrefixes == << <<>>, KA, KAF, KB, KF >>
KeySet == {AllKeys[i] : i \in 1..Len(AllKeys)}
VE == <<>>          \* the empty value
VA == <<97>>
VB == <<98>>

\* names usable in TLC configuration files (which cannot contain tuples)
Nm(n) == CASE n = "KA" -> KA [] n = "KAF" -> KAF [] n = "KB" -> KB [] n = "KF" -> KF
           [] n = "e" -> VE [] n = "a" -> VA [] n = "b" -> VB [] n = "abs" -> NoVal
Nms(S) == {Nm(n) : n \in S}

IsPrefix(p, k) == Len(p) <= Len(k) /\ \A i \in 1..Len(p) : p[i] = k[i]

EmptyStore == [k \in KeySet |-> NoVal]
NoTtl == [k \in KeySet |-> 0]       \* 0 = no deadline, d > 0 = key is due from tick d on

(***************************************************************************)
(* Commands: [op, k, v, e, ttl]; op \in {"put","del","cas","noop"};         *)
(* e = expected value of a CAS (NoVal = must be absent); ttl > 0 on a put   *)
(* = TTL in ticks.                                                          *)
(***************************************************************************)
Put(k, v)       == [op |-> "put", k |-> k, v |-> v, e |-> NoVal, ttl |-> 0]
PutTtl(k, v, d) == [op |-> "put", k |-> k, v |-> v, e |-> NoVal, ttl |-> d]
Del(k)          == [op |-> "del", k |-> k, v |-> NoVal, e |-> NoVal, ttl |-> 0]
Cas(k, e, v)    == [op |-> "cas", k |-> k, v |-> v, e |-> e, ttl |-> 0]

\* success flag of command c on store s
CmdOk(s, c) == IF c.op = "cas" THEN s[c.k] = c.e ELSE TRUE

\* store after command c
CmdStore(s, c) ==
  IF c.op = "put" THEN [s EXCEPT ![c.k] = c.v]
  ELSE IF c.op = "del" THEN [s EXCEPT ![c.k] = NoVal]
  ELSE IF c.op = "cas" THEN (IF s[c.k] = c.e THEN [s EXCEPT ![c.k] = c.v] ELSE s)
  ELSE s

\* TTL table after command c applied at tick `now` on store s (before the command): a put with a TTL
\* sets the deadline, a put without TTL, a delete and a successful CAS cancel it
CmdTtl(s, t, c, now) ==
  IF c.op = "put" THEN [t EXCEPT ![c.k] = IF c.ttl > 0 THEN now + c.ttl ELSE 0]
  ELSE IF c.op = "del" THEN [t EXCEPT ![c.k] = 0]
  ELSE IF c.op = "cas" /\ s[c.k] = c.e THEN [t EXCEPT ![c.k] = 0]
  ELSE t

RECURSIVE ApplySeq(_, _)
ApplySeq(s, cmds) == IF cmds = <<>> THEN s ELSE ApplySeq(CmdStore(s, Head(cmds)), Tail(cmds))

RECURSIVE FlagsSeq(_, _)
FlagsSeq(s, cmds) ==
  IF cmds = <<>> THEN <<>> ELSE <<CmdOk(s, Head(cmds))>> \o FlagsSeq(CmdStore(s, Head(cmds)), Tail(cmds))

\* the reference state after the first m entries of log
StateAt(log, m) == ApplySeq(EmptyStore, SubSeq(log, 1, m))

\* the set of (key, value) pairs a prefix scan of store s must return
Scan(s, p) == {<<k, s[k]>> : k \in {x \in KeySet : s[x] # NoVal /\ IsPrefix(p, x)}}

Present(s) == {k \in KeySet : s[k] # NoVal}

\* expiry cleanup at tick now: every key whose deadline is due is removed
CleanStore(s, t, now) == [k \in KeySet |-> IF t[k] > 0 /\ t[k] <= now THEN NoVal ELSE s[k]]
CleanTtl(t, now)      == [k \in KeySet |-> IF t[k] > 0 /\ t[k] <= now THEN 0 ELSE t[k]]

\* all splits of n entries into consecutive non-empty chunks, as sequences of chunk lengths
RECURSIVE Chunkings(_)
Chunkings(n) ==
  IF n = 0 THEN {<<>>}
  ELSE UNION {{<<j>> \o c : c \in Chunkings(n - j)} : j \in 1..n}
=============================================================================
