--------------------------------- MODULE KV ---------------------------------
(***************************************************************************)
(* The key-value state machine of d-engine at the granularity of the real   *)
(* engines' write steps (FileStateMachine, RocksDBStateMachine):            *)
(*   - in-memory image (what get / get_multi / scan_prefix / last_applied    *)
(*     show) vs. durable image (File: state.data, metadata.bin, wal.log,     *)
(*     ttl_state.bin; RocksDB: data CF, applied-index keys of the meta CF,   *)
(*     TTL key of the meta CF),                                              *)
(*   - apply_chunk (CAS outcomes through the in-batch overlay, WAL append /  *)
(*     write batch, memory update, applied-index update), checkpoint /       *)
(*     flush with their sub-steps, process crash at step boundaries and at   *)
(*     the named points inside the steps + recovery on reopen, graceful      *)
(*     stop, re-application of the committed log above the reported applied  *)
(*     index, snapshot generation (label = applied - retained) / install /   *)
(*     replay, prefix scan overlapping an apply (the two windows of the      *)
(*     code), TTL (register / cancel / cleanup / persistence) over ticks.    *)
(*                                                                         *)
(* Dev = set of named deviations of the current code.  Dev = {} is the      *)
(* repaired design: all property invariants below hold.  Dev = as           *)
(* implemented is the spec the real code is bound to by conformance.        *)
(*                                                                         *)
(* With Emit = TRUE every maximal behaviour is printed (labels = harness    *)
(* steps + the model's predicted observations); dv-kv replays them into the *)
(* real engines and KVTrace.tla judges the recorded observations.           *)
(***************************************************************************)
EXTENDS KVCore, TLC, Json

CONSTANTS
  Engines,    \* subset of {"file", "rocks"}: the engine is chosen in the initial state
  Dev,        \* deviations in force
  Feat,       \* features: "Crash","CrashIn","Ckpt","Stop","ScanC","Snap","Tick","Each"
  UseKeys, PutVals, CasKeys, CasExp, CasNew, TtlKeys,    \* command alphabet
  MaxLen, MaxChunk, MaxCrash, MaxCkpt, MaxScan, MaxTick, MaxClean, Retained,
  CleanCrashOnly,   \* TRUE: crash only when the durable image is current (isolates the TTL clauses)
  Emit

VARIABLES eng, log, kv, applied, ttl, disk, clock, snap, inst, last, refKv, refTtl, bud, hist
vars == <<eng, log, kv, applied, ttl, disk, clock, snap, inst, last, refKv, refTtl, bud, hist>>

\* the alphabet observed by the harness after every step (single source: KVCore)
ASSUME PrintT(<<"HDR", ToJson([keys |-> AllKeys, prefixes |-> AllPrefixes])>>)

AllDev == {"AppliedIndexNotWrittenWithData", "WalReplayIgnoresIndex", "WalReplaySkipsEmptyValues",
           "WalClearedAfterReplayWithoutCheckpoint",
           "ScanRevisionReadAfterIteration", "AppliedUpdatedAfterData", "EmptyPrefixScanReturnsNothing",
           "SnapshotLabelBehindContent", "PlainPutKeepsTtl", "CasKeepsTtl", "TtlTablePersistedOnStopOnly",
           "WalReplayWithoutLease", "ReloadDropsDueTtl", "CleanupKeepsWal", "FileSnapshotTtlSectionUnreadable"}

Max(a, b) == IF a >= b THEN a ELSE b
Min(a, b) == IF a <= b THEN a ELSE b
Upd(f, k, v) == [x \in DOMAIN f \cup {k} |-> IF x = k THEN v ELSE f[x]]

Cmds ==   \* alphabet constants are sets of names, see KVCore!Nm
  {Put(k, v) : k \in Nms(UseKeys), v \in Nms(PutVals)}
  \cup {PutTtl(k, VA, 1) : k \in Nms(TtlKeys)}
  \cup {Del(k) : k \in Nms(UseKeys)}
  \cup {Cas(k, e, v) : k \in Nms(CasKeys), e \in Nms(CasExp), v \in Nms(CasNew)}

(***************************************************************************)
(* apply_chunk: CAS outcomes through the in-chunk overlay (File: base /     *)
(* delta maps; RocksDB: WriteBatchWithIndex read-through)                   *)
(***************************************************************************)
RECURSIVE Overlay(_, _, _)
Overlay(base, delta, cmds) ==
  IF cmds = <<>> THEN <<>>
  ELSE LET c   == Head(cmds)
           cur == IF c.k \in DOMAIN delta THEN delta[c.k] ELSE base[c.k]
           ok  == IF c.op = "cas" THEN cur = c.e ELSE TRUE
           d2  == IF c.op = "put" THEN Upd(delta, c.k, c.v)
                  ELSE IF c.op = "del" THEN Upd(delta, c.k, NoVal)
                  ELSE IF c.op = "cas" /\ ok THEN Upd(delta, c.k, c.v)
                  ELSE delta
       IN <<ok>> \o Overlay(base, d2, Tail(cmds))

RECURSIVE WithFlags(_, _, _)
WithFlags(s, cmds, flags) ==
  IF cmds = <<>> THEN s
  ELSE LET c == Head(cmds)
           s2 == IF c.op = "put" THEN [s EXCEPT ![c.k] = c.v]
                 ELSE IF c.op = "del" THEN [s EXCEPT ![c.k] = NoVal]
                 ELSE IF c.op = "cas" /\ Head(flags) THEN [s EXCEPT ![c.k] = c.v]
                 ELSE s
       IN WithFlags(s2, Tail(cmds), Tail(flags))

\* lease table as the code maintains it
ImplTtl1(t, c, ok, now) ==
  IF c.op = "put" THEN (IF c.ttl > 0 THEN [t EXCEPT ![c.k] = now + c.ttl]
                        ELSE IF "PlainPutKeepsTtl" \in Dev THEN t ELSE [t EXCEPT ![c.k] = 0])
  ELSE IF c.op = "del" THEN [t EXCEPT ![c.k] = 0]
  ELSE IF c.op = "cas" /\ ok THEN (IF "CasKeepsTtl" \in Dev THEN t ELSE [t EXCEPT ![c.k] = 0])
  ELSE t
RECURSIVE ImplTtl(_, _, _, _)
ImplTtl(t, cmds, flags, now) ==
  IF cmds = <<>> THEN t ELSE ImplTtl(ImplTtl1(t, Head(cmds), Head(flags), now), Tail(cmds), Tail(flags), now)

\* the ideal TTL table and store (reference semantics incl. TTL)
RECURSIVE RefTtlSeq(_, _, _, _)
RefTtlSeq(s, t, cmds, now) ==
  IF cmds = <<>> THEN t
  ELSE RefTtlSeq(CmdStore(s, Head(cmds)), CmdTtl(s, t, Head(cmds), now), Tail(cmds), now)

\* WAL records (File engine): outcomes, not intents
WalRec(c, ok, idx, now) ==
  IF c.op = "put" THEN [kind |-> "ins", k |-> c.k, v |-> c.v, exp |-> IF c.ttl > 0 THEN now + c.ttl ELSE 0, idx |-> idx]
  ELSE IF c.op = "del" THEN [kind |-> "del", k |-> c.k, v |-> NoVal, exp |-> 0, idx |-> idx]
  ELSE IF c.op = "cas" /\ ok THEN [kind |-> "ins", k |-> c.k, v |-> c.v, exp |-> 0, idx |-> idx]
  ELSE [kind |-> "none", k |-> c.k, v |-> NoVal, exp |-> 0, idx |-> idx]
WalRecs(cmds, flags, first, now) == [i \in 1..Len(cmds) |-> WalRec(cmds[i], flags[i], first + i - 1, now)]

RECURSIVE ReplayWal(_, _, _)
ReplayWal(s, wal, now) ==
  IF wal = <<>> THEN s
  ELSE LET r == Head(wal)
           s2 == IF r.kind = "ins"
                 THEN (IF r.v = VE /\ "WalReplaySkipsEmptyValues" \in Dev THEN s
                       ELSE IF r.exp > 0 /\ r.exp <= now THEN s
                       ELSE [s EXCEPT ![r.k] = r.v])
                 ELSE IF r.kind = "del" THEN [s EXCEPT ![r.k] = NoVal]
                 ELSE s
       IN ReplayWal(s2, Tail(wal), now)

\* TTL restored from WAL records at recovery (repaired design only: the code replays before a lease exists)
RECURSIVE ReplayWalTtl(_, _, _)
ReplayWalTtl(t, wal, now) ==
  IF wal = <<>> THEN t
  ELSE LET r == Head(wal)
           t2 == IF r.kind = "ins" THEN [t EXCEPT ![r.k] = r.exp]
                 ELSE IF r.kind = "del" THEN [t EXCEPT ![r.k] = 0]
                 ELSE t
       IN ReplayWalTtl(t2, Tail(wal), now)

\* lease table restored from a persisted image: the code drops the entries that are already due (their keys
\* stay in the data and are never cleaned up)
LiveTtl(t, now) == IF "ReloadDropsDueTtl" \in Dev THEN [k \in KeySet |-> IF t[k] > now THEN t[k] ELSE 0] ELSE t
WalMaxIdx(wal, dflt) == IF wal = <<>> THEN dflt ELSE Max(dflt, wal[Len(wal)].idx)

(***************************************************************************)
(* Durable image and recovery                                               *)
(***************************************************************************)
Disk0 == [data |-> EmptyStore, meta |-> 0, wal |-> <<>>, ttl |-> NoTtl]

\* what a fresh instance shows after opening durable image d (process-crash semantics), and the
\* durable image it leaves behind
Recover(d, now) ==
  IF eng = "rocks"
  THEN [kv |-> d.data, applied |-> d.meta, ttl |-> LiveTtl(d.ttl, now), disk |-> d]
  ELSE LET s  == ReplayWal(d.data, d.wal, now)
           a  == IF "WalReplayIgnoresIndex" \in Dev THEN d.meta ELSE WalMaxIdx(d.wal, d.meta)
           t0 == LiveTtl(d.ttl, now)
           t  == IF "WalReplayWithoutLease" \in Dev THEN t0 ELSE ReplayWalTtl(t0, d.wal, now)
           \* the code clears the WAL after replay without writing data/metadata; the repaired
           \* design checkpoints (data, metadata) before clearing
           d2 == IF "WalClearedAfterReplayWithoutCheckpoint" \in Dev
                 THEN [d EXCEPT !.wal = <<>>]
                 ELSE [d EXCEPT !.data = s, !.meta = a, !.wal = <<>>]
       IN [kv |-> s, applied |-> a, ttl |-> t, disk |-> d2]

\* durable image after apply_chunk of cmds (first index `first`) on memory image (kv2, a2, t2)
DiskAfterApply(d, cmds, flags, first, kv2, a2, t2, now) ==
  LET d1 == IF eng = "rocks"
            THEN [d EXCEPT !.data = kv2,
                           !.meta = IF "AppliedIndexNotWrittenWithData" \in Dev THEN @ ELSE a2]
            ELSE [d EXCEPT !.wal = @ \o WalRecs(cmds, flags, first, now)]
  IN IF "TtlTablePersistedOnStopOnly" \in Dev THEN d1 ELSE [d1 EXCEPT !.ttl = t2]

\* checkpoint (File: flush_async) / flush (RocksDB); sub-step k of 3 reached
DiskCkpt(d, k) ==
  IF eng = "rocks"
  THEN (IF k >= 3 THEN [d EXCEPT !.meta = applied] ELSE d)
  ELSE [d EXCEPT !.data = IF k >= 1 THEN kv ELSE @,
                 !.meta = IF k >= 2 THEN applied ELSE @,
                 !.wal  = IF k >= 3 THEN <<>> ELSE @]

DiskCurrent == disk.meta = applied /\ (eng = "rocks" \/ disk.wal = <<>>) /\ disk.data = kv

(***************************************************************************)
(* Emission                                                                 *)
(***************************************************************************)
Pred == [pk |-> [i \in 1..Len(AllKeys) |-> kv'[AllKeys[i]]], pa |-> applied']
Lbl(l) == hist' = IF Emit THEN Append(hist, l @@ Pred) ELSE hist

Init ==
  /\ eng \in Engines
  /\ log = <<>> /\ kv = EmptyStore /\ applied = 0 /\ ttl = NoTtl /\ disk = Disk0 /\ clock = 0
  /\ snap = [on |-> FALSE] /\ inst = "orig"
  /\ last = [t |-> "init"]
  /\ refKv = EmptyStore /\ refTtl = NoTtl
  /\ bud = [crash |-> 0, ckpt |-> 0, scan |-> 0, tick |-> 0, clean |-> 0, stop |-> 0]
  /\ hist = <<>>

Caught == applied = Len(log)

\* the memory image after applying cmds as the next entries
Applied(cmds) ==
  LET flags == Overlay(kv, <<>>, cmds)
      kv2   == WithFlags(kv, cmds, flags)
      t2    == ImplTtl(ttl, cmds, flags, clock)
      a2    == Len(log) + Len(cmds)
  IN [flags |-> flags, kv |-> kv2, ttl |-> t2, applied |-> a2,
      disk |-> DiskAfterApply(disk, cmds, flags, Len(log) + 1, kv2, a2, t2, clock)]

RefStep(cmds) ==
  /\ refKv' = ApplySeq(refKv, cmds)
  /\ refTtl' = RefTtlSeq(refKv, refTtl, cmds, clock)

ChunkChoices == UNION {[1..n -> Cmds] : n \in 1..Min(MaxChunk, MaxLen - Len(log))}

Apply ==
  /\ Caught /\ Len(log) < MaxLen
  /\ \E cmds \in ChunkChoices :
       LET r == Applied(cmds) IN
       /\ log' = log \o cmds
       /\ kv' = r.kv /\ applied' = r.applied /\ ttl' = r.ttl /\ disk' = r.disk
       /\ last' = [t |-> "apply", flags |-> r.flags, pre |-> kv, cmds |-> cmds]
       /\ RefStep(cmds)
       /\ Lbl([t |-> "apply", cmds |-> cmds])
       /\ UNCHANGED <<clock, snap, inst, bud>>

\* process crash at the engine's point inside apply_chunk after the WAL append / batch write
ApplyCrashSite == IF eng = "rocks" THEN "rocks.apply.after_write" ELSE "file.apply.after_wal"
ApplyCrash ==
  /\ "CrashIn" \in Feat /\ Caught /\ Len(log) < MaxLen /\ bud.crash < MaxCrash /\ ~CleanCrashOnly
  /\ \E cmds \in ChunkChoices :
       LET r   == Applied(cmds)
           rec == Recover(r.disk, clock) IN
       /\ log' = log \o cmds
       /\ kv' = rec.kv /\ applied' = rec.applied /\ ttl' = rec.ttl /\ disk' = rec.disk
       /\ last' = [t |-> "crash"]
       /\ RefStep(cmds)
       /\ bud' = [bud EXCEPT !.crash = @ + 1]
       /\ Lbl([t |-> "apply", cmds |-> cmds, crashat |-> ApplyCrashSite])
       /\ UNCHANGED <<clock, snap, inst>>

Crash ==
  /\ "Crash" \in Feat /\ bud.crash < MaxCrash /\ Len(log) > 0
  /\ CleanCrashOnly => DiskCurrent
  /\ LET rec == Recover(disk, clock) IN
     /\ kv' = rec.kv /\ applied' = rec.applied /\ ttl' = rec.ttl /\ disk' = rec.disk
  /\ last' = [t |-> "crash"]
  /\ bud' = [bud EXCEPT !.crash = @ + 1]
  /\ Lbl([t |-> "crash"])
  /\ UNCHANGED <<log, clock, snap, inst, refKv, refTtl>>

Ckpt ==
  /\ "Ckpt" \in Feat /\ bud.ckpt < MaxCkpt /\ Len(log) > 0 /\ ~DiskCurrent
  /\ disk' = DiskCkpt(disk, 3)
  /\ last' = [t |-> "ckpt"]
  /\ bud' = [bud EXCEPT !.ckpt = @ + 1]
  /\ UNCHANGED <<log, kv, applied, ttl, clock, snap, inst, refKv, refTtl>>
  /\ Lbl([t |-> "ckpt"])

CkptSites == IF eng = "rocks" THEN {<<2, "rocks.flush.before_meta">>}
             ELSE {<<1, "file.ckpt.after_data">>, <<2, "file.ckpt.after_meta">>}
CkptCrash ==
  /\ "Ckpt" \in Feat /\ "CrashIn" \in Feat /\ bud.ckpt < MaxCkpt /\ bud.crash < MaxCrash /\ Len(log) > 0
  /\ ~DiskCurrent /\ ~CleanCrashOnly
  /\ \E site \in CkptSites :
       LET rec == Recover(DiskCkpt(disk, site[1]), clock) IN
       /\ kv' = rec.kv /\ applied' = rec.applied /\ ttl' = rec.ttl /\ disk' = rec.disk
       /\ Lbl([t |-> "ckpt", crashat |-> site[2]])
  /\ last' = [t |-> "crash"]
  /\ bud' = [bud EXCEPT !.ckpt = @ + 1, !.crash = @ + 1]
  /\ UNCHANGED <<log, clock, snap, inst, refKv, refTtl>>

\* graceful stop() + drop, then a fresh instance on the same directory
Stop ==
  /\ "Stop" \in Feat /\ bud.stop < 1 /\ Len(log) > 0
  /\ LET d1 == IF eng = "rocks" THEN [disk EXCEPT !.meta = applied, !.ttl = ttl]
               ELSE [disk EXCEPT !.data = kv, !.meta = applied, !.ttl = ttl]
         rec == Recover(d1, clock) IN
     /\ kv' = rec.kv /\ applied' = rec.applied /\ ttl' = rec.ttl /\ disk' = rec.disk
  /\ last' = [t |-> "stop"]
  /\ bud' = [bud EXCEPT !.stop = @ + 1]
  /\ Lbl([t |-> "stop"])
  /\ UNCHANGED <<log, clock, snap, inst, refKv, refTtl>>

\* the Raft layer re-delivers the committed entries above the reported applied index
RECURSIVE ApplyEach(_, _, _, _, _)
ApplyEach(s, t, d, a, cmds) ==   \* one entry per chunk
  IF cmds = <<>> THEN [kv |-> s, ttl |-> t, disk |-> d]
  ELSE LET c  == <<Head(cmds)>>
           f  == Overlay(s, <<>>, c)
           s2 == WithFlags(s, c, f)
           t2 == ImplTtl(t, c, f, clock)
       IN ApplyEach(s2, t2, DiskAfterApply(d, c, f, a + 1, s2, a + 1, t2, clock), a + 1, Tail(cmds))

Reapply ==
  /\ applied < Len(log)
  /\ applied' = Len(log)
  /\ \E mode \in (IF "Each" \in Feat THEN {"one", "each"} ELSE {"one"}) :
       LET cmds == SubSeq(log, applied + 1, Len(log))
           f    == Overlay(kv, <<>>, cmds)
           s1   == WithFlags(kv, cmds, f)
           t1   == ImplTtl(ttl, cmds, f, clock)
           one  == [kv |-> s1, ttl |-> t1,
                    disk |-> DiskAfterApply(disk, cmds, f, applied + 1, s1, Len(log), t1, clock)]
           r    == IF mode = "one" THEN one ELSE ApplyEach(kv, ttl, disk, applied, cmds)
       IN /\ kv' = r.kv /\ ttl' = r.ttl /\ disk' = r.disk
          /\ Lbl([t |-> "reapply", mode |-> mode])
  /\ last' = [t |-> "reapply"]
  /\ UNCHANGED <<log, clock, snap, inst, refKv, refTtl, bud>>

(***************************************************************************)
(* Prefix scan                                                              *)
(***************************************************************************)
ImplScan(s, p) == IF eng = "rocks" /\ p = <<>> /\ "EmptyPrefixScanReturnsNothing" \in Dev THEN {} ELSE Scan(s, p)

Prefixes == {AllPrefixes[i] : i \in 1..Len(AllPrefixes)}

\* a scan overlapping an apply of the next entries, at window w of the code
Windows == IF eng = "rocks" THEN {"rocks.scan.after_iter", "rocks.apply.after_write"} ELSE {"file.apply.after_mem"}
ScanC ==
  /\ "ScanC" \in Feat /\ Caught /\ Len(log) < MaxLen /\ bud.scan < MaxScan
  /\ \E cmds \in ChunkChoices, p \in Prefixes, w \in Windows :
       LET r == Applied(cmds)
           sc == IF w = "rocks.scan.after_iter"
                 THEN \* iterate, [apply], read revision
                      (IF p = <<>> /\ "EmptyPrefixScanReturnsNothing" \in Dev
                       THEN [e |-> {}, rev |-> applied]       \* fast path: no window
                       ELSE [e |-> ImplScan(kv, p),
                             rev |-> IF "ScanRevisionReadAfterIteration" \in Dev THEN r.applied ELSE applied])
                 ELSE \* data visible, [scan], applied index updated
                      (IF "AppliedUpdatedAfterData" \in Dev
                       THEN [e |-> ImplScan(r.kv, p), rev |-> applied]
                       ELSE [e |-> ImplScan(r.kv, p), rev |-> r.applied])
       IN /\ log' = log \o cmds
          /\ kv' = r.kv /\ applied' = r.applied /\ ttl' = r.ttl /\ disk' = r.disk
          /\ last' = [t |-> "scanc", p |-> p, e |-> sc.e, rev |-> sc.rev, flags |-> r.flags, pre |-> kv, cmds |-> cmds]
          /\ RefStep(cmds)
          /\ Lbl([t |-> "scanc", p |-> p, w |-> w, cmds |-> cmds])
  /\ bud' = [bud EXCEPT !.scan = @ + 1]
  /\ UNCHANGED <<clock, snap, inst>>

(***************************************************************************)
(* Snapshot generate / install / (replay = Reapply)                         *)
(***************************************************************************)
Snap ==
  /\ "Snap" \in Feat /\ Caught /\ ~snap.on /\ Len(log) > 0 /\ inst = "orig"
  /\ last' = [t |-> "snap"]
  /\ UNCHANGED <<log, kv, applied, ttl, disk, clock, inst, refKv, refTtl, bud>>
  /\ \E R \in Retained :
       LET label == IF "SnapshotLabelBehindContent" \in Dev THEN Max(applied - R, 0) ELSE applied IN
       /\ snap' = [on |-> TRUE, label |-> label, kv |-> kv, ttl |-> ttl, meta |-> disk.meta,
                   n |-> Len(log), refKv |-> refKv, refTtl |-> refTtl]
       /\ Lbl([t |-> "snap", retained |-> R])

Install ==
  /\ snap.on /\ inst = "orig"
  \* File engine: the TTL section appended to snapshot.bin is consumed by the key/value parser of
  \* apply_snapshot_from_file (no delimiter), so the lease table is never restored
  /\ kv' = snap.kv /\ applied' = snap.label
  /\ ttl' = IF eng = "file" /\ "FileSnapshotTtlSectionUnreadable" \in Dev THEN NoTtl ELSE LiveTtl(snap.ttl, clock)
  /\ disk' = IF eng = "rocks"
             THEN [data |-> snap.kv, meta |-> snap.meta, wal |-> <<>>,
                   ttl |-> LiveTtl(snap.ttl, clock)]
             ELSE [data |-> snap.kv, meta |-> snap.label, wal |-> <<>>, ttl |-> NoTtl]
  /\ inst' = "inst"
  /\ last' = [t |-> "install"]
  \* expiry cleanup is a local action: the reference for the installing node is the reference at the snapshot
  \* point plus the entries committed since (the clock does not advance while a snapshot waits, see Tick)
  /\ LET suffix == SubSeq(log, snap.n + 1, Len(log)) IN
     /\ refKv' = ApplySeq(snap.refKv, suffix)
     /\ refTtl' = RefTtlSeq(snap.refKv, snap.refTtl, suffix, clock)
  /\ UNCHANGED <<log, clock, snap, bud>>
  /\ Lbl([t |-> "install"])

(***************************************************************************)
(* Time                                                                     *)
(***************************************************************************)
Tick ==
  /\ "Tick" \in Feat /\ bud.tick < MaxTick
  \* time advances only while the instance is caught up and no snapshot is waiting to be installed: re-applying
  \* a put-with-TTL in a later tick would move its deadline (a consequence of the C15 / C16 deviations, kept out of
  \* the TTL configurations)
  /\ Caught /\ ~(snap.on /\ inst = "orig")
  /\ clock' = clock + 1
  /\ bud' = [bud EXCEPT !.tick = @ + 1]
  /\ last' = [t |-> "tick"]
  /\ UNCHANGED <<log, kv, applied, ttl, disk, snap, inst, refKv, refTtl>>
  /\ Lbl([t |-> "tick"])

Cleanup ==
  /\ "Tick" \in Feat /\ bud.clean < MaxClean /\ clock > 0 /\ last.t # "cleanup"
  /\ kv' = CleanStore(kv, ttl, clock) /\ ttl' = CleanTtl(ttl, clock)
  /\ disk' = IF eng = "rocks" THEN [disk EXCEPT !.data = kv']
             ELSE IF kv' = kv THEN disk
             \* the code rewrites state.data but keeps the WAL, whose replay can bring back a value the
             \* expired put had overwritten; the repaired design checkpoints
             ELSE IF "CleanupKeepsWal" \in Dev THEN [disk EXCEPT !.data = kv']
             ELSE [disk EXCEPT !.data = kv', !.meta = applied, !.wal = <<>>]
  /\ refKv' = CleanStore(refKv, refTtl, clock) /\ refTtl' = CleanTtl(refTtl, clock)
  /\ bud' = [bud EXCEPT !.clean = @ + 1]
  /\ last' = [t |-> "cleanup"]
  /\ UNCHANGED <<log, applied, clock, snap, inst>>
  /\ Lbl([t |-> "cleanup"])

Next == /\ eng' = eng
        /\ (Apply \/ ApplyCrash \/ Crash \/ Ckpt \/ CkptCrash \/ Stop \/ Reapply \/ ScanC \/ Snap \/ Install
            \/ Tick \/ Cleanup)

Spec == Init /\ [][Next]_vars

(***************************************************************************)
(* Properties                                                               *)
(***************************************************************************)
\* C22: flags of the last chunk and contents equal the reference semantics, for every chunking
C22_Flags == last.t \in {"apply", "scanc"} => last.flags = FlagsSeq(last.pre, last.cmds)
C22_Contents == (Caught /\ clock = 0) => kv = StateAt(log, Len(log))

\* (reads through scan_prefix agree with the contents; ImplScan is defined below)
C22_Reads == (Caught /\ clock = 0) =>
  \A p \in {AllPrefixes[i] : i \in 1..Len(AllPrefixes)} :
     (IF eng = "rocks" /\ p = <<>> /\ "EmptyPrefixScanReturnsNothing" \in Dev THEN {} ELSE Scan(kv, p))
       = Scan(StateAt(log, Len(log)), p)

\* C15: the reported applied index matches the data held (hence re-application cannot change the state)
C15_AppliedMatchesData == clock = 0 => (applied <= Len(log) /\ kv = StateAt(log, applied))

\* C16: a snapshot's boundary matches its content; install + replay = full apply (by C15's invariant
\* on the installing instance)
C16_BoundaryMatchesContent == (snap.on /\ clock = 0) => snap.kv = StateAt(log, snap.label)

\* C25: an overlapping scan returns the state at the revision it reports; sequential scans likewise
C25_ScanAtRevision ==
  last.t = "scanc" => (last.rev <= Len(log) /\ last.e = Scan(StateAt(log, last.rev), last.p))
C25_SeqScan == clock = 0 => \A p \in Prefixes : ImplScan(kv, p) = Scan(StateAt(log, applied), p)

\* C23: keys whose TTL is not yet due hold the reference value; after cleanup the reference has dropped
\* the due ones; cancelled TTLs never remove a value
C23_Ttl == Caught => \A k \in KeySet : (refTtl[k] = 0 \/ refTtl[k] > clock) => kv[k] = refKv[k]

(***************************************************************************)
(* Behaviour emission: every maximal behaviour, once                        *)
(***************************************************************************)
EmitInv == (Emit /\ ~ENABLED Next) => PrintT(<<"REPLAY", ToJson([eng |-> eng, steps |-> hist])>>)
=============================================================================
