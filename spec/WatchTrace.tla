------------------------------ MODULE WatchTrace ------------------------------
(***************************************************************************)
(* Trace judge for C24.  Every line of the ndjson file named by env TRACE   *)
(* is one behaviour executed by dv-watch on the real WatchRegistry /        *)
(* WatchDispatcher / DefaultStateMachineHandler:                            *)
(*   [id, steps (the schedule, labels of Watch.tla), obs (per watcher: the  *)
(*    sequence of events its receiver returned)]                            *)
(* The schedule is folded through the operators of Watch.tla (ground truth: *)
(* history of committed changes, registrations, what was lost where).       *)
(* Layer 1: the C24 monitors of Watch.tla evaluated on the OBSERVED         *)
(* sequences.  Layer 2: observed sequences = the spec's sequences.          *)
(***************************************************************************)
EXTENDS Watch, IOUtils

Rec == ndJsonDeserialize(IOEnv.TRACE)
\* Targets / Ops are only used by Next of Watch.tla, never by the judge
TraceTargets == [w \in W |-> {}]
TraceOps == {}

VARIABLES l, out
tvars == <<l, out, st, sched>>

RECURSIVE Fold(_, _, _)
Fold(s, steps, i) == IF i > Len(steps) THEN s ELSE Fold(StepOrSkip(s, steps[i]), steps, i + 1)

Mon(s, w, g) == [OnlyOwnKeys |-> OnlyOwnKeys(s, w, g), OnlyCommitted |-> OnlyCommitted(s, w, g),
                 StrictOrder |-> StrictOrder(s, w, g), CancelIsLast |-> CancelIsLast(s, w, g),
                 NoSilentGap |-> (~Quiescent(s)) \/ NoSilentGap(s, w, g)]
\* cause class of a failed monitor, computed from the ground truth
Cause(s, w, g, m) ==
  IF m = "NoSilentGap"
  THEN IF \A e \in Missing(s, w, g) : e.rev \in s.lost THEN "broadcast-lagged" ELSE "event-not-delivered"
  ELSE IF m = "OnlyCommitted" /\ \E i \in DOMAIN g : IsData(g[i]) /\ g[i] \notin Range(s.hist)
                                  /\ \E h \in Range(s.hist) : h.rev = g[i].rev /\ h.key = g[i].key
       THEN "wrong-event-type"
  ELSE "other"

Judge(r) ==
  LET s == Fold(Init0, r.steps, 1)
      ws == {w \in W : s.cl[w] # "none"}
      g(w) == r.obs[w]
      names == {"OnlyOwnKeys", "OnlyCommitted", "StrictOrder", "CancelIsLast", "NoSilentGap"}
  IN [id |-> r.id,
      viol |-> {[p |-> "C24", id |-> r.id, w |-> x[1], m |-> x[2], cause |-> Cause(s, x[1], g(x[1]), x[2]),
                 missing |-> {e.rev : e \in Missing(s, x[1], g(x[1]))}] :
                  x \in {y \in ws \X names : ~Mon(s, y[1], g(y[1]))[y[2]]}},
      div |-> {w \in ws : g(w) # s.got[w]},
      progress |-> {w \in ws : ~ProgressNotBehind(s, w, g(w))},
      quiescent |-> Quiescent(s), lagged |-> s.lost # {},
      cancelled |-> {w \in ws : Cancelled(g(w))}, mcancelled |-> {w \in ws : Cancelled(s.got[w])},
      delivered |-> [w \in ws |-> Len(g(w))]]

TInit == l = 0 /\ out = <<>> /\ st = Init0 /\ sched = <<>>
TNext == /\ l < Len(Rec) /\ l' = l + 1
         /\ out' = Append(out, Judge(Rec[l + 1]))
         /\ UNCHANGED <<st, sched>>
TSpec == TInit /\ [][TNext]_tvars
Done == (l = Len(Rec)) => JsonSerialize(IOEnv.OUT, out)
=============================================================================
