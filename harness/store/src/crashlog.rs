pub fn main(_args: &[String]) -> i32 { eprintln!("not built yet"); 2 }
