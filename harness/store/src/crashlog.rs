//! C18: walk the state graph of spec/BufLogIO.tla on the real `BufferedRaftLog` running over a
//! gated LogStore (written / synced layers; every call of the IO task stops at a gate until the
//! harness lets it pass), and over the File / RocksDB engines.
//!
//! Gated mode: every operation sequence of the graph is executed; at every state (between any two
//! LogStore calls of the IO task and at every operation boundary) the store is "crashed" without
//! disturbing the run: the written layer (process crash) and the synced layer (power loss) are
//! copied, a fresh BufferedRaftLog is built on each copy and read back. Conformance: every gate
//! call, durable_index(), the in-memory log and the recovered logs are compared with the spec
//! state. Property monitors are evaluated on the OBSERVED values and cross-checked with the
//! verdict TLC computed for the state whenever the observations conform.
//!
//! Engine mode (file / rocksdb): the same operation sequences with the IO task running freely to
//! quiescence after every operation; process crash = copy of the data directory at the operation
//! boundary, reopened by a fresh engine + BufferedRaftLog.
use std::collections::{BTreeMap, HashMap};
use std::ops::RangeInclusive;
use std::path::{Path, PathBuf};
use std::sync::atomic::{AtomicU64, Ordering};
use std::sync::{Arc, Condvar, Mutex};
use std::time::{Duration, Instant};

use async_trait::async_trait;
use d_engine_core::*;
use d_engine_proto::common::{Entry, LogId};
use d_engine_server::verif_exports::RaftMembership;
use d_engine_server::{FileStorageEngine, RocksDBStorageEngine};
use dv_common::mem::MemSm;
use dv_common::net::SimTransport;
use serde::{Deserialize, Serialize};
use serde_json::{Value, json};

use crate::util::*;

type R<T> = std::result::Result<T, Error>;

// ---------------------------------------------------------------------------------------------
// gated in-memory store
// ---------------------------------------------------------------------------------------------
#[derive(Clone, Debug, Serialize, Deserialize, PartialEq, Default)]
pub struct Call {
    pub c: String,
    #[serde(default)]
    pub es: Vec<It>,
    #[serde(default)]
    pub from: u64,
    #[serde(default)]
    pub i: u64,
    #[serde(default)]
    pub t: u64,
    #[serde(default, skip_serializing)]
    pub end: u64,
}
#[derive(Clone, Debug, Serialize, Deserialize, PartialEq, Default)]
pub struct It {
    pub i: u64,
    pub t: u64,
}

#[derive(Default)]
struct GateSt {
    pending: Option<Call>,
    release: bool,
    executing: bool,
    done: u64,
    /// gate open: calls pass without waiting (used when the run is torn down)
    open: bool,
}
#[derive(Default)]
pub struct Gate {
    st: Mutex<GateSt>,
    cv: Condvar,
}

#[derive(Default, Clone)]
pub struct Layers {
    w: BTreeMap<u64, Entry>,
    s: BTreeMap<u64, Entry>,
    wpb: Option<LogId>,
    spb: Option<LogId>,
}

#[derive(Default)]
pub struct GateLog {
    layers: Mutex<Layers>,
    gate: Option<Arc<Gate>>,
}

impl GateLog {
    fn pass(
        &self,
        call: Call,
    ) {
        if let Some(g) = &self.gate {
            let mut st = g.st.lock().unwrap();
            if st.open {
                st.executing = true;
                return;
            }
            st.pending = Some(call);
            g.cv.notify_all();
            while !st.release && !st.open {
                st = g.cv.wait(st).unwrap();
            }
            st.release = false;
            st.pending = None;
            st.executing = true;
        }
    }
    fn done(&self) {
        if let Some(g) = &self.gate {
            let mut st = g.st.lock().unwrap();
            st.executing = false;
            st.done += 1;
            g.cv.notify_all();
        }
    }
    fn image(
        &self,
        power: bool,
    ) -> GateLog {
        let l = self.layers.lock().unwrap();
        let (e, pb) = if power { (l.s.clone(), l.spb) } else { (l.w.clone(), l.wpb) };
        GateLog {
            layers: Mutex::new(Layers {
                w: e.clone(),
                s: e,
                wpb: pb,
                spb: pb,
            }),
            gate: None,
        }
    }
}

fn its(es: &[Entry]) -> Vec<It> {
    es.iter()
        .map(|e| It {
            i: e.index,
            t: e.term,
        })
        .collect()
}

#[async_trait]
impl LogStore for GateLog {
    async fn persist_entries(
        &self,
        entries: Vec<Entry>,
    ) -> R<()> {
        self.pass(Call {
            c: "persist".into(),
            es: its(&entries),
            ..Default::default()
        });
        {
            let mut l = self.layers.lock().unwrap();
            for e in entries {
                l.w.insert(e.index, e);
            }
        }
        self.done();
        Ok(())
    }
    async fn entry(
        &self,
        index: u64,
    ) -> R<Option<Entry>> {
        Ok(self.layers.lock().unwrap().w.get(&index).cloned())
    }
    fn get_entries(
        &self,
        range: RangeInclusive<u64>,
    ) -> R<Vec<Entry>> {
        Ok(self.layers.lock().unwrap().w.range(range).map(|(_, e)| e.clone()).collect())
    }
    async fn purge(
        &self,
        cutoff: LogId,
    ) -> R<()> {
        self.pass(Call {
            c: "purge".into(),
            i: cutoff.index,
            t: cutoff.term,
            ..Default::default()
        });
        {
            let mut l = self.layers.lock().unwrap();
            l.w.retain(|k, _| *k > cutoff.index);
            l.wpb = Some(cutoff);
        }
        self.done();
        Ok(())
    }
    async fn truncate(
        &self,
        from: u64,
    ) -> R<()> {
        self.pass(Call {
            c: "truncate".into(),
            from,
            ..Default::default()
        });
        self.layers.lock().unwrap().w.retain(|k, _| *k < from);
        self.done();
        Ok(())
    }
    async fn replace_range(
        &self,
        from: u64,
        new_entries: Vec<Entry>,
    ) -> R<()> {
        self.pass(Call {
            c: "replace".into(),
            from,
            es: its(&new_entries),
            ..Default::default()
        });
        {
            let mut l = self.layers.lock().unwrap();
            l.w.retain(|k, _| *k < from);
            for e in new_entries {
                l.w.insert(e.index, e);
            }
        }
        self.done();
        Ok(())
    }
    fn is_write_durable(&self) -> bool {
        false
    }
    fn flush(&self) -> R<()> {
        self.pass(Call {
            c: "flush".into(),
            ..Default::default()
        });
        {
            let mut l = self.layers.lock().unwrap();
            l.s = l.w.clone();
            l.spb = l.wpb;
        }
        self.done();
        Ok(())
    }
    async fn flush_async(&self) -> R<()> {
        LogStore::flush(self)
    }
    async fn reset(&self) -> R<()> {
        self.pass(Call {
            c: "reset".into(),
            ..Default::default()
        });
        self.layers.lock().unwrap().w.clear();
        self.done();
        Ok(())
    }
    fn last_index(&self) -> u64 {
        self.layers.lock().unwrap().w.keys().next_back().copied().unwrap_or(0)
    }
    fn load_purge_boundary(&self) -> R<Option<LogId>> {
        Ok(self.layers.lock().unwrap().wpb)
    }
}

#[derive(Default)]
pub struct GateMeta {
    hs: Mutex<Option<HardState>>,
}
impl MetaStore for GateMeta {
    fn save_hard_state(
        &self,
        s: &HardState,
    ) -> R<()> {
        *self.hs.lock().unwrap() = Some(*s);
        Ok(())
    }
    fn load_hard_state(&self) -> R<Option<HardState>> {
        Ok(*self.hs.lock().unwrap())
    }
}

impl std::fmt::Debug for GateEngine {
    fn fmt(
        &self,
        f: &mut std::fmt::Formatter<'_>,
    ) -> std::fmt::Result {
        f.write_str("GateEngine")
    }
}
pub struct GateEngine {
    l: Arc<GateLog>,
    m: Arc<GateMeta>,
}
impl StorageEngine for GateEngine {
    type LogStore = GateLog;
    type MetaStore = GateMeta;
    fn log_store(&self) -> Arc<GateLog> {
        self.l.clone()
    }
    fn meta_store(&self) -> Arc<GateMeta> {
        self.m.clone()
    }
}

macro_rules! tc {
    ($name:ident, $se:ty) => {
        #[derive(Debug)]
        pub struct $name;
        impl TypeConfig for $name {
            type SE = $se;
            type SM = MemSm;
            type R = BufferedRaftLog<Self>;
            type M = RaftMembership<Self>;
            type TR = SimTransport<Self>;
            type E = ElectionHandler<Self>;
            type REP = ReplicationHandler<Self>;
            type C = DefaultCommitHandler<Self>;
            type SMH = DefaultStateMachineHandler<Self>;
            type SNP = LogSizePolicy;
            type PE = DefaultPurgeExecutor<Self>;
        }
    };
}
tc!(GateTc, GateEngine);
tc!(FileTc, FileStorageEngine);
tc!(RocksTc, RocksDBStorageEngine);

fn pcfg() -> PersistenceConfig {
    let mut c = PersistenceConfig::default();
    // no idle timer during a run: the IO task acts only on notifications and commands
    c.flush_policy = FlushPolicy::Batch {
        idle_flush_interval_ms: 3_600_000,
    };
    c
}

// ---------------------------------------------------------------------------------------------
// graph
// ---------------------------------------------------------------------------------------------
#[derive(Deserialize, Clone, Debug)]
struct Verdict {
    gapfree: bool,
    durable: bool,
    flush: bool,
    nores: bool,
}
#[derive(Deserialize, Clone, Debug)]
struct CrashExp {
    rec: Vec<u64>,
    verdict: Verdict,
}
#[derive(Deserialize, Clone, Debug)]
struct Obs {
    mem: Vec<u64>,
    dur: u64,
    fl: bool,
    next: Call,
    inflight: bool,
    process: CrashExp,
    power: CrashExp,
}
#[derive(Deserialize)]
struct StateJ {
    k: Value,
    obs: Obs,
}
#[derive(Deserialize, Serialize, Clone, Debug)]
#[serde(tag = "k", rename_all = "lowercase")]
enum Op {
    Append { es: Vec<It> },
    Conflict { p: u64, pt: u64, es: Vec<It> },
    Purge { i: u64, t: u64 },
    Resetappend { es: Vec<It> },
    Flush { short: bool },
    Io { call: Call },
}
#[derive(Deserialize)]
struct EdgeJ {
    f: Value,
    t: Value,
    op: Op,
}
struct Edge {
    to: usize,
    op: Op,
}
struct Graph {
    max_idx: u64,
    states: Vec<Obs>,
    init: usize,
    ops: Vec<Vec<Edge>>,
    io: Vec<Option<usize>>,
    n_edges: usize,
}

fn load_graph(
    path: &str,
    max_idx: u64,
) -> Graph {
    use std::io::BufRead;
    let f = std::io::BufReader::new(std::fs::File::open(path).expect("open graph"));
    let mut ids: HashMap<String, usize> = HashMap::new();
    let mut keys = vec![];
    let mut states = vec![];
    let mut edges: Vec<EdgeJ> = vec![];
    for line in f.lines() {
        let line = line.expect("read");
        if let Some(r) = line.strip_prefix("S ") {
            let s: StateJ = serde_json::from_str(r).expect("state json");
            ids.insert(s.k.to_string(), states.len());
            keys.push(s.k);
            states.push(s.obs);
        } else if let Some(r) = line.strip_prefix("E ") {
            edges.push(serde_json::from_str(r).expect("edge json"));
        }
    }
    let n = states.len();
    let mut ops: Vec<Vec<Edge>> = (0..n).map(|_| vec![]).collect();
    let mut io: Vec<Option<usize>> = vec![None; n];
    let n_edges = edges.len();
    for e in edges {
        let fi = ids[&e.f.to_string()];
        let ti = ids[&e.t.to_string()];
        match e.op {
            Op::Io { .. } => io[fi] = Some(ti),
            op => ops[fi].push(Edge { to: ti, op }),
        }
    }
    for v in ops.iter_mut() {
        v.sort_by_key(|e| serde_json::to_string(&e.op).unwrap());
    }
    // initial state: nops (last key component) = 0
    let init = keys.iter().position(|k| k.as_array().unwrap().last().unwrap() == &json!(0)).expect("init");
    Graph {
        max_idx,
        states,
        init,
        ops,
        io,
        n_edges,
    }
}

// ---------------------------------------------------------------------------------------------
// monitors on observed values
// ---------------------------------------------------------------------------------------------
#[derive(Clone, Default)]
struct Reported {
    mem: Vec<u64>,
    dur: u64,
    fl: bool,
}

fn gapfree(r: &[u64]) -> bool {
    let idx: Vec<usize> = (0..r.len()).filter(|i| r[*i] != 0).collect();
    idx.windows(2).all(|w| w[1] == w[0] + 1)
}

/// requirement = what was reported durable in `rep`, restricted to entries equal in `now`
/// (an operation in flight may have touched the others); `reset_inflight`: nothing is required.
fn check_monitors(
    rec: &[u64],
    rep: &Reported,
    now_mem: &[u64],
    reset_inflight: bool,
    repl: &[(u64, u64)],
    process: bool,
) -> Vec<(String, String)> {
    let mut v = vec![];
    if !gapfree(rec) {
        v.push(("GapFree".to_string(), format!("recovered={rec:?}")));
    }
    if !reset_inflight {
        for i in 1..rep.mem.len() {
            let m = rep.mem[i];
            if m == 0 || now_mem[i] != m {
                continue;
            }
            if (i as u64) <= rep.dur && rec[i] != m {
                v.push(("DurableKept".to_string(), format!("index={i} log={m} recovered={} durable_index={}", rec[i], rep.dur)));
            }
            if rep.fl && rec[i] != m {
                v.push(("FlushKept".to_string(), format!("index={i} log={m} recovered={}", rec[i])));
            }
        }
    }
    if process {
        for i in 1..rec.len() {
            if rec[i] != 0 && repl.contains(&(i as u64, rec[i])) {
                v.push(("NoResurrection".to_string(), format!("index={i} recovered={}", rec[i])));
            }
        }
    }
    v
}

// ---------------------------------------------------------------------------------------------
// gated run
// ---------------------------------------------------------------------------------------------
#[derive(Serialize, Clone)]
struct Finding {
    /// violation | divergence | oracle-disagreement
    kind: String,
    monitor: String,
    crash: String,
    detail: String,
    path: Vec<Op>,
    /// how many LogStore calls of the last operation had been executed (-1: operation boundary)
    io_step: i64,
    inflight: bool,
    engine: String,
    /// durable_index() observed after each completed operation of `path` (before the last one if in flight)
    durs: Vec<u64>,
}

struct GatedRun {
    gate: Arc<Gate>,
    store: Arc<GateLog>,
    log: Arc<BufferedRaftLog<GateTc>>,
}

impl GatedRun {
    fn new() -> Self {
        let gate = Arc::new(Gate::default());
        let store = Arc::new(GateLog {
            layers: Mutex::new(Layers::default()),
            gate: Some(gate.clone()),
        });
        let eng = Arc::new(GateEngine {
            l: store.clone(),
            m: Arc::new(GateMeta::default()),
        });
        let (log, rx) = BufferedRaftLog::<GateTc>::new(1, pcfg(), eng);
        let log = log.start(rx, None);
        GatedRun { gate, store, log }
    }
    fn wait_arrival(
        &self,
        timeout: Duration,
    ) -> Option<Call> {
        let st = self.gate.st.lock().unwrap();
        let (st, _) = self.gate.cv.wait_timeout_while(st, timeout, |s| s.pending.is_none()).unwrap();
        st.pending.clone()
    }
    /// let the pending call execute; wait until it finished
    fn release(&self) {
        let mut st = self.gate.st.lock().unwrap();
        let done0 = st.done;
        st.release = true;
        self.gate.cv.notify_all();
        let _ = self
            .gate
            .cv
            .wait_timeout_while(st, Duration::from_secs(10), |s| s.done == done0)
            .unwrap();
    }
    fn recovered(
        &self,
        power: bool,
        max_idx: u64,
    ) -> Vec<u64> {
        let img = Arc::new(GateEngine {
            l: Arc::new(self.store.image(power)),
            m: Arc::new(GateMeta::default()),
        });
        let (log, _rx) = BufferedRaftLog::<GateTc>::new(1, pcfg(), img);
        read_log(&log, max_idx)
    }
}

fn read_log<T: TypeConfig>(
    log: &BufferedRaftLog<T>,
    max_idx: u64,
) -> Vec<u64> {
    let mut v = vec![0u64; (max_idx + 2) as usize];
    if let Ok(es) = log.get_entries_range(0..=(max_idx + 1)) {
        for e in es {
            if (e.index as usize) < v.len() {
                v[e.index as usize] = if variant_of(&e) == Some(0) { e.term } else { 99 };
            }
        }
    }
    v
}

fn entries(es: &[It]) -> Vec<Entry> {
    es.iter().map(|x| mk_entry(x.i, x.t, 0)).collect()
}

type OpFut<'a> = std::pin::Pin<Box<dyn std::future::Future<Output = std::result::Result<(), String>> + 'a>>;

fn op_future<'a, T: TypeConfig>(
    log: &'a Arc<BufferedRaftLog<T>>,
    op: &'a Op,
) -> OpFut<'a> {
    Box::pin(async move {
        match op {
            Op::Append { es } => log.append_entries(entries(es)).await.map_err(|e| format!("{e:?}")),
            Op::Conflict { p, pt, es } => log
                .filter_out_conflicts_and_append(*p, *pt, entries(es))
                .await
                .map(|_| ())
                .map_err(|e| format!("{e:?}")),
            Op::Resetappend { es } => log
                .filter_out_conflicts_and_append(0, 0, entries(es))
                .await
                .map(|_| ())
                .map_err(|e| format!("{e:?}")),
            Op::Purge { i, t } => log
                .purge_logs_up_to(LogId {
                    index: *i,
                    term: *t,
                })
                .await
                .map_err(|e| format!("{e:?}")),
            Op::Flush { .. } => log.flush().await.map_err(|e| format!("{e:?}")),
            Op::Io { .. } => Ok(()),
        }
    })
}

fn same_call(
    a: &Call,
    b: &Call,
) -> bool {
    a.c == b.c && a.es == b.es && a.from == b.from && a.i == b.i && a.t == b.t
}

struct Stats {
    paths: AtomicU64,
    states: AtomicU64,
    crash_checks: AtomicU64,
    gate_calls: AtomicU64,
    nontrivial: AtomicU64,
}

/// Execute one operation sequence (edges from the initial state) in gated mode.
fn run_gated(
    g: &Graph,
    rt: &tokio::runtime::Runtime,
    path: &[&Edge],
    stats: &Stats,
    out: &mut Vec<Finding>,
) {
    let run = GatedRun::new();
    let m = g.max_idx;
    let n = (m + 2) as usize;
    let mut s = g.init;
    let mut rep = Reported {
        mem: vec![0; n],
        dur: 0,
        fl: false,
    };
    let mut repl: Vec<(u64, u64)> = vec![];
    let mut diverged = false;
    let durs: std::cell::RefCell<Vec<u64>> = std::cell::RefCell::new(vec![]);
    let ops_so_far = |k: usize| path[..=k].iter().map(|e| e.op.clone()).collect::<Vec<_>>();
    let finding = |kind: &str, monitor: &str, crash: &str, detail: String, k: usize, io_step: i64, inflight: bool, out: &mut Vec<Finding>| {
        out.push(Finding {
            kind: kind.into(),
            monitor: monitor.into(),
            crash: crash.into(),
            detail,
            path: ops_so_far(k),
            io_step,
            inflight,
            engine: "gated-memory".into(),
            durs: durs.borrow().clone(),
        });
    };
    for (k, e) in path.iter().enumerate() {
        let before = rep.clone();
        let reset_op = matches!(e.op, Op::Resetappend { .. });
        let mut fut = op_future(&run.log, &e.op);
        // start the call: runs until it has to wait for the IO task (or completes)
        let mut result: Option<std::result::Result<(), String>> =
            rt.block_on(async { tokio::time::timeout(Duration::from_millis(0), &mut fut).await.ok() });
        let mut st = e.to;
        let mut io_step: i64 = 0;
        // crash checks of a state (both crash kinds), without disturbing the run
        let crash_check = |st: usize, io_step: i64, inflight: bool, rep_now: &Reported, now_mem: &[u64], conform: bool, repl: &[(u64, u64)], out: &mut Vec<Finding>| {
            stats.states.fetch_add(1, Ordering::Relaxed);
            for power in [false, true] {
                stats.crash_checks.fetch_add(1, Ordering::Relaxed);
                let kind = if power { "power" } else { "process" };
                let rec = run.recovered(power, m);
                let exp = if power { &g.states[st].power } else { &g.states[st].process };
                let rec_ok = conform && rec[1..=(m as usize)] == exp.rec[..];
                if conform && !rec_ok {
                    finding("divergence", "RecoveredLog", kind, format!("expected {:?} got {:?}", exp.rec, &rec[1..=(m as usize)]), k, io_step, inflight, out);
                }
                let vs = check_monitors(&rec, rep_now, now_mem, inflight && reset_op, repl, !power);
                // cross-check with TLC's verdict for this state when everything observed conforms
                if rec_ok {
                    let got = (
                        !vs.iter().any(|x| x.0 == "GapFree"),
                        !vs.iter().any(|x| x.0 == "DurableKept"),
                        !vs.iter().any(|x| x.0 == "FlushKept"),
                        !vs.iter().any(|x| x.0 == "NoResurrection"),
                    );
                    let v = &exp.verdict;
                    if got != (v.gapfree, v.durable, v.flush, v.nores) {
                        finding("oracle-disagreement", "Verdict", kind, format!("tlc={v:?} harness={got:?}"), k, io_step, inflight, out);
                    }
                }
                for (mon, detail) in vs {
                    finding("violation", &mon, kind, detail, k, io_step, inflight, out);
                }
            }
        };
        // memory after the call's synchronous part
        let mem_now = read_log(&run.log, m);
        if !diverged && mem_now[1..=(m as usize)] != g.states[st].mem[..] {
            diverged = true;
            finding("divergence", "MemoryLog", "", format!("expected {:?} got {:?}", g.states[st].mem, &mem_now[1..=(m as usize)]), k, 0, true, out);
        }
        // the IO task's calls for this operation
        loop {
            let predicted = if diverged { None } else { Some(g.states[st].next.clone()) };
            let idle_expected = predicted.as_ref().map(|c| c.c == "idle").unwrap_or(false);
            let arrival = run.wait_arrival(if idle_expected || diverged { Duration::from_millis(if diverged { 30 } else { 8 }) } else { Duration::from_millis(4000) });
            match (arrival, predicted) {
                (None, Some(p)) if p.c == "idle" => break,
                (None, None) => break,
                (None, Some(p)) => {
                    diverged = true;
                    finding("divergence", "IoCall", "", format!("expected {p:?}, no call arrived"), k, io_step, true, out);
                    break;
                }
                (Some(c), p) => {
                    stats.gate_calls.fetch_add(1, Ordering::Relaxed);
                    if let Some(p) = &p {
                        if !same_call(&c, p) {
                            diverged = true;
                            finding("divergence", "IoCall", "", format!("expected {p:?} got {c:?}"), k, io_step, true, out);
                        }
                    }
                    // crash while this call has not been executed yet
                    if result.is_none() || !diverged {
                        crash_check(st, io_step, true, &before, &mem_now, !diverged, &repl, out);
                    }
                    run.release();
                    io_step += 1;
                    if !diverged {
                        st = g.io[st].expect("io edge");
                    }
                    // let the call complete if it can
                    if result.is_none() {
                        result = rt.block_on(async { tokio::time::timeout(Duration::from_millis(0), &mut fut).await.ok() });
                    }
                }
            }
        }
        // the call must have returned by now
        if result.is_none() {
            result = rt.block_on(async { tokio::time::timeout(Duration::from_secs(5), &mut fut).await.ok() });
        }
        drop(fut);
        let ok = matches!(result, Some(Ok(())));
        if !ok {
            finding("violation", "OperationResult", "", format!("{result:?}"), k, -1, false, out);
            break;
        }
        // settle: durable_index as predicted (the IO task publishes it right after the flush call)
        let t0 = Instant::now();
        let want = if diverged { None } else { Some(g.states[st].dur) };
        let mut d = run.log.durable_index();
        while let Some(w) = want {
            if d == w || t0.elapsed() > Duration::from_millis(3000) {
                break;
            }
            std::thread::sleep(Duration::from_micros(200));
            d = run.log.durable_index();
        }
        if diverged {
            std::thread::sleep(Duration::from_millis(20));
            d = run.log.durable_index();
        }
        if let Some(w) = want {
            if d != w {
                diverged = true;
                finding("divergence", "DurableIndex", "", format!("expected {w} got {d}"), k, -1, false, out);
            }
        }
        // operation boundary: what the log reports now
        let mem_after = read_log(&run.log, m);
        match &e.op {
            Op::Conflict { .. } | Op::Resetappend { .. } => {
                for i in 1..n {
                    if before.mem[i] != 0 && before.mem[i] != mem_after[i] && matches!(e.op, Op::Conflict { .. }) {
                        repl.push((i as u64, before.mem[i]));
                    }
                }
            }
            _ => {}
        }
        rep = Reported {
            mem: mem_after.clone(),
            dur: d,
            fl: matches!(e.op, Op::Flush { .. }),
        };
        durs.borrow_mut().push(d);
        if !diverged && g.states[st].fl != rep.fl {
            finding("divergence", "FlushFlag", "", format!("expected {} got {}", g.states[st].fl, rep.fl), k, -1, false, out);
        }
        crash_check(st, -1, false, &rep, &mem_after, !diverged, &repl, out);
        s = st;
    }
    let _ = s;
    stats.paths.fetch_add(1, Ordering::Relaxed);
    if path.iter().any(|e| matches!(e.op, Op::Conflict { .. } | Op::Purge { .. } | Op::Resetappend { .. })) {
        stats.nontrivial.fetch_add(1, Ordering::Relaxed);
    }
    {
        let mut st = run.gate.st.lock().unwrap();
        st.open = true;
        run.gate.cv.notify_all();
    }
    rt.block_on(async {
        let _ = tokio::time::timeout(Duration::from_secs(10), run.log.close()).await;
    });
}

// ---------------------------------------------------------------------------------------------
// File / RocksDB engines: free-running IO task, process crash by directory copy
// ---------------------------------------------------------------------------------------------
fn wait_quiet<T: TypeConfig>(log: &Arc<BufferedRaftLog<T>>) {
    // the IO task is quiescent when durable_index stops moving
    let mut last = log.durable_index();
    let mut stable = 0;
    for _ in 0..200 {
        std::thread::sleep(Duration::from_millis(2));
        let d = log.durable_index();
        if d == last {
            stable += 1;
            if stable >= 5 {
                return;
            }
        } else {
            stable = 0;
            last = d;
        }
    }
}

fn run_engine_generic<T: TypeConfig>(
    g: &Graph,
    rt: &tokio::runtime::Runtime,
    path: &[&Edge],
    engine: &str,
    dir: &Path,
    open: &dyn Fn(&Path) -> std::result::Result<Arc<T::SE>, String>,
    stats: &Stats,
    out: &mut Vec<Finding>,
) {
    let m = g.max_idx;
    let n = (m + 2) as usize;
    let _ = std::fs::remove_dir_all(dir);
    let live = dir.join("live");
    let copy = dir.join("copy");
    let se = match open(&live) {
        Ok(s) => s,
        Err(e) => {
            out.push(Finding { kind: "violation".into(), monitor: "Open".into(), crash: "".into(), detail: e, path: vec![], io_step: -1, inflight: false, engine: engine.into(), durs: vec![] });
            return;
        }
    };
    let (log, rx) = BufferedRaftLog::<T>::new(1, pcfg(), se.clone());
    let log = log.start(rx, None);
    let mut repl: Vec<(u64, u64)> = vec![];
    let mut rep = Reported { mem: vec![0; n], dur: 0, fl: false };
    let mut durs: Vec<u64> = vec![];
    for (k, e) in path.iter().enumerate() {
        let before = rep.clone();
        let mut fut = op_future(&log, &e.op);
        let result = rt.block_on(async { tokio::time::timeout(Duration::from_secs(20), &mut fut).await.ok() });
        drop(fut);
        let ops = path[..=k].iter().map(|x| x.op.clone()).collect::<Vec<_>>();
        if !matches!(result, Some(Ok(()))) {
            out.push(Finding { kind: "violation".into(), monitor: "OperationResult".into(), crash: "".into(), detail: format!("{result:?}"), path: ops, io_step: -1, inflight: false, engine: engine.into(), durs: durs.clone() });
            break;
        }
        // the spec state after this operation and all the IO task's calls for it
        let st = {
            let mut s = e.to;
            while let Some(nx) = g.io[s] {
                s = nx;
            }
            s
        };
        // quiescence: the IO task publishes durable_index last; wait for the predicted value
        let t0 = Instant::now();
        while log.durable_index() != g.states[st].dur && t0.elapsed() < Duration::from_secs(3) {
            std::thread::sleep(Duration::from_millis(1));
        }
        wait_quiet(&log);
        let mem_after = read_log(&log, m);
        if let Op::Conflict { .. } = &e.op {
            for i in 1..n {
                if before.mem[i] != 0 && before.mem[i] != mem_after[i] {
                    repl.push((i as u64, before.mem[i]));
                }
            }
        }
        rep = Reported { mem: mem_after.clone(), dur: log.durable_index(), fl: matches!(e.op, Op::Flush { .. }) };
        durs.push(rep.dur);
        if mem_after[1..=(m as usize)] != g.states[st].mem[..] || rep.dur != g.states[st].dur {
            out.push(Finding { kind: "divergence".into(), monitor: "Reported".into(), crash: "".into(),
                detail: format!("expected mem {:?} dur {} got mem {:?} dur {}", g.states[st].mem, g.states[st].dur, &mem_after[1..=(m as usize)], rep.dur),
                path: ops.clone(), io_step: -1, inflight: false, engine: engine.into(), durs: durs.clone() });
        }
        // process crash image: copy of the data directory now
        stats.states.fetch_add(1, Ordering::Relaxed);
        stats.crash_checks.fetch_add(1, Ordering::Relaxed);
        let _ = std::fs::remove_dir_all(&copy);
        if let Err(e2) = crate::logstore::copy_dir(&live, &copy) {
            out.push(Finding { kind: "divergence".into(), monitor: "Copy".into(), crash: "process".into(), detail: e2, path: ops, io_step: -1, inflight: false, engine: engine.into(), durs: durs.clone() });
            break;
        }
        match open(&copy) {
            Ok(se2) => {
                let (l2, _rx2) = BufferedRaftLog::<T>::new(1, pcfg(), se2);
                let rec = read_log(&l2, m);
                drop(l2);
                for (mon, detail) in check_monitors(&rec, &rep, &mem_after, false, &repl, true) {
                    out.push(Finding { kind: "violation".into(), monitor: mon, crash: "process".into(), detail, path: ops.clone(), io_step: -1, inflight: false, engine: engine.into(), durs: durs.clone() });
                }
            }
            Err(e2) => out.push(Finding { kind: "violation".into(), monitor: "Reopen".into(), crash: "process".into(), detail: e2, path: ops, io_step: -1, inflight: false, engine: engine.into(), durs: durs.clone() }),
        }
        let _ = std::fs::remove_dir_all(&copy);
    }
    stats.paths.fetch_add(1, Ordering::Relaxed);
    if path.iter().any(|e| matches!(e.op, Op::Conflict { .. } | Op::Purge { .. } | Op::Resetappend { .. })) {
        stats.nontrivial.fetch_add(1, Ordering::Relaxed);
    }
    rt.block_on(async {
        let _ = tokio::time::timeout(Duration::from_secs(10), log.close()).await;
    });
    drop(log);
    drop(se);
    let _ = std::fs::remove_dir_all(dir);
}

fn run_engine(
    g: &Graph,
    rt: &tokio::runtime::Runtime,
    path: &[&Edge],
    engine: &str,
    dir: &Path,
    stats: &Stats,
    out: &mut Vec<Finding>,
) {
    match engine {
        "file" => run_engine_generic::<FileTc>(g, rt, path, engine, dir,
            &|p: &Path| FileStorageEngine::new(p.to_path_buf()).map(Arc::new).map_err(|e| format!("{e:?}")), stats, out),
        "rocksdb" => run_engine_generic::<RocksTc>(g, rt, path, engine, dir,
            &|p: &Path| { std::fs::create_dir_all(p).ok(); RocksDBStorageEngine::new(p.join("db")).map(Arc::new).map_err(|e| format!("{e:?}")) }, stats, out),
        _ => {}
    }
}

// ---------------------------------------------------------------------------------------------
pub fn main(args: &[String]) -> i32 {
    let gpath = arg(args, "--graph").expect("--graph");
    let out = arg(args, "--out").expect("--out");
    let max_idx = arg_u64(args, "--max-idx", 4);
    let threads = arg_u64(args, "--threads", 4) as usize;
    let engine = arg(args, "--engine").unwrap_or_else(|| "gated".into());
    let sample = arg_u64(args, "--sample", 0); // engines: run only this many paths (seeded)
    let seed = arg_u64(args, "--seed", 1);
    let scratch = PathBuf::from(arg(args, "--scratch").unwrap_or_else(|| "/verif/.work/store-crashlog".into()));
    std::panic::set_hook(Box::new(|_| {}));
    let g = load_graph(&gpath, max_idx);

    // all maximal operation sequences
    let mut paths: Vec<Vec<(usize, usize)>> = vec![]; // (state, op edge index)
    fn rec(
        g: &Graph,
        s: usize,
        cur: &mut Vec<(usize, usize)>,
        paths: &mut Vec<Vec<(usize, usize)>>,
    ) {
        // follow io edges to the idle state
        let mut st = s;
        while let Some(nx) = g.io[st] {
            st = nx;
        }
        if g.ops[st].is_empty() {
            paths.push(cur.clone());
            return;
        }
        for (i, e) in g.ops[st].iter().enumerate() {
            cur.push((st, i));
            rec(g, e.to, cur, paths);
            cur.pop();
        }
    }
    if let Some(rp) = arg(args, "--replay") {
        let v: Value = serde_json::from_str(&std::fs::read_to_string(&rp).expect("replay")).unwrap();
        let ops: Vec<Op> = serde_json::from_value(v["path"].clone()).expect("path");
        let mut st = g.init;
        let mut p = vec![];
        let mut found = true;
        for o in &ops {
            while let Some(nx) = g.io[st] {
                st = nx;
            }
            let key = serde_json::to_string(o).unwrap();
            match g.ops[st].iter().position(|e| serde_json::to_string(&e.op).unwrap() == key) {
                Some(i) => {
                    p.push((st, i));
                    st = g.ops[st][i].to;
                }
                None => {
                    found = false;
                    break;
                }
            }
        }
        if !found {
            std::fs::write(&out, json!({"found": false, "findings": []}).to_string()).unwrap();
            return 0;
        }
        paths.push(p);
    } else {
        rec(&g, g.init, &mut vec![], &mut paths);
    }
    let total_paths = paths.len();
    if sample > 0 && (sample as usize) < paths.len() && arg(args, "--replay").is_none() {
        let mut rng = SplitMix(seed.wrapping_mul(0x51ED27));
        let mut chosen = vec![];
        for _ in 0..sample {
            chosen.push(paths.swap_remove(rng.below(paths.len())));
        }
        paths = chosen;
    }
    let stats = Stats {
        paths: AtomicU64::new(0),
        states: AtomicU64::new(0),
        crash_checks: AtomicU64::new(0),
        gate_calls: AtomicU64::new(0),
        nontrivial: AtomicU64::new(0),
    };
    let findings: Mutex<Vec<Finding>> = Mutex::new(vec![]);
    let dropped = AtomicU64::new(0);
    let retries = AtomicU64::new(0);
    let next = AtomicU64::new(0);
    std::thread::scope(|sc| {
        for th in 0..threads {
            let (g, paths, stats, findings, next, engine, scratch) = (&g, &paths, &stats, &findings, &next, &engine, &scratch);
            let dropped = &dropped;
            let retries = &retries;
            sc.spawn(move || {
                let rt = tokio::runtime::Builder::new_current_thread().enable_all().build().unwrap();
                loop {
                    let k = next.fetch_add(1, Ordering::SeqCst) as usize;
                    if k >= paths.len() {
                        break;
                    }
                    let p: Vec<&Edge> = paths[k].iter().map(|(s, i)| &g.ops[*s][*i]).collect();
                    let mut out = vec![];
                    if engine == "gated" {
                        // a divergence can be a scheduling race between the harness and the IO thread
                        // (e.g. a wake-up that is consumed later than expected): re-execute the
                        // sequence; only a divergence that persists is reported
                        for attempt in 0..3 {
                            out.clear();
                            run_gated(g, &rt, &p, stats, &mut out);
                            if !out.iter().any(|f| f.kind == "divergence") {
                                break;
                            }
                            if attempt < 2 {
                                retries.fetch_add(1, Ordering::Relaxed);
                                stats.paths.fetch_sub(1, Ordering::Relaxed);
                                if p.iter().any(|e| matches!(e.op, Op::Conflict { .. } | Op::Purge { .. } | Op::Resetappend { .. })) {
                                    stats.nontrivial.fetch_sub(1, Ordering::Relaxed);
                                }
                            }
                        }
                    } else {
                        run_engine(g, &rt, &p, engine, &scratch.join(format!("{engine}-t{th}")), stats, &mut out);
                    }
                    if !out.is_empty() {
                        let mut f = findings.lock().unwrap();
                        if f.len() < 2_000_000 {
                            f.extend(out);
                        } else {
                            dropped.fetch_add(out.len() as u64, Ordering::Relaxed);
                        }
                    }
                }
            });
        }
    });
    let samples: Vec<Value> = paths.iter().take(3).map(|p| json!(p.iter().map(|(s, i)| g.ops[*s][*i].op.clone()).collect::<Vec<_>>())).collect();
    let res = json!({
        "found": true,
        "engine": engine,
        "graph_states": g.states.len(),
        "graph_edges": g.n_edges,
        "total_paths": total_paths,
        "paths": stats.paths.load(Ordering::Relaxed),
        "states_visited": stats.states.load(Ordering::Relaxed),
        "crash_checks": stats.crash_checks.load(Ordering::Relaxed),
        "gate_calls": stats.gate_calls.load(Ordering::Relaxed),
        "nontrivial": stats.nontrivial.load(Ordering::Relaxed),
        "findings_dropped": dropped.load(Ordering::Relaxed),
        "retries_after_divergence": retries.load(Ordering::Relaxed),
        "samples": samples,
        "findings": *findings.lock().unwrap(),
    });
    std::fs::write(&out, serde_json::to_string(&res).unwrap()).unwrap();
    0
}
