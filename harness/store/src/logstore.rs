//! C20: walk the state graph of spec/LogStore.tla (reference store, emitted by TLC) on the real
//! FileLogStore and RocksDBLogStore: seeded random walks and all short paths; after every
//! operation every query of the live store is compared with the spec state; at chosen steps the
//! data directory is copied as a killed process would leave it and a fresh instance opened on the
//! copy must answer like the spec state as well; at the end of a walk the store is dropped
//! gracefully and reopened in place.
use std::collections::{HashMap, HashSet};
use std::panic::AssertUnwindSafe;
use std::path::{Path, PathBuf};
use std::sync::atomic::{AtomicU64, Ordering};
use std::sync::{Arc, Mutex};

use d_engine_core::{LogStore, StorageEngine};
use d_engine_proto::common::{Entry, LogId};
use d_engine_server::RocksDBStorageEngine;
use d_engine_server::storage::FileLogStore;
use futures::FutureExt;
use serde::{Deserialize, Serialize};
use serde_json::{Value, json};

use crate::util::*;

#[derive(Deserialize, Serialize, Clone, Debug, PartialEq)]
pub struct Ev {
    pub i: u64,
    pub v: u64,
}
#[derive(Deserialize, Serialize, Clone, Debug, PartialEq)]
pub struct Lid {
    pub i: u64,
    pub t: u64,
}

#[derive(Deserialize)]
pub struct Obs {
    last: u64,
    pb: Lid,
    entry: Vec<u64>,
    range: Vec<Vec<Vec<Ev>>>,
}

#[derive(Deserialize, Serialize, Clone, Debug)]
#[serde(tag = "k", rename_all = "lowercase")]
pub enum Op {
    Persist { es: Vec<Ev> },
    Truncate { from: u64 },
    Replace { from: u64, es: Vec<Ev> },
    Purge { i: u64, t: u64 },
    Reset,
    Flush,
}

impl Op {
    fn kind(&self) -> usize {
        match self {
            Op::Persist { .. } => 0,
            Op::Truncate { .. } => 1,
            Op::Replace { .. } => 2,
            Op::Purge { .. } => 3,
            Op::Reset => 4,
            Op::Flush => 5,
        }
    }
}

#[derive(Deserialize)]
struct StateJ {
    k: Value,
    obs: Obs,
}
#[derive(Deserialize)]
struct EdgeJ {
    f: Value,
    t: Value,
    op: Op,
}

pub struct Edge {
    to: usize,
    op: Op,
    opkey: Vec<u8>,
}

pub struct Graph {
    max_idx: u64,
    states: Vec<Obs>,
    init: usize,
    out: Vec<Vec<Edge>>,
    /// per state: edge indexes grouped by operation kind
    by_kind: Vec<Vec<Vec<usize>>>,
    n_edges: usize,
}

fn load_graph(
    path: &str,
    max_idx: u64,
) -> Graph {
    use std::io::BufRead;
    let f = std::io::BufReader::new(std::fs::File::open(path).expect("open graph"));
    let mut ids: HashMap<String, usize> = HashMap::new();
    let mut keys = vec![];
    let mut states = vec![];
    let mut edges: Vec<EdgeJ> = vec![];
    for line in f.lines() {
        let line = line.expect("read");
        if let Some(r) = line.strip_prefix("S ") {
            let s: StateJ = serde_json::from_str(r).expect("state json");
            ids.insert(s.k.to_string(), states.len());
            keys.push(s.k);
            states.push(s.obs);
        } else if let Some(r) = line.strip_prefix("E ") {
            edges.push(serde_json::from_str(r).expect("edge json"));
        }
    }
    let n = states.len();
    let mut out: Vec<Vec<Edge>> = (0..n).map(|_| vec![]).collect();
    let n_edges = edges.len();
    for e in edges {
        let fi = ids[&e.f.to_string()];
        let ti = ids[&e.t.to_string()];
        let opkey = serde_json::to_vec(&e.op).unwrap();
        out[fi].push(Edge {
            to: ti,
            op: e.op,
            opkey,
        });
    }
    for v in out.iter_mut() {
        v.sort_by(|a, b| a.opkey.cmp(&b.opkey));
    }
    let by_kind = out
        .iter()
        .map(|v| {
            let mut g: Vec<Vec<usize>> = (0..6).map(|_| vec![]).collect();
            for (i, e) in v.iter().enumerate() {
                g[e.op.kind()].push(i);
            }
            g
        })
        .collect();
    let init = keys
        .iter()
        .position(|k| {
            k[0].as_array().unwrap().iter().all(|x| x == &json!(0)) && k[1] == json!([0, 0])
        })
        .expect("init state");
    Graph {
        max_idx,
        states,
        init,
        out,
        by_kind,
        n_edges,
    }
}

#[derive(Serialize, Clone, Debug)]
pub struct Mismatch {
    q: String,
    arg: String,
    exp: String,
    got: String,
}

fn entries_of(es: &[Ev]) -> Vec<Entry> {
    es.iter().map(|e| mk_entry(e.i, e.v, 0)).collect()
}

fn show_entry(
    e: &Entry,
    want_index: Option<u64>,
) -> String {
    if variant_of(e) != Some(0) || want_index.map(|i| i != e.index).unwrap_or(false) {
        format!("corrupt({}:{})", e.index, e.term)
    } else {
        e.term.to_string()
    }
}

/// One real store under test (File or RocksDB), opened on `dir`.
pub struct Sut {
    engine: String,
    dir: PathBuf,
    store: Option<Arc<dyn LogStore>>,
    /// keeps the RocksDB engine (log + meta store share the DB) alive
    rocks: Option<RocksDBStorageEngine>,
}

impl Sut {
    pub fn open(
        engine: &str,
        dir: &Path,
    ) -> Result<Sut, String> {
        std::fs::create_dir_all(dir).map_err(|e| e.to_string())?;
        match engine {
            "file" => {
                let s = FileLogStore::new(dir.join("logs")).map_err(|e| format!("{e:?}"))?;
                Ok(Sut {
                    engine: engine.into(),
                    dir: dir.into(),
                    store: Some(Arc::new(s)),
                    rocks: None,
                })
            }
            "rocksdb" => {
                let eng = RocksDBStorageEngine::new(dir.join("db")).map_err(|e| format!("{e:?}"))?;
                let s: Arc<dyn LogStore> = eng.log_store();
                Ok(Sut {
                    engine: engine.into(),
                    dir: dir.into(),
                    store: Some(s),
                    rocks: Some(eng),
                })
            }
            _ => Err("unknown engine".into()),
        }
    }

    fn s(&self) -> &Arc<dyn LogStore> {
        self.store.as_ref().unwrap()
    }

    pub async fn apply(
        &self,
        op: &Op,
    ) -> Result<(), String> {
        let s = self.s().clone();
        let fut = async move {
            match op {
                Op::Persist { es } => s.persist_entries(entries_of(es)).await,
                Op::Truncate { from } => s.truncate(*from).await,
                Op::Replace { from, es } => s.replace_range(*from, entries_of(es)).await,
                Op::Purge { i, t } => {
                    s.purge(LogId {
                        index: *i,
                        term: *t,
                    })
                    .await
                }
                Op::Reset => s.reset().await,
                Op::Flush => s.flush(),
            }
        };
        match AssertUnwindSafe(fut).catch_unwind().await {
            Err(p) => Err(format!("panic: {}", crate::buflog::panic_text(&p))),
            Ok(Err(e)) => Err(format!("Err({e:?})")),
            Ok(Ok(())) => Ok(()),
        }
    }

    /// Ask every query and compare with the expectation of the spec state.
    pub async fn compare(
        &self,
        g: &Graph,
        o: &Obs,
    ) -> Vec<Mismatch> {
        let s = self.s().clone();
        let mut v = vec![];
        let push = |v: &mut Vec<Mismatch>, q: &str, arg: String, exp: String, got: String| {
            if exp != got {
                v.push(Mismatch {
                    q: q.into(),
                    arg,
                    exp,
                    got,
                });
            }
        };
        let fut = async {
            let mut v = vec![];
            push(&mut v, "last_index", "".into(), o.last.to_string(), s.last_index().to_string());
            let pb = match s.load_purge_boundary() {
                Ok(Some(l)) => format!("{:?}", (l.index, l.term)),
                Ok(None) => "(0, 0)".into(),
                Err(e) => format!("Err({e:?})"),
            };
            push(&mut v, "load_purge_boundary", "".into(), format!("{:?}", (o.pb.i, o.pb.t)), pb);
            for i in 0..=(g.max_idx + 1) {
                let got = match s.entry(i).await {
                    Ok(Some(e)) => show_entry(&e, Some(i)),
                    Ok(None) => "0".into(),
                    Err(e) => format!("Err({e:?})"),
                };
                push(&mut v, "entry", i.to_string(), o.entry[i as usize].to_string(), got);
            }
            for a in 0..=(g.max_idx + 1) {
                for b in a..=(g.max_idx + 1) {
                    let exp: Vec<(u64, String)> = o.range[a as usize][b as usize]
                        .iter()
                        .map(|e| (e.i, e.v.to_string()))
                        .collect();
                    let got = match s.get_entries(a..=b) {
                        Ok(es) => format!(
                            "{:?}",
                            es.iter().map(|e| (e.index, show_entry(e, None))).collect::<Vec<_>>()
                        ),
                        Err(e) => format!("Err({e:?})"),
                    };
                    push(&mut v, "get_entries", format!("{a}..={b}"), format!("{exp:?}"), got);
                }
            }
            v
        };
        match AssertUnwindSafe(fut).catch_unwind().await {
            Ok(x) => v = x,
            Err(p) => v.push(Mismatch {
                q: "query".into(),
                arg: "".into(),
                exp: "answer".into(),
                got: format!("panic: {}", crate::buflog::panic_text(&p)),
            }),
        }
        v
    }

    /// Copy of the data directory as a killed process leaves it (everything written to the file
    /// system survives, nothing else happens), opened by a fresh instance.
    pub async fn crash_copy_compare(
        &self,
        g: &Graph,
        o: &Obs,
        scratch: &Path,
    ) -> Vec<Mismatch> {
        let _ = std::fs::remove_dir_all(scratch);
        if let Err(e) = copy_dir(&self.dir, scratch) {
            return vec![Mismatch {
                q: "copy".into(),
                arg: "".into(),
                exp: "ok".into(),
                got: e,
            }];
        }
        let r = match Sut::open(&self.engine, scratch) {
            Ok(s2) => {
                let m = s2.compare(g, o).await;
                s2.close();
                m
            }
            Err(e) => vec![Mismatch {
                q: "open".into(),
                arg: "".into(),
                exp: "ok".into(),
                got: e,
            }],
        };
        let _ = std::fs::remove_dir_all(scratch);
        r
    }

    pub fn close(mut self) {
        self.store.take();
        self.rocks.take();
    }
}

pub fn copy_dir(
    from: &Path,
    to: &Path,
) -> Result<(), String> {
    std::fs::create_dir_all(to).map_err(|e| e.to_string())?;
    for ent in std::fs::read_dir(from).map_err(|e| e.to_string())? {
        let ent = ent.map_err(|e| e.to_string())?;
        let p = ent.path();
        let name = ent.file_name();
        if p.is_dir() {
            copy_dir(&p, &to.join(&name))?;
        } else if name != "LOCK" {
            std::fs::copy(&p, to.join(&name)).map_err(|e| e.to_string())?;
        }
    }
    Ok(())
}

#[derive(Serialize, Clone)]
pub struct Failure {
    engine: String,
    /// live | reopen-crash | reopen-graceful | apply
    phase: String,
    path: Vec<Op>,
    step: usize,
    mismatches: Vec<Mismatch>,
    /// expected contents (spec states) after each step of `path`: entry[i] per index 0..=max+1
    exp_content: Vec<Vec<u64>>,
}

fn is_content(m: &Mismatch) -> bool {
    m.q == "entry" || m.q == "get_entries" || m.q == "query" || m.q == "open" || m.q == "copy"
}

/// Execute a path on a fresh store of `engine`. Live comparison after every step; crash-copy
/// reopen comparison at the steps in `reopen_at` (None = every step); graceful reopen at the end.
/// Stops at the first step whose live content differs (later expectations are void).
async fn execute(
    g: &Graph,
    engine: &str,
    path: &[&Edge],
    reopen_at: Option<&HashSet<usize>>,
    dir: &Path,
) -> Vec<Failure> {
    let mut fails = vec![];
    let _ = std::fs::remove_dir_all(dir);
    let live = dir.join("live");
    let copy = dir.join("copy");
    let sut = match Sut::open(engine, &live) {
        Ok(s) => s,
        Err(e) => {
            fails.push(Failure {
                engine: engine.into(),
                phase: "apply".into(),
                path: vec![],
                step: 0,
                mismatches: vec![Mismatch {
                    q: "open".into(),
                    arg: "".into(),
                    exp: "ok".into(),
                    got: e,
                }],
                exp_content: vec![],
            });
            return fails;
        }
    };
    let mut last_state = g.init;
    let mut steps_done = 0;
    for (k, e) in path.iter().enumerate() {
        let ops = || path[..=k].iter().map(|x| x.op.clone()).collect::<Vec<_>>();
        let expc = || path[..=k].iter().map(|x| g.states[x.to].entry.clone()).collect::<Vec<_>>();
        if let Err(err) = sut.apply(&e.op).await {
            fails.push(Failure {
                engine: engine.into(),
                phase: "apply".into(),
                path: ops(),
                step: k,
                mismatches: vec![Mismatch {
                    q: "result".into(),
                    arg: "".into(),
                    exp: "Ok".into(),
                    got: err,
                }],
                exp_content: expc(),
            });
            break;
        }
        last_state = e.to;
        steps_done = k + 1;
        let o = &g.states[e.to];
        let ms = sut.compare(g, o).await;
        let stop = ms.iter().any(is_content);
        if !ms.is_empty() {
            fails.push(Failure {
                engine: engine.into(),
                phase: "live".into(),
                path: ops(),
                step: k,
                mismatches: ms,
                exp_content: expc(),
            });
        }
        if stop {
            break;
        }
        if reopen_at.map(|s| s.contains(&k)).unwrap_or(true) {
            let ms = sut.crash_copy_compare(g, o, &copy).await;
            if !ms.is_empty() {
                fails.push(Failure {
                    engine: engine.into(),
                    phase: "reopen-crash".into(),
                    path: ops(),
                    step: k,
                    mismatches: ms,
                    exp_content: expc(),
                });
            }
        }
    }
    // graceful drop, reopen in place (only meaningful if the live content never diverged)
    let diverged = fails.iter().any(|f| f.phase == "apply" || (f.phase == "live" && f.mismatches.iter().any(is_content)));
    sut.close();
    if !diverged && steps_done > 0 {
        match Sut::open(engine, &live) {
            Ok(s2) => {
                let ms = s2.compare(g, &g.states[last_state]).await;
                if !ms.is_empty() {
                    fails.push(Failure {
                        engine: engine.into(),
                        phase: "reopen-graceful".into(),
                        path: path[..steps_done].iter().map(|x| x.op.clone()).collect(),
                        step: steps_done - 1,
                        mismatches: ms,
                        exp_content: path[..steps_done].iter().map(|x| g.states[x.to].entry.clone()).collect(),
                    });
                }
                s2.close();
            }
            Err(e) => fails.push(Failure {
                engine: engine.into(),
                phase: "reopen-graceful".into(),
                path: path[..steps_done].iter().map(|x| x.op.clone()).collect(),
                step: steps_done - 1,
                mismatches: vec![Mismatch {
                    q: "open".into(),
                    arg: "".into(),
                    exp: "ok".into(),
                    got: e,
                }],
                exp_content: path[..steps_done].iter().map(|x| g.states[x.to].entry.clone()).collect(),
            }),
        }
    }
    let _ = std::fs::remove_dir_all(dir);
    fails
}

fn sig(f: &Failure) -> String {
    let mut qs: Vec<&str> = f.mismatches.iter().map(|m| m.q.as_str()).collect();
    qs.sort();
    qs.dedup();
    format!("{}/{}/{}", f.engine, f.phase, qs.join("+"))
}

/// Follow `ops` from the initial state; None if it is not a path of the graph.
fn path_of<'a>(
    g: &'a Graph,
    ops: &[Op],
) -> Option<Vec<&'a Edge>> {
    let mut s = g.init;
    let mut p = vec![];
    for o in ops {
        let k = serde_json::to_vec(o).unwrap();
        let e = g.out[s].iter().find(|e| e.opkey == k)?;
        p.push(e);
        s = e.to;
    }
    Some(p)
}

/// `logstore script`: run an operation list on a fresh store with a "DVMARK begin/end k" line on stderr
/// around every call (for strace); `logstore load`: dump what a fresh store sees in each directory.
fn script_or_load(args: &[String]) -> Option<i32> {
    use std::io::Write;
    let sub = args.get(2).map(|s| s.as_str()).unwrap_or("");
    let engine = arg(args, "--engine").unwrap_or_else(|| "file".into());
    match sub {
        "script" => {
            let dir = PathBuf::from(arg(args, "--dir").expect("--dir"));
            let ops: Vec<Op> = serde_json::from_str(&arg(args, "--ops").expect("--ops")).expect("ops json");
            let rt = tokio::runtime::Builder::new_current_thread().enable_all().build().unwrap();
            let sut = match Sut::open(&engine, &dir) {
                Ok(s) => s,
                Err(e) => {
                    eprintln!("open failed: {e}");
                    return Some(2);
                }
            };
            for (k, op) in ops.iter().enumerate() {
                let _ = std::io::stderr().write_all(format!("DVMARK begin {}\n", k + 1).as_bytes());
                let r = rt.block_on(sut.apply(op));
                let _ = std::io::stderr().write_all(format!("DVMARK end {}\n", k + 1).as_bytes());
                if let Err(e) = r {
                    eprintln!("op {k} failed: {e}");
                    return Some(2);
                }
            }
            // a killed process runs no destructors
            std::process::exit(0);
        }
        "load" => {
            let max_idx = arg_u64(args, "--max-idx", 3);
            let list = std::fs::read_to_string(arg(args, "--list").expect("--list")).expect("list");
            let out = arg(args, "--out").expect("--out");
            let rt = tokio::runtime::Builder::new_current_thread().enable_all().build().unwrap();
            let mut w = std::io::BufWriter::new(std::fs::File::create(out).expect("out"));
            for d in list.lines().filter(|l| !l.trim().is_empty()) {
                let v = match Sut::open(&engine, Path::new(d)) {
                    Err(e) => json!({"dir": d, "err": e}),
                    Ok(s) => {
                        let st = s.s().clone();
                        let mut entry: Vec<String> = vec![];
                        for i in 0..=(max_idx + 1) {
                            entry.push(match rt.block_on(st.entry(i)) {
                                Ok(Some(e)) => show_entry(&e, Some(i)),
                                Ok(None) => "0".into(),
                                Err(e) => format!("Err({e:?})"),
                            });
                        }
                        let all = match st.get_entries(0..=u64::MAX) {
                            Ok(es) => es.iter().map(|e| json!([e.index, show_entry(e, None)])).collect::<Vec<_>>(),
                            Err(_) => vec![],
                        };
                        let r = json!({"dir": d, "err": null, "last": st.last_index(), "entry": entry, "all": all});
                        s.close();
                        r
                    }
                };
                serde_json::to_writer(&mut w, &v).unwrap();
                w.write_all(b"\n").unwrap();
            }
            w.flush().unwrap();
            Some(0)
        }
        _ => None,
    }
}

pub fn main(args: &[String]) -> i32 {
    if let Some(rc) = script_or_load(args) {
        return rc;
    }
    let gpath = arg(args, "--graph").expect("--graph");
    let out = arg(args, "--out").expect("--out");
    let max_idx = arg_u64(args, "--max-idx", 3);
    let walks = arg_u64(args, "--walks", 100);
    let wlen = arg_u64(args, "--len", 30) as usize;
    let seed = arg_u64(args, "--seed", 1);
    let threads = arg_u64(args, "--threads", 4) as usize;
    let dfs_depth = arg_u64(args, "--dfs-depth", 2) as usize;
    // RocksDB opens are expensive: its exhaustive part may be shallower
    let dfs_depth_rocksdb = arg_u64(args, "--dfs-depth-rocksdb", dfs_depth as u64) as usize;
    let reopen_pct = arg_u64(args, "--reopen-pct", 25);
    let scratch = PathBuf::from(arg(args, "--scratch").expect("--scratch"));
    let engines: Vec<String> =
        arg(args, "--engines").unwrap_or_else(|| "file,rocksdb".into()).split(',').map(|s| s.to_string()).collect();
    std::panic::set_hook(Box::new(|_| {}));
    let g = load_graph(&gpath, max_idx);

    if let Some(rp) = arg(args, "--replay") {
        let v: Value = serde_json::from_str(&std::fs::read_to_string(&rp).expect("replay")).unwrap();
        let ops: Vec<Op> = serde_json::from_value(v["path"].clone()).expect("path");
        let engine = v["engine_under_test"].as_str().unwrap_or("file").to_string();
        let rt = tokio::runtime::Builder::new_current_thread().enable_all().build().unwrap();
        let res = match path_of(&g, &ops) {
            Some(p) => {
                let f = rt.block_on(execute(&g, &engine, &p, None, &scratch.join("replay")));
                json!({"found": true, "fails": f})
            }
            None => json!({"found": false, "fails": []}),
        };
        std::fs::write(&out, serde_json::to_string(&res).unwrap()).unwrap();
        return 0;
    }

    // work list: (engine, kind, number)
    #[derive(Clone)]
    enum Item {
        Walk(String, u64),
        Dfs(String, Vec<usize>),
    }
    let mut items = vec![];
    for en in &engines {
        // all paths of length <= dfs_depth: work item per first edge
        if (if en == "rocksdb" { dfs_depth_rocksdb } else { dfs_depth }) >= 1 {
            for k in 0..g.out[g.init].len() {
                items.push(Item::Dfs(en.clone(), vec![k]));
            }
        }
        for w in 0..walks {
            items.push(Item::Walk(en.clone(), w));
        }
    }
    let next = AtomicU64::new(0);
    let fails: Mutex<Vec<Failure>> = Mutex::new(vec![]);
    let counts: Mutex<HashMap<String, u64>> = Mutex::new(HashMap::new());
    let shrunk: Mutex<HashSet<String>> = Mutex::new(HashSet::new());
    let runs = AtomicU64::new(0);
    let pb_only_count = AtomicU64::new(0);
    let dropped = AtomicU64::new(0);
    let steps = AtomicU64::new(0);
    let reopens = AtomicU64::new(0);
    let covered: Mutex<HashSet<(usize, usize)>> = Mutex::new(HashSet::new());
    let distinct: Mutex<HashSet<u64>> = Mutex::new(HashSet::new());
    let samples: Mutex<Vec<Value>> = Mutex::new(vec![]);
    std::thread::scope(|sc| {
        for th in 0..threads {
            let (g, items, next, fails, counts, shrunk, runs, steps, reopens, covered, distinct, samples, scratch) = (
                &g, &items, &next, &fails, &counts, &shrunk, &runs, &steps, &reopens, &covered, &distinct, &samples, &scratch,
            );
            let (pb_only_count, dropped) = (&pb_only_count, &dropped);
            sc.spawn(move || {
                let rt = tokio::runtime::Builder::new_current_thread().enable_all().build().unwrap();
                let dir = scratch.join(format!("t{th}"));
                let record = |fs: Vec<Failure>, path: &[&Edge], engine: &str| {
                    for f in fs {
                        let s = sig(&f);
                        *counts.lock().unwrap().entry(s.clone()).or_insert(0) += 1;
                        // first time this signature shows up: look for a short reproduction
                        let first = shrunk.lock().unwrap().insert(s.clone());
                        let mut best = f.clone();
                        if first && f.step + 1 > 2 {
                            for n in 1..=4usize.min(f.step + 1) {
                                let ops: Vec<Op> =
                                    path[f.step + 1 - n..=f.step].iter().map(|e| e.op.clone()).collect();
                                if let Some(p2) = path_of(g, &ops) {
                                    let f2 = rt.block_on(execute(g, engine, &p2, None, &dir));
                                    if let Some(x) = f2.into_iter().find(|x| sig(x) == s) {
                                        best = x;
                                        break;
                                    }
                                }
                            }
                        }
                        // The File store has no purge boundary at all: observations that differ from the
                        // spec state ONLY in load_purge_boundary() = None are counted, 200 are kept in full.
                        let pb_only = best.engine == "file"
                            && best.mismatches.iter().all(|m| m.q == "load_purge_boundary" && m.got == "(0, 0)");
                        if pb_only {
                            let n = pb_only_count.fetch_add(1, Ordering::Relaxed);
                            if n >= 200 {
                                continue;
                            }
                        }
                        let mut fl = fails.lock().unwrap();
                        if fl.len() < 1_000_000 {
                            fl.push(best);
                        } else {
                            dropped.fetch_add(1, Ordering::Relaxed);
                        }
                    }
                };
                loop {
                    let k = next.fetch_add(1, Ordering::SeqCst) as usize;
                    if k >= items.len() {
                        break;
                    }
                    match &items[k] {
                        Item::Walk(engine, w) => {
                            let mut rng = SplitMix(seed.wrapping_mul(0x9E3779B1).wrapping_add(*w));
                            let mut s = g.init;
                            let mut path: Vec<&Edge> = vec![];
                            let mut reopen_at = HashSet::new();
                            for i in 0..wlen {
                                // operation kind first (persist and replace weigh more), then uniform
                                let kinds: Vec<usize> = [0, 0, 0, 1, 2, 2, 3, 4, 5]
                                    .iter()
                                    .copied()
                                    .filter(|k| !g.by_kind[s][*k].is_empty())
                                    .collect();
                                let kind = kinds[rng.below(kinds.len())];
                                // odd walks are those of a log-structured user (what BufferedRaftLog does): appends at the
                                // tail in index order, replace_range with an ascending batch starting at `from`, truncations
                                // inside the log; even walks take any edge of the graph
                                let last = g.states[s].last;
                                let in_order = |op: &Op| match op {
                                    Op::Persist { es } => es.iter().enumerate().all(|(j, e)| e.i == last + 1 + j as u64),
                                    Op::Replace { from, es } => {
                                        *from <= last + 1 && es.iter().enumerate().all(|(j, e)| e.i == *from + j as u64)
                                    }
                                    Op::Truncate { from } => *from <= last + 1,
                                    _ => true,
                                };
                                let all = &g.by_kind[s][kind];
                                let mut filtered: Vec<usize> = vec![];
                                if *w % 2 == 1 {
                                    filtered = all.iter().copied().filter(|ei| in_order(&g.out[s][*ei].op)).collect();
                                    if filtered.is_empty() {
                                        // this kind has no in-order edge here (log full): take any in-order edge
                                        filtered = (0..g.out[s].len()).filter(|ei| in_order(&g.out[s][*ei].op)).collect();
                                    }
                                }
                                let v: &Vec<usize> = if filtered.is_empty() { all } else { &filtered };
                                let ei = v[rng.below(v.len())];
                                let e = &g.out[s][ei];
                                covered.lock().unwrap().insert((s, ei));
                                path.push(e);
                                s = e.to;
                                if (rng.below(100) as u64) < reopen_pct {
                                    reopen_at.insert(i);
                                }
                            }
                            reopen_at.insert(wlen - 1);
                            runs.fetch_add(1, Ordering::Relaxed);
                            steps.fetch_add(path.len() as u64, Ordering::Relaxed);
                            reopens.fetch_add(reopen_at.len() as u64 + 1, Ordering::Relaxed);
                            let mut h = 0xcbf29ce484222325u64;
                            for e in &path {
                                h = fnv(h, &e.opkey);
                            }
                            distinct.lock().unwrap().insert(h);
                            {
                                let mut sm = samples.lock().unwrap();
                                if sm.len() < 2 {
                                    sm.push(json!({"engine": engine, "walk": path.iter().take(12).map(|e| e.op.clone()).collect::<Vec<_>>()}));
                                }
                            }
                            let f = rt.block_on(execute(g, engine, &path, Some(&reopen_at), &dir));
                            record(f, &path, engine);
                        }
                        Item::Dfs(engine, first) => {
                            // every path of length <= dfs_depth below this first edge, reopen at every step
                            fn rec<'a>(
                                g: &'a Graph,
                                s: usize,
                                path: &mut Vec<&'a Edge>,
                                depth: usize,
                                f: &mut dyn FnMut(&[&'a Edge]),
                            ) {
                                if path.len() >= depth {
                                    f(path);
                                    return;
                                }
                                for e in &g.out[s] {
                                    path.push(e);
                                    rec(g, e.to, path, depth, f);
                                    path.pop();
                                }
                            }
                            let e0 = &g.out[g.init][first[0]];
                            let mut path = vec![e0];
                            let mut run = |p: &[&Edge]| {
                                runs.fetch_add(1, Ordering::Relaxed);
                                steps.fetch_add(p.len() as u64, Ordering::Relaxed);
                                reopens.fetch_add(p.len() as u64 + 1, Ordering::Relaxed);
                                let mut h = 0xcbf29ce484222325u64;
                                for e in p {
                                    h = fnv(h, &e.opkey);
                                }
                                distinct.lock().unwrap().insert(h);
                                let f = rt.block_on(execute(g, engine, p, None, &dir));
                                record(f, p, engine);
                            };
                            rec(g, e0.to, &mut path, if engine == "rocksdb" { dfs_depth_rocksdb } else { dfs_depth }, &mut run);
                        }
                    }
                }
            });
        }
    });
    let res = json!({
        "graph_states": g.states.len(),
        "graph_edges": g.n_edges,
        "runs": runs.load(Ordering::Relaxed),
        "steps": steps.load(Ordering::Relaxed),
        "reopens": reopens.load(Ordering::Relaxed),
        "edges_covered_by_walks": covered.lock().unwrap().len(),
        "distinct_sequences": distinct.lock().unwrap().len(),
        "dfs_depth": dfs_depth,
        "signature_counts": *counts.lock().unwrap(),
        "file_purge_boundary_only_observations": pb_only_count.load(Ordering::Relaxed),
        "fails_dropped": dropped.load(Ordering::Relaxed),
        "samples": *samples.lock().unwrap(),
        "fails": *fails.lock().unwrap(),
    });
    std::fs::write(&out, serde_json::to_string(&res).unwrap()).unwrap();
    0
}
