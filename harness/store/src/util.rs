use bytes::Bytes;
use d_engine_proto::common::{Entry, EntryPayload};

pub fn arg(
    args: &[String],
    name: &str,
) -> Option<String> {
    args.iter().position(|a| a == name).and_then(|i| args.get(i + 1).cloned())
}

pub fn arg_u64(
    args: &[String],
    name: &str,
    default: u64,
) -> u64 {
    arg(args, name).and_then(|s| s.parse().ok()).unwrap_or(default)
}

/// Payload of the entry (index, term[, variant]). In Raft an entry is identified by
/// (index, term); `v` distinguishes re-written contents where the contract under test allows
/// them (store contract, C20).
pub fn payload(
    i: u64,
    t: u64,
    v: u64,
) -> Bytes {
    Bytes::from(format!("e{i}.{t}.{v}"))
}

pub fn mk_entry(
    i: u64,
    t: u64,
    v: u64,
) -> Entry {
    Entry {
        index: i,
        term: t,
        payload: Some(EntryPayload::command(payload(i, t, v))),
    }
}

/// variant number of an entry built by `mk_entry`; None if the payload is not one of ours
pub fn variant_of(e: &Entry) -> Option<u64> {
    use d_engine_proto::common::entry_payload::Payload;
    match e.payload.as_ref().and_then(|p| p.payload.as_ref()) {
        Some(Payload::Command(b)) => {
            let s = std::str::from_utf8(b).ok()?;
            let s = s.strip_prefix('e')?;
            let mut it = s.split('.');
            let i: u64 = it.next()?.parse().ok()?;
            let t: u64 = it.next()?.parse().ok()?;
            let v: u64 = it.next()?.parse().ok()?;
            if i == e.index && t == e.term { Some(v) } else { None }
        }
        _ => None,
    }
}

pub struct SplitMix(pub u64);
impl SplitMix {
    pub fn next(&mut self) -> u64 {
        self.0 = self.0.wrapping_add(0x9E3779B97F4A7C15);
        let mut z = self.0;
        z = (z ^ (z >> 30)).wrapping_mul(0xBF58476D1CE4E5B9);
        z = (z ^ (z >> 27)).wrapping_mul(0x94D049BB133111EB);
        z ^ (z >> 31)
    }
    pub fn below(
        &mut self,
        n: usize,
    ) -> usize {
        (self.next() % (n as u64)) as usize
    }
}

pub fn fnv(
    h: u64,
    bytes: &[u8],
) -> u64 {
    let mut h = h;
    for b in bytes {
        h ^= *b as u64;
        h = h.wrapping_mul(0x100000001b3);
    }
    h
}
