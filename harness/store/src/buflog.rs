//! C19: walk the state graph of spec/BufLog.tla (plain-log reference, emitted by TLC) on the real
//! `BufferedRaftLog`: every path of mutating operations up to a depth (plus seeded random longer
//! walks); after the last operation of every path the result of the operation and the answer of
//! every query are compared with the expectation attached to the spec state. Operations that do
//! not change the abstract state (rejected / idempotent requests) are run as probes at the end of
//! each path.
use std::collections::HashMap;
use std::panic::AssertUnwindSafe;
use std::sync::atomic::{AtomicU64, AtomicUsize, Ordering};
use std::sync::{Arc, Mutex};
use std::time::Duration;

use d_engine_core::{BufferedRaftLog, PersistenceConfig, RaftLog};
use d_engine_proto::common::{Entry, LogId};
use dv_common::mem::MemEngine;
use dv_common::node::SimTc;
use futures::FutureExt;
use serde::{Deserialize, Serialize};
use serde_json::{Value, json};

use crate::util::*;

#[derive(Deserialize, Serialize, Clone, Debug, PartialEq)]
pub struct Lid {
    pub i: u64,
    pub t: u64,
}

#[derive(Deserialize)]
pub struct Obs {
    first: u64,
    last: u64,
    lastid: Lid,
    empty: bool,
    eterm: Vec<u64>,
    entry: Vec<u64>,
    firstof: Vec<u64>,
    lastof: Vec<u64>,
    range: Vec<Vec<Vec<Lid>>>,
}

#[derive(Deserialize, Serialize, Clone, Debug)]
#[serde(tag = "k")]
pub enum Op {
    /// leader append: pre_allocate_id_range(n) + insert_batch
    L { t: u64, n: u64 },
    /// filter_out_conflicts_and_append(p, pt, es)
    F { p: u64, pt: u64, es: Vec<Lid> },
    /// purge_logs_up_to((i, t))
    P { i: u64, t: u64 },
    /// reset()
    R,
}

#[derive(Deserialize)]
struct StateJ {
    k: Value,
    obs: Obs,
}

#[derive(Deserialize)]
struct EdgeJ {
    f: Value,
    t: Value,
    op: Op,
    res: Lid,
}

pub struct Edge {
    to: usize,
    op: Op,
    res: Lid,
    opkey: Vec<u8>,
    /// conflict-aware append that removed entries
    trunc: bool,
}

pub struct Graph {
    max_idx: u64,
    max_term: u64,
    states: Vec<Obs>,
    init: Vec<usize>,
    /// edges that change the plain log, per state
    out: Vec<Vec<Edge>>,
    /// edges that leave the plain log unchanged (rejected / idempotent requests), per state: probes
    probes: Vec<Vec<Edge>>,
    pub n_edges: usize,
}

/// The graph file is the raw TLC emission: one JSON record per line, `S <state>` or `E <edge>`;
/// a state key is [universe.start, universe.par, base, st, log].
fn load_graph(
    path: &str,
    max_idx: u64,
    max_term: u64,
) -> Graph {
    use std::io::BufRead;
    let f = std::io::BufReader::new(std::fs::File::open(path).expect("open graph"));
    let mut ids: HashMap<String, usize> = HashMap::new();
    let mut keys: Vec<Value> = vec![];
    let mut states: Vec<Obs> = vec![];
    let mut edges: Vec<EdgeJ> = vec![];
    for line in f.lines() {
        let line = line.expect("read graph");
        if let Some(r) = line.strip_prefix("S ") {
            let s: StateJ = serde_json::from_str(r).expect("state json");
            ids.insert(s.k.to_string(), states.len());
            keys.push(s.k);
            states.push(s.obs);
        } else if let Some(r) = line.strip_prefix("E ") {
            edges.push(serde_json::from_str(r).expect("edge json"));
        }
    }
    let n = states.len();
    let mut out: Vec<Vec<Edge>> = (0..n).map(|_| vec![]).collect();
    let mut probes: Vec<Vec<Edge>> = (0..n).map(|_| vec![]).collect();
    let n_edges = edges.len();
    for e in edges {
        let fi = ids[&e.f.to_string()];
        let ti = ids[&e.t.to_string()];
        let same_base = e.f[2] == e.t[2];
        let fl = e.f[4].as_array().unwrap();
        let tl = e.t[4].as_array().unwrap();
        let sl = same_base && fl == tl;
        let extends = same_base && tl.len() >= fl.len() && tl[..fl.len()] == fl[..];
        let trunc = matches!(e.op, Op::F { .. }) && !extends;
        let opkey = serde_json::to_vec(&e.op).unwrap();
        let ed = Edge {
            to: ti,
            op: e.op,
            res: e.res,
            opkey,
            trunc,
        };
        if sl {
            probes[fi].push(ed);
        } else {
            out[fi].push(ed);
        }
    }
    // deterministic order
    for v in out.iter_mut().chain(probes.iter_mut()) {
        v.sort_by(|a, b| a.opkey.cmp(&b.opkey));
    }
    let mut init: Vec<(String, usize)> = keys
        .iter()
        .enumerate()
        .filter(|(_, k)| {
            k[2] == json!([0, 0])
                && k[4].as_array().unwrap().is_empty()
                && k[3].as_array().unwrap().iter().all(|x| x == &json!(0))
        })
        .map(|(i, k)| (k.to_string(), i))
        .collect();
    init.sort();
    Graph {
        max_idx,
        max_term,
        states,
        init: init.into_iter().map(|x| x.1).collect(),
        out,
        probes,
        n_edges,
    }
}

#[derive(Serialize, Clone, Debug)]
pub struct Mismatch {
    q: String,
    arg: String,
    exp: String,
    got: String,
}

fn mm(
    v: &mut Vec<Mismatch>,
    q: &str,
    arg: String,
    exp: String,
    got: String,
) {
    if exp != got {
        v.push(Mismatch {
            q: q.into(),
            arg,
            exp,
            got,
        });
    }
}

pub struct Runner {
    pub log: Arc<BufferedRaftLog<SimTc>>,
    pub se: Arc<MemEngine>,
}

impl Runner {
    pub fn new() -> Self {
        let se = Arc::new(MemEngine::default());
        let (log, rx) =
            BufferedRaftLog::<SimTc>::new(1, PersistenceConfig::default(), se.clone());
        let log = log.start(rx, None);
        Runner { log, se }
    }

    /// Apply one operation exactly as its production caller does. Returns the result log id
    /// ((0,0) for None / no result) or an error text (Err / panic / timeout).
    pub async fn apply(
        &self,
        op: &Op,
    ) -> Result<Lid, String> {
        let log = self.log.clone();
        let fut = async move {
            match op {
                Op::L { t, n } => {
                    // ReplicationHandler::generate_new_entries
                    let r = log.pre_allocate_id_range(*n);
                    let first = LogId {
                        index: *r.start(),
                        term: *t,
                    };
                    let es: Vec<Entry> = r.map(|i| mk_entry(i, *t, 0)).collect();
                    log.insert_batch(es)
                        .await
                        .map(|_| Some(first))
                        .map_err(|e| format!("Err({e:?})"))
                }
                Op::F { p, pt, es } => {
                    let es: Vec<Entry> = es.iter().map(|x| mk_entry(x.i, x.t, 0)).collect();
                    log.filter_out_conflicts_and_append(*p, *pt, es)
                        .await
                        .map_err(|e| format!("Err({e:?})"))
                }
                Op::P { i, t } => log
                    .purge_logs_up_to(LogId {
                        index: *i,
                        term: *t,
                    })
                    .await
                    .map(|_| None)
                    .map_err(|e| format!("Err({e:?})")),
                Op::R => log.reset().await.map(|_| None).map_err(|e| format!("Err({e:?})")),
            }
        };
        match tokio::time::timeout(Duration::from_secs(20), AssertUnwindSafe(fut).catch_unwind())
            .await
        {
            Err(_) => Err("timeout".into()),
            Ok(Err(p)) => Err(format!("panic: {}", panic_text(&p))),
            Ok(Ok(Err(e))) => Err(e),
            Ok(Ok(Ok(lid))) => Ok(lid
                .map(|l| Lid {
                    i: l.index,
                    t: l.term,
                })
                .unwrap_or(Lid { i: 0, t: 0 })),
        }
    }

    /// Ask every query of the RaftLog API and compare with the spec state's expectation.
    pub fn compare(
        &self,
        g: &Graph,
        o: &Obs,
    ) -> Vec<Mismatch> {
        let log = &self.log;
        let mut v = vec![];
        let r = std::panic::catch_unwind(AssertUnwindSafe(|| {
            let mut v = vec![];
            mm(&mut v, "first_entry_id", "".into(), o.first.to_string(), log.first_entry_id().to_string());
            mm(&mut v, "last_entry_id", "".into(), o.last.to_string(), log.last_entry_id().to_string());
            let lid = log.last_log_id().map(|l| (l.index, l.term)).unwrap_or((0, 0));
            mm(&mut v, "last_log_id", "".into(), format!("{:?}", (o.lastid.i, o.lastid.t)), format!("{lid:?}"));
            mm(&mut v, "is_empty", "".into(), o.empty.to_string(), RaftLog::is_empty(&**log).to_string());
            let le = log.last_entry().map(|e| (e.index, e.term)).unwrap_or((0, 0));
            let exp_le = if o.last > 0 { (o.last, o.entry[o.last as usize]) } else { (0, 0) };
            mm(&mut v, "last_entry", "".into(), format!("{exp_le:?}"), format!("{le:?}"));
            for i in 0..=(g.max_idx + 1) {
                let got = log.entry_term(i).unwrap_or(0);
                mm(&mut v, "entry_term", i.to_string(), o.eterm[i as usize].to_string(), got.to_string());
                let got = match log.entry(i) {
                    Ok(Some(e)) => {
                        if e.index != i || variant_of(&e) != Some(0) {
                            format!("corrupt({e:?})")
                        } else {
                            e.term.to_string()
                        }
                    }
                    Ok(None) => "0".into(),
                    Err(e) => format!("Err({e:?})"),
                };
                mm(&mut v, "entry", i.to_string(), o.entry[i as usize].to_string(), got);
            }
            for t in 0..=(g.max_term + 1) {
                mm(&mut v, "first_index_for_term", t.to_string(), o.firstof[t as usize].to_string(),
                   log.first_index_for_term(t).unwrap_or(0).to_string());
                mm(&mut v, "last_index_for_term", t.to_string(), o.lastof[t as usize].to_string(),
                   log.last_index_for_term(t).unwrap_or(0).to_string());
            }
            for a in 0..=(g.max_idx + 1) {
                for b in a..=(g.max_idx + 1) {
                    let exp: Vec<(u64, u64)> =
                        o.range[a as usize][b as usize].iter().map(|l| (l.i, l.t)).collect();
                    let got = match log.get_entries_range(a..=b) {
                        Ok(es) => {
                            if es.iter().any(|e| variant_of(e) != Some(0)) {
                                "corrupt".to_string()
                            } else {
                                format!("{:?}", es.iter().map(|e| (e.index, e.term)).collect::<Vec<_>>())
                            }
                        }
                        Err(e) => format!("Err({e:?})"),
                    };
                    mm(&mut v, "get_entries_range", format!("{a}..={b}"), format!("{exp:?}"), got);
                }
            }
            v
        }));
        match r {
            Ok(x) => v = x,
            Err(p) => v.push(Mismatch {
                q: "query".into(),
                arg: "".into(),
                exp: "answer".into(),
                got: format!("panic: {}", panic_text(&p)),
            }),
        }
        v
    }

    pub async fn close(self) {
        let _ = tokio::time::timeout(Duration::from_secs(20), self.log.close()).await;
    }
}

pub fn panic_text(p: &Box<dyn std::any::Any + Send>) -> String {
    if let Some(s) = p.downcast_ref::<&str>() {
        s.to_string()
    } else if let Some(s) = p.downcast_ref::<String>() {
        s.clone()
    } else {
        "?".into()
    }
}

#[derive(Serialize, Clone)]
pub struct Failure {
    path: Vec<Op>,
    /// 0-based index in `path` of the operation after which the mismatch was seen
    step: usize,
    mismatches: Vec<Mismatch>,
}

fn op_mismatch(
    e: &Edge,
    got: &Result<Lid, String>,
) -> Option<Mismatch> {
    let exp = format!("{:?}", (e.res.i, e.res.t));
    let g = match got {
        Ok(l) => format!("{:?}", (l.i, l.t)),
        Err(s) => s.clone(),
    };
    if exp != g {
        Some(Mismatch {
            q: "result".into(),
            arg: String::from_utf8_lossy(&e.opkey).into(),
            exp,
            got: g,
        })
    } else {
        None
    }
}

/// Execute `path` on a fresh log. `check_all`: compare after every step, else only after the last
/// one. Then run `probes` (abstract self-loops of the final state), comparing after each.
async fn execute(
    g: &Graph,
    path: &[&Edge],
    check_all: bool,
    probes: &[&Edge],
) -> Option<Failure> {
    let r = Runner::new();
    let mut fail = None;
    let mut state = usize::MAX;
    for (k, e) in path.iter().enumerate() {
        let got = r.apply(&e.op).await;
        state = e.to;
        let last = k + 1 == path.len();
        let mut ms = vec![];
        if check_all || last || got.is_err() {
            if let Some(m) = op_mismatch(e, &got) {
                ms.push(m);
            }
            ms.extend(r.compare(g, &g.states[e.to]));
        }
        if !ms.is_empty() {
            fail = Some(Failure {
                path: path[..=k].iter().map(|x| x.op.clone()).collect(),
                step: k,
                mismatches: ms,
            });
            break;
        }
    }
    if fail.is_none() && !probes.is_empty() {
        let mut done: Vec<&Edge> = vec![];
        for e in probes {
            let got = r.apply(&e.op).await;
            let mut ms = vec![];
            if let Some(m) = op_mismatch(e, &got) {
                ms.push(m);
            }
            let _ = state;
            ms.extend(r.compare(g, &g.states[e.to]));
            done.push(e);
            if !ms.is_empty() {
                let mut p: Vec<Op> = path.iter().map(|x| x.op.clone()).collect();
                p.extend(done.iter().map(|x| x.op.clone()));
                fail = Some(Failure {
                    step: p.len() - 1,
                    path: p,
                    mismatches: ms,
                });
                break;
            }
        }
    }
    r.close().await;
    fail
}

struct Ctx<'a> {
    g: &'a Graph,
    depth: usize,
    seen: &'a Mutex<HashMap<u64, bool>>,
    fails: &'a Mutex<Vec<Failure>>,
    runs: &'a AtomicU64,
    nodes: &'a AtomicU64,
    probes_run: &'a AtomicU64,
    nontrivial: &'a AtomicU64,
    max_runs: u64,
    samples: &'a Mutex<Vec<Value>>,
}

fn run_node(
    rt: &tokio::runtime::Runtime,
    c: &Ctx,
    state: usize,
    path: &[&Edge],
    h: u64,
    first: bool,
) -> bool {
    // probes not yet run after this very operation sequence
    let mut todo: Vec<&Edge> = vec![];
    {
        let mut seen = c.seen.lock().unwrap();
        for p in &c.g.probes[state] {
            let hp = fnv(h ^ 0x5bd1e995, &p.opkey);
            if !seen.contains_key(&hp) {
                seen.insert(hp, true);
                todo.push(p);
            }
        }
    }
    c.runs.fetch_add(1, Ordering::Relaxed);
    c.probes_run.fetch_add(todo.len() as u64, Ordering::Relaxed);
    let mut f = rt.block_on(execute(c.g, path, false, &todo));
    // a probe failed: only "path + that probe alone" is a valid request sequence, so the verdict
    // is taken from re-running it alone (and every later probe alone as well)
    if f.as_ref().map(|ff| ff.step >= path.len()).unwrap_or(false) {
        let first = f.as_ref().unwrap().step - path.len();
        f = None;
        for pe in &todo[first..] {
            if let Some(f2) = rt.block_on(execute(c.g, path, false, &[*pe])) {
                c.fails.lock().unwrap().push(f2);
            }
        }
    }
    if first && path.iter().any(|e| e.trunc || matches!(e.op, Op::P { .. } | Op::R)) {
        c.nontrivial.fetch_add(1, Ordering::Relaxed);
        let mut s = c.samples.lock().unwrap();
        if s.len() < 3
            && path.len() >= 3
            && path.iter().any(|e| e.trunc)
            && path.iter().any(|e| matches!(e.op, Op::P { .. } | Op::L { .. }))
        {
            s.push(json!(path.iter().map(|e| e.op.clone()).collect::<Vec<_>>()));
        }
    }
    match f {
        Some(ff) => {
            let ok_prefix = ff.step >= path.len();
            c.fails.lock().unwrap().push(ff);
            ok_prefix // probe failure: the path itself was fine, keep exploring below it
        }
        None => true,
    }
}

fn dfs<'a>(
    rt: &tokio::runtime::Runtime,
    c: &Ctx<'a>,
    state: usize,
    path: &mut Vec<&'a Edge>,
    h: u64,
) {
    if path.len() >= c.depth {
        return;
    }
    for e in &c.g.out[state] {
        if c.runs.load(Ordering::Relaxed) >= c.max_runs {
            return;
        }
        let h2 = fnv(h, &e.opkey);
        path.push(e);
        c.nodes.fetch_add(1, Ordering::Relaxed);
        let known = c.seen.lock().unwrap().get(&h2).copied();
        let ok = match known {
            Some(ok) => {
                // same operation sequence already executed (in another universe): its own check
                // is done; probes of this universe that were not run yet still have to be
                let pending = {
                    let seen = c.seen.lock().unwrap();
                    c.g.probes[e.to]
                        .iter()
                        .any(|p| !seen.contains_key(&fnv(h2 ^ 0x5bd1e995, &p.opkey)))
                };
                if ok && pending { run_node(rt, c, e.to, path, h2, false) } else { ok }
            }
            None => {
                let ok = run_node(rt, c, e.to, path, h2, true);
                c.seen.lock().unwrap().insert(h2, ok);
                ok
            }
        };
        if ok {
            dfs(rt, c, e.to, path, h2);
        }
        path.pop();
    }
}

pub fn main(args: &[String]) -> i32 {
    let gpath = arg(args, "--graph").expect("--graph");
    let out = arg(args, "--out").expect("--out");
    let depth = arg_u64(args, "--depth", 3) as usize;
    let nrand = arg_u64(args, "--random", 0);
    let rlen = arg_u64(args, "--rlen", 8) as usize;
    let seed = arg_u64(args, "--seed", 1);
    let threads = arg_u64(args, "--threads", 4) as usize;
    let max_runs = arg_u64(args, "--max-runs", u64::MAX);
    // quiet panics of the code under test (they are recorded as data)
    std::panic::set_hook(Box::new(|_| {}));

    let g = load_graph(&gpath, arg_u64(args, "--max-idx", 4), arg_u64(args, "--max-term", 3));

    // --replay <file>: execute one recorded path, checking after every step
    if let Some(rp) = arg(args, "--replay") {
        let v: Value = serde_json::from_str(&std::fs::read_to_string(&rp).expect("replay")).unwrap();
        let ops: Vec<Op> = serde_json::from_value(v["path"].clone()).expect("path");
        let rt = tokio::runtime::Builder::new_current_thread().enable_all().build().unwrap();
        let res = replay_ops(&rt, &g, &ops);
        std::fs::write(&out, serde_json::to_string(&res).unwrap()).unwrap();
        return 0;
    }

    let seen = Mutex::new(HashMap::new());
    let fails = Mutex::new(vec![]);
    let runs = AtomicU64::new(0);
    let nodes = AtomicU64::new(0);
    let probes_run = AtomicU64::new(0);
    let nontrivial = AtomicU64::new(0);
    let samples = Mutex::new(vec![]);
    // work items: (init state, first edge)
    let mut items: Vec<(usize, Option<usize>)> = vec![];
    for &s in &g.init {
        items.push((s, None));
        for k in 0..g.out[s].len() {
            items.push((s, Some(k)));
        }
    }
    let next = AtomicUsize::new(0);
    let rand_next = AtomicU64::new(0);
    let rand_runs = AtomicU64::new(0);
    std::thread::scope(|sc| {
        for _ in 0..threads {
            sc.spawn(|| {
                let rt =
                    tokio::runtime::Builder::new_current_thread().enable_all().build().unwrap();
                let c = Ctx {
                    g: &g,
                    depth,
                    seen: &seen,
                    fails: &fails,
                    runs: &runs,
                    nodes: &nodes,
                    probes_run: &probes_run,
                    nontrivial: &nontrivial,
                    max_runs,
                    samples: &samples,
                };
                loop {
                    let k = next.fetch_add(1, Ordering::SeqCst);
                    if k >= items.len() {
                        break;
                    }
                    let (s, fe) = items[k];
                    match fe {
                        None => {
                            // probes at the initial (empty) log
                            run_node(&rt, &c, s, &[], 0xcbf29ce484222325 ^ 0, true);
                        }
                        Some(ei) => {
                            let e = &g.out[s][ei];
                            let h = fnv(0xcbf29ce484222325, &e.opkey);
                            let mut path = vec![e];
                            c.nodes.fetch_add(1, Ordering::Relaxed);
                            let known = seen.lock().unwrap().get(&h).copied();
                            let ok = match known {
                                Some(ok) => ok,
                                None => {
                                    let ok = run_node(&rt, &c, e.to, &path, h, true);
                                    seen.lock().unwrap().insert(h, ok);
                                    ok
                                }
                            };
                            if ok {
                                dfs(&rt, &c, e.to, &mut path, h);
                            }
                        }
                    }
                }
                // seeded random walks (all edges, including self-loops), checked after every step
                loop {
                    let k = rand_next.fetch_add(1, Ordering::SeqCst);
                    if k >= nrand {
                        break;
                    }
                    let mut rng = SplitMix(seed.wrapping_mul(0x2545F4914F6CDD1D).wrapping_add(k));
                    let mut s = g.init[rng.below(g.init.len())];
                    let mut path: Vec<&Edge> = vec![];
                    for _ in 0..rlen {
                        let no = g.out[s].len();
                        let np = g.probes[s].len();
                        if no == 0 && np == 0 {
                            break;
                        }
                        let e = if no > 0 && (np == 0 || rng.below(100) < 80) {
                            &g.out[s][rng.below(no)]
                        } else {
                            &g.probes[s][rng.below(np)]
                        };
                        path.push(e);
                        s = e.to;
                    }
                    rand_runs.fetch_add(1, Ordering::Relaxed);
                    if path.iter().any(|e| e.trunc || matches!(e.op, Op::P { .. } | Op::R)) {
                        nontrivial.fetch_add(1, Ordering::Relaxed);
                    }
                    if let Some(f) = rt.block_on(execute(&g, &path, true, &[])) {
                        fails.lock().unwrap().push(f);
                    }
                }
            });
        }
    });
    let fails = fails.into_inner().unwrap();
    let truncated = runs.load(Ordering::Relaxed) >= max_runs;
    let res = json!({
        "dfs_depth": depth,
        "dfs_nodes": nodes.load(Ordering::Relaxed),
        "runs": runs.load(Ordering::Relaxed),
        "distinct_sequences": seen.lock().unwrap().len(),
        "probes_run": probes_run.load(Ordering::Relaxed),
        "random_runs": rand_runs.load(Ordering::Relaxed),
        "nontrivial": nontrivial.load(Ordering::Relaxed),
        "truncated": truncated,
        "graph_states": g.states.len(),
        "graph_edges": g.n_edges,
        "graph_universes": g.init.len(),
        "samples": *samples.lock().unwrap(),
        "fails": fails,
    });
    std::fs::write(&out, serde_json::to_string(&res).unwrap()).unwrap();
    0
}

/// Replay a recorded operation sequence by following the graph (the sequence must be a path of
/// the graph from some initial state; expectations come from the graph).
fn replay_ops(
    rt: &tokio::runtime::Runtime,
    g: &Graph,
    ops: &[Op],
) -> Value {
    let keys: Vec<Vec<u8>> = ops.iter().map(|o| serde_json::to_vec(o).unwrap()).collect();
    for &s0 in &g.init {
        let mut s = s0;
        let mut path: Vec<&Edge> = vec![];
        let mut ok = true;
        for k in &keys {
            let e = g.out[s].iter().chain(g.probes[s].iter()).find(|e| &e.opkey == k);
            match e {
                Some(e) => {
                    path.push(e);
                    s = e.to;
                }
                None => {
                    ok = false;
                    break;
                }
            }
        }
        if ok {
            let f = rt.block_on(execute(g, &path, true, &[]));
            return json!({"found": true, "fails": f.into_iter().collect::<Vec<_>>()});
        }
    }
    json!({"found": false, "fails": []})
}
