//! dv-store: drives the real storage components of d-engine from TLC-generated state graphs /
//! behaviours and compares every observation with the expectation computed by the TLA+ spec.
//!
//!   dv-store buflog    --graph G --depth D --random N --rlen L --seed S --threads T --out R   (C19)
//!   dv-store logstore  ...                                                                   (C20)
//!   dv-store metastore ...                                                                   (C21)
//!   dv-store crashlog  ...                                                                   (C18)
mod buflog;
mod crashlog;
mod logstore;
mod metastore;
mod util;

fn main() {
    let args: Vec<String> = std::env::args().collect();
    let mode = args.get(1).cloned().unwrap_or_default();
    let rc = match mode.as_str() {
        "buflog" => buflog::main(&args),
        "logstore" => logstore::main(&args),
        "metastore" => metastore::main(&args),
        "crashlog" => crashlog::main(&args),
        _ => {
            eprintln!("usage: dv-store buflog|logstore|metastore|crashlog ...");
            2
        }
    };
    std::process::exit(rc);
}
