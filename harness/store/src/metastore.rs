//! C21: the real meta stores (FileMetaStore, RocksDBMetaStore).
//!
//!   dv-store metastore run  --engine file|rocksdb --dir D --values JSON [--flush-after-save]
//!       opens the store on D and saves the values one after the other; a line
//!       "DVMARK begin <k>" / "DVMARK end <k>" is written to stderr (one write(2) call) around every
//!       save_hard_state call, so that a system-call trace (strace) can be cut into windows.
//!       With --copy-at-end C: copies D to C after the last save while the store is still open
//!       (image a killed process leaves).
//!   dv-store metastore load --engine file|rocksdb --list F --out R
//!       for every directory named in F (one per line): open a fresh store on it and
//!       load_hard_state(); R = ndjson of {"dir", "state": null | [term, id, vterm, committed], "err"}.
use std::io::Write;
use std::path::{Path, PathBuf};

use d_engine_core::{HardState, MetaStore, StorageEngine};
use d_engine_proto::server::election::VotedFor;
use d_engine_server::RocksDBStorageEngine;
use d_engine_server::storage::FileMetaStore;
use serde_json::{Value, json};

use crate::util::*;

fn hs_of(v: &Value) -> HardState {
    // [term, vote_id, vote_term, committed] ; vote_id = 0: no vote
    let a = v.as_array().expect("value");
    let term = a[0].as_u64().unwrap();
    let vid = a[1].as_u64().unwrap() as u32;
    HardState {
        current_term: term,
        voted_for: if vid == 0 {
            None
        } else {
            Some(VotedFor {
                voted_for_id: vid,
                voted_for_term: a[2].as_u64().unwrap(),
                committed: a[3].as_u64().unwrap() != 0,
            })
        },
    }
}

fn hs_json(h: &HardState) -> Value {
    match h.voted_for {
        None => json!([h.current_term, 0, 0, 0]),
        Some(v) => json!([h.current_term, v.voted_for_id, v.voted_for_term, if v.committed { 1 } else { 0 }]),
    }
}

enum Store {
    File(FileMetaStore),
    Rocks(RocksDBStorageEngine),
}

impl Store {
    fn open(
        engine: &str,
        dir: &Path,
    ) -> Result<Store, String> {
        match engine {
            "file" => FileMetaStore::new(dir.to_path_buf()).map(Store::File).map_err(|e| format!("{e:?}")),
            "rocksdb" => RocksDBStorageEngine::new(dir).map(Store::Rocks).map_err(|e| format!("{e:?}")),
            _ => Err("unknown engine".into()),
        }
    }
    fn save(
        &self,
        h: &HardState,
    ) -> Result<(), String> {
        match self {
            Store::File(s) => s.save_hard_state(h).map_err(|e| format!("{e:?}")),
            Store::Rocks(e) => e.meta_store().save_hard_state(h).map_err(|e| format!("{e:?}")),
        }
    }
    fn flush(&self) -> Result<(), String> {
        match self {
            Store::File(s) => s.flush().map_err(|e| format!("{e:?}")),
            Store::Rocks(e) => e.meta_store().flush().map_err(|e| format!("{e:?}")),
        }
    }
    fn load(&self) -> Result<Option<HardState>, String> {
        match self {
            Store::File(s) => s.load_hard_state().map_err(|e| format!("{e:?}")),
            Store::Rocks(e) => e.meta_store().load_hard_state().map_err(|e| format!("{e:?}")),
        }
    }
}

fn mark(s: &str) {
    let _ = std::io::stderr().write_all(format!("DVMARK {s}\n").as_bytes());
}

pub fn main(args: &[String]) -> i32 {
    let sub = args.get(2).cloned().unwrap_or_default();
    let engine = arg(args, "--engine").unwrap_or_else(|| "file".into());
    match sub.as_str() {
        "run" => {
            let dir = PathBuf::from(arg(args, "--dir").expect("--dir"));
            let values: Vec<Value> =
                serde_json::from_str(&arg(args, "--values").expect("--values")).expect("values json");
            let flush_after = args.iter().any(|a| a == "--flush-after-save");
            let store = match Store::open(&engine, &dir) {
                Ok(s) => s,
                Err(e) => {
                    eprintln!("open failed: {e}");
                    return 2;
                }
            };
            for (k, v) in values.iter().enumerate() {
                let h = hs_of(v);
                mark(&format!("begin {}", k + 1));
                let r = store.save(&h);
                if flush_after {
                    let _ = store.flush();
                }
                mark(&format!("end {}", k + 1));
                if let Err(e) = r {
                    eprintln!("save failed: {e}");
                    return 2;
                }
                // optional image of the directory as a killed process would leave it right now
                if let Some(c) = arg(args, "--copy-after-each") {
                    let to = PathBuf::from(c).join(format!("after{}", k + 1));
                    let _ = std::fs::remove_dir_all(&to);
                    if let Err(e) = crate::logstore::copy_dir(&dir, &to) {
                        eprintln!("copy failed: {e}");
                        return 2;
                    }
                }
            }
            mark("done");
            // leave without running destructors (a killed process runs none)
            std::process::exit(0);
        }
        "load" => {
            let list = std::fs::read_to_string(arg(args, "--list").expect("--list")).expect("list");
            let out = arg(args, "--out").expect("--out");
            let mut w = std::io::BufWriter::new(std::fs::File::create(out).expect("out"));
            for d in list.lines().filter(|l| !l.trim().is_empty()) {
                let r = std::panic::catch_unwind(|| match Store::open(&engine, Path::new(d)) {
                    Err(e) => json!({"dir": d, "state": null, "err": format!("open: {e}")}),
                    Ok(s) => match s.load() {
                        Ok(None) => json!({"dir": d, "state": null, "err": null}),
                        Ok(Some(h)) => json!({"dir": d, "state": hs_json(&h), "err": null}),
                        Err(e) => json!({"dir": d, "state": null, "err": format!("load: {e}")}),
                    },
                });
                let v = r.unwrap_or_else(|_| json!({"dir": d, "state": null, "err": "panic"}));
                serde_json::to_writer(&mut w, &v).unwrap();
                w.write_all(b"\n").unwrap();
            }
            w.flush().unwrap();
            0
        }
        _ => {
            eprintln!("usage: dv-store metastore run|load ...");
            2
        }
    }
}
