//! In-memory storage engine (two layers: written / synced) and reference state machine
//! with an observer of every applied entry. Used by the simulated cluster.
use std::collections::{BTreeMap, HashMap};
use std::ops::RangeInclusive;
use std::sync::atomic::{AtomicBool, AtomicU64, Ordering};
use std::sync::{Arc, Mutex};

use async_trait::async_trait;
use bytes::Bytes;
use d_engine_core::*;
use d_engine_proto::common::{Entry, LogId};
use d_engine_proto::server::storage::SnapshotMetadata;

type R<T> = std::result::Result<T, Error>;

// ---------------------------------------------------------------------------------------------
// Log store
// ---------------------------------------------------------------------------------------------
#[derive(Default, Debug)]
pub struct MemLog {
    /// what `persist_entries` wrote (OS page cache level: survives a process crash)
    pub cache: Mutex<BTreeMap<u64, Entry>>,
    /// what was covered by the last `flush()` (survives power loss)
    pub synced: Mutex<BTreeMap<u64, Entry>>,
    pub purge_boundary: Mutex<Option<LogId>>,
    /// while true, `persist_entries`/`replace_range` block (IO task held by the harness)
    pub hold: AtomicBool,
    pub persist_calls: AtomicU64,
    pub flush_calls: AtomicU64,
}

impl MemLog {
    /// While the harness holds the IO path, appends fail like a transient disk error: the IO task logs
    /// it, does not advance the durable index and goes on serving control commands (blocking here
    /// would dead-lock the Raft loop, which awaits Reset / Purge / ReplaceRange completions).
    fn gate(&self) -> R<()> {
        if self.hold.load(Ordering::SeqCst) {
            return Err(Error::System(SystemError::Storage(StorageError::StateMachineError(
                "verif: IO held".into(),
            ))));
        }
        Ok(())
    }
    pub fn snapshot_cache(&self) -> BTreeMap<u64, Entry> {
        self.cache.lock().unwrap().clone()
    }
    pub fn from_entries(
        ents: BTreeMap<u64, Entry>,
        pb: Option<LogId>,
    ) -> Self {
        MemLog {
            cache: Mutex::new(ents.clone()),
            synced: Mutex::new(ents),
            purge_boundary: Mutex::new(pb),
            ..Default::default()
        }
    }
}

#[async_trait]
impl LogStore for MemLog {
    async fn persist_entries(
        &self,
        entries: Vec<Entry>,
    ) -> R<()> {
        self.gate()?;
        self.persist_calls.fetch_add(1, Ordering::SeqCst);
        let mut g = self.cache.lock().unwrap();
        for e in entries {
            g.insert(e.index, e);
        }
        Ok(())
    }
    async fn entry(
        &self,
        index: u64,
    ) -> R<Option<Entry>> {
        Ok(self.cache.lock().unwrap().get(&index).cloned())
    }
    fn get_entries(
        &self,
        range: RangeInclusive<u64>,
    ) -> R<Vec<Entry>> {
        Ok(self.cache.lock().unwrap().range(range).map(|(_, e)| e.clone()).collect())
    }
    async fn purge(
        &self,
        cutoff: LogId,
    ) -> R<()> {
        self.cache.lock().unwrap().retain(|k, _| *k > cutoff.index);
        *self.purge_boundary.lock().unwrap() = Some(cutoff);
        Ok(())
    }
    async fn truncate(
        &self,
        from: u64,
    ) -> R<()> {
        self.cache.lock().unwrap().retain(|k, _| *k < from);
        Ok(())
    }
    fn is_write_durable(&self) -> bool {
        false
    }
    fn flush(&self) -> R<()> {
        self.flush_calls.fetch_add(1, Ordering::SeqCst);
        let c = self.cache.lock().unwrap().clone();
        *self.synced.lock().unwrap() = c;
        Ok(())
    }
    async fn flush_async(&self) -> R<()> {
        LogStore::flush(self)
    }
    async fn reset(&self) -> R<()> {
        self.cache.lock().unwrap().clear();
        *self.purge_boundary.lock().unwrap() = None;
        Ok(())
    }
    fn last_index(&self) -> u64 {
        self.cache.lock().unwrap().keys().next_back().copied().unwrap_or(0)
    }
    fn load_purge_boundary(&self) -> R<Option<LogId>> {
        Ok(*self.purge_boundary.lock().unwrap())
    }
}

// ---------------------------------------------------------------------------------------------
// Meta store
// ---------------------------------------------------------------------------------------------
#[derive(Default, Debug)]
pub struct MemMeta {
    pub hs: Mutex<Option<HardState>>,
    pub saves: AtomicU64,
}
#[async_trait]
impl MetaStore for MemMeta {
    fn save_hard_state(
        &self,
        s: &HardState,
    ) -> R<()> {
        self.saves.fetch_add(1, Ordering::SeqCst);
        *self.hs.lock().unwrap() = Some(*s);
        Ok(())
    }
    fn load_hard_state(&self) -> R<Option<HardState>> {
        Ok(*self.hs.lock().unwrap())
    }
}

#[derive(Default, Debug)]
pub struct MemEngine {
    pub l: Arc<MemLog>,
    pub m: Arc<MemMeta>,
}
impl StorageEngine for MemEngine {
    type LogStore = MemLog;
    type MetaStore = MemMeta;
    fn log_store(&self) -> Arc<MemLog> {
        self.l.clone()
    }
    fn meta_store(&self) -> Arc<MemMeta> {
        self.m.clone()
    }
}
impl MemEngine {
    /// Image of the store as a process crash leaves it (everything written survives).
    pub fn crash_image(&self) -> MemEngine {
        MemEngine {
            l: Arc::new(MemLog::from_entries(
                self.l.snapshot_cache(),
                *self.l.purge_boundary.lock().unwrap(),
            )),
            m: Arc::new(MemMeta {
                hs: Mutex::new(*self.m.hs.lock().unwrap()),
                saves: AtomicU64::new(0),
            }),
        }
    }
}

// ---------------------------------------------------------------------------------------------
// State machine (reference semantics, no TTL expiry) with observer
// ---------------------------------------------------------------------------------------------
#[derive(Debug, Clone, PartialEq)]
pub struct Applied {
    pub index: u64,
    pub term: u64,
    pub cmd: Command,
    pub ok: bool,
}

#[derive(Default, Debug)]
pub struct MemSm {
    pub kv: Mutex<HashMap<Bytes, Bytes>>,
    pub applied: Mutex<LogId>,
    /// every apply_chunk entry in call order (never reset: history across restarts is kept by
    /// the harness, this is the per-instance sequence)
    pub seq: Mutex<Vec<Applied>>,
    pub snap_meta: Mutex<Option<SnapshotMetadata>>,
    /// while true, apply_chunk blocks (apply lag under harness control)
    pub hold: AtomicBool,
    pub running: AtomicBool,
}

impl MemSm {
    pub fn new() -> Self {
        let s = MemSm::default();
        s.running.store(true, Ordering::SeqCst);
        s
    }
    /// Image of the state machine after a process crash (in this reference SM everything
    /// applied is durable together with its applied index).
    pub fn crash_image(&self) -> MemSm {
        let s = MemSm::new();
        *s.kv.lock().unwrap() = self.kv.lock().unwrap().clone();
        *s.applied.lock().unwrap() = *self.applied.lock().unwrap();
        *s.snap_meta.lock().unwrap() = self.snap_meta.lock().unwrap().clone();
        s
    }
    pub fn kv_sorted(&self) -> Vec<(Vec<u8>, Vec<u8>)> {
        let mut v: Vec<_> =
            self.kv.lock().unwrap().iter().map(|(k, v)| (k.to_vec(), v.to_vec())).collect();
        v.sort();
        v
    }
}

pub fn apply_ref(
    kv: &mut HashMap<Bytes, Bytes>,
    cmd: &Command,
) -> bool {
    match cmd {
        Command::Noop => true,
        Command::Insert { key, value, .. } => {
            kv.insert(key.clone(), value.clone());
            true
        }
        Command::Delete { key } => {
            kv.remove(key);
            true
        }
        Command::CompareAndSwap {
            key,
            expected,
            value,
        } => {
            let cur = kv.get(key).cloned();
            if cur == *expected {
                kv.insert(key.clone(), value.clone());
                true
            } else {
                false
            }
        }
    }
}

#[async_trait]
impl StateMachine for MemSm {
    async fn start(&self) -> R<()> {
        self.running.store(true, Ordering::SeqCst);
        Ok(())
    }
    fn stop(&self) -> R<()> {
        self.running.store(false, Ordering::SeqCst);
        Ok(())
    }
    fn is_running(&self) -> bool {
        self.running.load(Ordering::SeqCst)
    }
    fn get(
        &self,
        k: &[u8],
    ) -> R<Option<Bytes>> {
        Ok(self.kv.lock().unwrap().get(k).cloned())
    }
    fn entry_term(
        &self,
        _i: u64,
    ) -> Option<u64> {
        None
    }
    async fn apply_chunk(
        &self,
        chunk: &[ApplyEntry],
    ) -> R<Vec<ApplyResult>> {
        while self.hold.load(Ordering::SeqCst) {
            tokio::task::yield_now().await;
        }
        let mut out = vec![];
        for e in chunk {
            let ok = apply_ref(&mut self.kv.lock().unwrap(), &e.command);
            self.seq.lock().unwrap().push(Applied {
                index: e.index,
                term: e.term,
                cmd: e.command.clone(),
                ok,
            });
            *self.applied.lock().unwrap() = LogId {
                index: e.index,
                term: e.term,
            };
            out.push(if ok {
                ApplyResult::success(e.index)
            } else {
                ApplyResult::failure(e.index)
            });
        }
        Ok(out)
    }
    fn len(&self) -> usize {
        self.kv.lock().unwrap().len()
    }
    fn update_last_applied(
        &self,
        l: LogId,
    ) {
        *self.applied.lock().unwrap() = l;
    }
    fn last_applied(&self) -> LogId {
        *self.applied.lock().unwrap()
    }
    fn persist_last_applied(
        &self,
        l: LogId,
    ) -> R<()> {
        self.update_last_applied(l);
        Ok(())
    }
    fn update_last_snapshot_metadata(
        &self,
        m: &SnapshotMetadata,
    ) -> R<()> {
        *self.snap_meta.lock().unwrap() = Some(m.clone());
        Ok(())
    }
    fn snapshot_metadata(&self) -> Option<SnapshotMetadata> {
        self.snap_meta.lock().unwrap().clone()
    }
    fn persist_last_snapshot_metadata(
        &self,
        m: &SnapshotMetadata,
    ) -> R<()> {
        self.update_last_snapshot_metadata(m)
    }
    async fn apply_snapshot_from_file(
        &self,
        metadata: &SnapshotMetadata,
        snapshot_path: std::path::PathBuf,
    ) -> R<()> {
        // snapshot file format of this reference SM: bincode(Vec<(Vec<u8>,Vec<u8>)>) in `data.bin`
        let p = if snapshot_path.is_dir() {
            snapshot_path.join("data.bin")
        } else {
            snapshot_path.clone()
        };
        let bytes = std::fs::read(&p).map_err(|e| {
            Error::System(SystemError::Storage(StorageError::StateMachineError(format!(
                "read snapshot {p:?}: {e}"
            ))))
        })?;
        let items: Vec<(Vec<u8>, Vec<u8>)> = bincode::deserialize(&bytes).map_err(|e| {
            Error::System(SystemError::Storage(StorageError::StateMachineError(format!(
                "decode snapshot: {e}"
            ))))
        })?;
        let mut kv = self.kv.lock().unwrap();
        kv.clear();
        for (k, v) in items {
            kv.insert(Bytes::from(k), Bytes::from(v));
        }
        if let Some(li) = metadata.last_included {
            *self.applied.lock().unwrap() = li;
        }
        *self.snap_meta.lock().unwrap() = Some(metadata.clone());
        Ok(())
    }
    async fn generate_snapshot_data(
        &self,
        new_snapshot_dir: std::path::PathBuf,
        _last_included: LogId,
    ) -> R<Bytes> {
        let items = self.kv_sorted();
        let bytes = bincode::serialize(&items).unwrap();
        std::fs::create_dir_all(&new_snapshot_dir).ok();
        std::fs::write(new_snapshot_dir.join("data.bin"), &bytes).map_err(|e| {
            Error::System(SystemError::Storage(StorageError::StateMachineError(format!(
                "write snapshot: {e}"
            ))))
        })?;
        // like the File / RocksDB state machines: the SM records the metadata of the snapshot it produced
        *self.snap_meta.lock().unwrap() = Some(SnapshotMetadata {
            last_included: Some(_last_included),
            checksum: Bytes::from_static(b"memsm"),
        });
        Ok(Bytes::from_static(b"memsm"))
    }
    fn save_hard_state(&self) -> R<()> {
        Ok(())
    }
    fn flush(&self) -> R<()> {
        Ok(())
    }
    async fn flush_async(&self) -> R<()> {
        Ok(())
    }
    async fn reset(&self) -> R<()> {
        self.kv.lock().unwrap().clear();
        *self.applied.lock().unwrap() = LogId { index: 0, term: 0 };
        Ok(())
    }
    fn scan_prefix(
        &self,
        prefix: &[u8],
    ) -> R<ScanResult> {
        let kv = self.kv.lock().unwrap();
        let mut entries: Vec<(Bytes, Bytes)> = kv
            .iter()
            .filter(|(k, _)| k.starts_with(prefix))
            .map(|(k, v)| (k.clone(), v.clone()))
            .collect();
        entries.sort();
        Ok(ScanResult {
            entries,
            revision: self.applied.lock().unwrap().index,
        })
    }
}
