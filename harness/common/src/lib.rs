pub mod mem;
pub mod net;
pub mod node;
pub mod util;
