//! Wiring of one simulated node: production types everywhere except Transport / StorageEngine /
//! StateMachine. Copied from `NodeBuilder::build` (d-engine-server/src/node/builder.rs).
use std::sync::Arc;

use d_engine_core::*;
use d_engine_proto::common::LeaderInfo;
use d_engine_proto::server::cluster::NodeMeta;
use d_engine_server::verif_exports::{RaftMembership, new_membership};
use tokio::sync::{mpsc, watch};

use crate::mem::{MemEngine, MemSm};
use crate::net::{Net, SimTransport};

#[derive(Debug)]
pub struct SimTc;
impl TypeConfig for SimTc {
    type SE = MemEngine;
    type SM = MemSm;
    type R = BufferedRaftLog<Self>;
    type M = RaftMembership<Self>;
    type TR = SimTransport<Self>;
    type E = ElectionHandler<Self>;
    type REP = ReplicationHandler<Self>;
    type C = DefaultCommitHandler<Self>;
    type SMH = DefaultStateMachineHandler<Self>;
    type SNP = LogSizePolicy;
    type PE = DefaultPurgeExecutor<Self>;
}

pub struct NodeH {
    pub id: u32,
    pub raft: Option<Raft<SimTc>>,
    pub sm: Arc<MemSm>,
    pub se: Arc<MemEngine>,
    pub raft_log: Arc<BufferedRaftLog<SimTc>>,
    pub membership: Arc<RaftMembership<SimTc>>,
    pub smh: Arc<DefaultStateMachineHandler<SimTc>>,
    pub leader_rx: watch::Receiver<Option<LeaderInfo>>,
    pub shutdown: watch::Sender<()>,
    pub cfg: Arc<RaftNodeConfig>,
    pub tasks: Vec<tokio::task::JoinHandle<()>>,
}

pub fn node_meta(
    id: u32,
    role: i32,
    status: i32,
) -> NodeMeta {
    NodeMeta {
        id,
        address: format!("127.0.0.1:{}", 9000 + id),
        role,
        status,
    }
}

/// Same wiring and start order as `NodeBuilder::build`.
pub async fn build_node(
    cfg: RaftNodeConfig,
    se: Arc<MemEngine>,
    sm: Arc<MemSm>,
    net: Net,
) -> NodeH {
    let id = cfg.cluster.node_id;
    let (shutdown_tx, shutdown_rx) = watch::channel(());
    let (commit_tx, commit_rx) = mpsc::unbounded_channel::<NewCommitData>();

    sm.start().await.unwrap();
    let last_applied_index = sm.last_applied().index;

    let (internal_tx, internal_rx) = mpsc::unbounded_channel();
    let raft_log = {
        let (log, rx) = BufferedRaftLog::<SimTc>::new(id, cfg.raft.persistence.clone(), se.clone());
        log.start(rx, Some(internal_tx.clone()))
    };
    let snapshot_policy = LogSizePolicy::new(
        cfg.raft.snapshot.max_log_entries_before_snapshot,
        cfg.raft.snapshot.snapshot_cool_down_since_last_check,
    );
    let smh = Arc::new(DefaultStateMachineHandler::<SimTc>::new(
        id,
        last_applied_index,
        sm.clone(),
        cfg.raft.snapshot.clone(),
        snapshot_policy,
        None,
        Arc::new(std::sync::atomic::AtomicUsize::new(0)),
    ));
    let membership =
        Arc::new(new_membership::<SimTc>(id, cfg.cluster.initial_cluster.clone(), cfg.clone()));
    let purge_executor = DefaultPurgeExecutor::new(raft_log.clone());
    let (event_tx, event_rx) = mpsc::channel(10240);
    let (cmd_tx, cmd_rx) = mpsc::channel(cfg.raft.cmd_channel_capacity);
    let cfg_arc = Arc::new(cfg);

    let last_applied_opt = Some(sm.last_applied().index);
    let role = if cfg_arc.is_learner() {
        RaftRole::Learner(Box::new(learner_state::LearnerState::new(id, cfg_arc.clone())))
    } else {
        RaftRole::Follower(Box::new(follower_state::FollowerState::new(
            id,
            cfg_arc.clone(),
            raft_log.load_hard_state().expect("load hard state"),
            last_applied_opt,
        )))
    };
    let role_i32 = role.as_i32();
    let term = role.current_term();

    let mut raft = Raft::<SimTc>::new(
        id,
        role,
        RaftStorageHandles {
            raft_log: raft_log.clone(),
            state_machine: sm.clone(),
        },
        SimTransport::new(id, net),
        RaftCoreHandlers {
            election_handler: ElectionHandler::new(id),
            replication_handler: ReplicationHandler::new(id),
            state_machine_handler: smh.clone(),
            purge_executor: Arc::new(purge_executor),
        },
        membership.clone(),
        SignalParams::new(
            internal_tx.clone(),
            internal_rx,
            event_tx,
            event_rx,
            cmd_tx,
            cmd_rx,
            shutdown_rx.clone(),
        ),
        cfg_arc.clone(),
    );
    raft.register_new_commit_listener(commit_tx);
    let (leader_tx, leader_rx) = watch::channel(None);
    raft.register_leader_change_listener(leader_tx);

    let (sm_apply_tx, sm_apply_rx) = mpsc::unbounded_channel();
    let worker = StateMachineWorker::<SimTc>::new(
        id,
        smh.clone(),
        sm_apply_rx,
        internal_tx.clone(),
        shutdown_rx.clone(),
    );
    let mut tasks = vec![];
    tasks.push(tokio::spawn(async move {
        let _ = worker.run().await;
    }));
    let deps = CommitHandlerDependencies {
        state_machine_handler: smh.clone(),
        raft_log: raft_log.clone(),
        membership: membership.clone(),
        internal_event_tx: internal_tx,
        sm_apply_tx,
        shutdown_signal: shutdown_rx,
        max_batch_size: cfg_arc.raft.batching.max_batch_size,
    };
    let mut ch = DefaultCommitHandler::<SimTc>::new(id, role_i32, term, deps, commit_rx);
    tasks.push(tokio::spawn(async move {
        let _ = ch.run().await;
    }));

    NodeH {
        id,
        raft: Some(raft),
        sm,
        se,
        raft_log,
        membership,
        smh,
        leader_rx,
        shutdown: shutdown_tx,
        cfg: cfg_arc,
        tasks,
    }
}

impl NodeH {
    /// Process crash: abandon the node without running any graceful path. The `Raft` value is
    /// leaked on purpose so that `impl Drop for Raft` (which saves the hard state) never runs,
    /// exactly like a killed process.
    pub fn crash(&mut self) {
        for t in self.tasks.drain(..) {
            t.abort();
        }
        if let Some(r) = self.raft.take() {
            std::mem::forget(r);
        }
    }

    /// Graceful stop: what `Node::run` does on shutdown — `raft_log.close()` then drop (saves
    /// the hard state).
    pub async fn graceful_stop(&mut self) {
        let _ = self.shutdown.send(());
        self.raft_log.close().await;
        for t in self.tasks.drain(..) {
            t.abort();
        }
        self.raft.take(); // Drop => save_hard_state
    }
}
