//! Simulated network: every RPC becomes an entry in a harness-owned bag; nothing is delivered
//! unless the schedule says so.
use std::collections::{HashMap, HashSet};
use std::sync::{Arc, Mutex};

use async_trait::async_trait;
use d_engine_core::alias::{MOF, SMHOF};
use d_engine_core::*;
use d_engine_proto::server::cluster::{JoinRequest, JoinResponse};
use d_engine_proto::server::election::{VoteRequest, VoteResponse};
use d_engine_proto::server::replication::{AppendEntriesRequest, AppendEntriesResponse};
use d_engine_proto::server::storage::SnapshotMetadata;
use futures::StreamExt;
use tokio::sync::{mpsc, oneshot};

pub type ArResult = std::result::Result<AppendEntriesResponse, tonic::Status>;

#[derive(Debug, Clone)]
pub enum Body {
    Vote(VoteRequest),
    Ae(AppendEntriesRequest),
    Ar(AppendEntriesResponse),
    Snap(SnapshotMetadata),
    Join(JoinRequest),
}

#[derive(Debug, Clone)]
pub struct Msg {
    pub id: u64,
    pub from: u32,
    pub to: u32,
    /// replication stream id (Ae/Ar), 0 otherwise
    pub stream: u64,
    pub body: Body,
}

impl Msg {
    pub fn ty(&self) -> &'static str {
        match self.body {
            Body::Vote(_) => "VQ",
            Body::Ae(_) => "AE",
            Body::Ar(_) => "AR",
            Body::Snap(_) => "SNAP",
            Body::Join(_) => "JOIN",
        }
    }
}

#[derive(Default)]
pub struct NetInner {
    pub next_id: u64,
    pub bag: Vec<Msg>,
    pub vote_waiters: HashMap<u64, oneshot::Sender<Result<VoteResponse>>>,
    pub snap_waiters: HashMap<u64, oneshot::Sender<Result<()>>>,
    pub join_waiters: HashMap<u64, oneshot::Sender<Result<JoinResponse>>>,
    /// (leader, peer) -> (stream id, response sender into the leader's stream receiver)
    pub streams: HashMap<(u32, u32), (u64, mpsc::UnboundedSender<ArResult>)>,
    pub next_stream: u64,
    /// nodes whose `open_replication_stream` fails (peer unreachable)
    pub unreachable: HashSet<(u32, u32)>,
    /// every message ever created (for monitors on emitted requests); drained by the harness
    pub emitted: Vec<Msg>,
}

#[derive(Clone, Default)]
pub struct Net(pub Arc<Mutex<NetInner>>);

impl Net {
    pub fn push(
        &self,
        from: u32,
        to: u32,
        stream: u64,
        body: Body,
    ) -> u64 {
        let mut g = self.0.lock().unwrap();
        g.next_id += 1;
        let id = g.next_id;
        let m = Msg {
            id,
            from,
            to,
            stream,
            body,
        };
        g.emitted.push(m.clone());
        g.bag.push(m);
        id
    }
    pub fn take(
        &self,
        id: u64,
    ) -> Option<Msg> {
        let mut g = self.0.lock().unwrap();
        let pos = g.bag.iter().position(|m| m.id == id)?;
        Some(g.bag.remove(pos))
    }
    pub fn peek(
        &self,
        id: u64,
    ) -> Option<Msg> {
        self.0.lock().unwrap().bag.iter().find(|m| m.id == id).cloned()
    }
    pub fn bag(&self) -> Vec<Msg> {
        self.0.lock().unwrap().bag.clone()
    }
    pub fn drain_emitted(&self) -> Vec<Msg> {
        std::mem::take(&mut self.0.lock().unwrap().emitted)
    }
    /// Fail all outstanding vote RPCs of a candidate (its round ends).
    pub fn fail_votes_of(
        &self,
        from: u32,
    ) {
        let mut g = self.0.lock().unwrap();
        let ids: Vec<u64> = g
            .bag
            .iter()
            .filter(|m| m.from == from && matches!(m.body, Body::Vote(_)))
            .map(|m| m.id)
            .collect();
        for id in ids {
            g.vote_waiters.remove(&id);
        }
    }
    /// Break the replication stream leader->peer: the leader's recv task sees an error.
    pub fn break_stream(
        &self,
        leader: u32,
        peer: u32,
    ) -> bool {
        let mut g = self.0.lock().unwrap();
        if let Some((_, tx)) = g.streams.remove(&(leader, peer)) {
            let _ = tx.send(Err(tonic::Status::unavailable("verif: stream broken")));
            true
        } else {
            false
        }
    }
    /// Remove every trace of a crashed node's connections (its waiters and streams).
    pub fn forget_node(
        &self,
        n: u32,
    ) {
        let mut g = self.0.lock().unwrap();
        let keys: Vec<(u32, u32)> =
            g.streams.keys().filter(|(l, p)| *l == n || *p == n).cloned().collect();
        for k in keys {
            if k.0 == n {
                g.streams.remove(&k);
            } else if let Some((_, tx)) = g.streams.remove(&k) {
                // peer died: leader's stream breaks
                let _ = tx.send(Err(tonic::Status::unavailable("verif: peer down")));
            }
        }
        let ids: Vec<u64> = g.bag.iter().filter(|m| m.from == n).map(|m| m.id).collect();
        for id in ids {
            g.vote_waiters.remove(&id);
            g.snap_waiters.remove(&id);
            g.join_waiters.remove(&id);
        }
    }
}

pub struct SimTransport<T: TypeConfig> {
    pub me: u32,
    pub net: Net,
    pub _p: std::marker::PhantomData<fn() -> T>,
}

impl<T: TypeConfig> SimTransport<T> {
    pub fn new(
        me: u32,
        net: Net,
    ) -> Self {
        Self {
            me,
            net,
            _p: Default::default(),
        }
    }
}

fn net_err(s: &str) -> Error {
    Error::System(SystemError::Network(NetworkError::ServiceUnavailable(s.to_string())))
}

#[async_trait]
impl<T: TypeConfig> Transport<T> for SimTransport<T> {
    async fn send_cluster_update(
        &self,
        _r: d_engine_proto::server::cluster::ClusterConfChangeRequest,
        _p: &RetryPolicies,
        _m: Arc<MOF<T>>,
    ) -> Result<ClusterUpdateResult> {
        Err(net_err("verif: send_cluster_update not simulated"))
    }
    async fn send_append_requests(
        &self,
        _r: Vec<(u32, AppendEntriesRequest)>,
        _p: &RetryPolicies,
        _m: Arc<MOF<T>>,
        _c: bool,
    ) -> Result<AppendResult> {
        Err(net_err("verif: send_append_requests not simulated"))
    }
    async fn send_vote_requests(
        &self,
        req: VoteRequest,
        _p: &RetryPolicies,
        membership: Arc<MOF<T>>,
    ) -> Result<VoteResult> {
        // mirrors GrpcTransport::send_vote_requests: peers = membership.voters()
        let peers = membership.voters().await;
        if peers.is_empty() {
            return Err(Error::System(SystemError::Network(NetworkError::EmptyPeerList {
                request_type: "send_vote_requests",
            })));
        }
        let mut rxs = vec![];
        let mut peer_ids = HashSet::new();
        for p in peers {
            if p.id == self.me || peer_ids.contains(&p.id) {
                continue;
            }
            peer_ids.insert(p.id);
            let (tx, rx) = oneshot::channel();
            let id = self.net.push(self.me, p.id, 0, Body::Vote(req));
            self.net.0.lock().unwrap().vote_waiters.insert(id, tx);
            rxs.push(rx);
        }
        let mut responses = vec![];
        for rx in rxs {
            match rx.await {
                Ok(r) => responses.push(r),
                Err(_) => responses.push(Err(net_err("verif: vote rpc failed"))),
            }
        }
        Ok(VoteResult {
            peer_ids,
            responses,
        })
    }
    async fn join_cluster(
        &self,
        leader_id: u32,
        request: JoinRequest,
        _p: BackoffPolicy,
        _m: Arc<MOF<T>>,
    ) -> Result<JoinResponse> {
        let (tx, rx) = oneshot::channel();
        let id = self.net.push(self.me, leader_id, 0, Body::Join(request));
        self.net.0.lock().unwrap().join_waiters.insert(id, tx);
        match rx.await {
            Ok(r) => r,
            Err(_) => Err(net_err("verif: join rpc failed")),
        }
    }
    async fn discover_leader(
        &self,
        _r: d_engine_proto::server::cluster::LeaderDiscoveryRequest,
        _c: bool,
        _m: Arc<MOF<T>>,
    ) -> Result<Vec<d_engine_proto::server::cluster::LeaderDiscoveryResponse>> {
        Err(net_err("verif: discover_leader not simulated"))
    }
    async fn send_append_request(
        &self,
        _peer: u32,
        _r: AppendEntriesRequest,
        _p: &RetryPolicies,
        _m: Arc<MOF<T>>,
        _c: bool,
    ) -> Result<AppendEntriesResponse> {
        Err(net_err("verif: send_append_request not simulated"))
    }
    async fn send_snapshot(
        &self,
        peer: u32,
        metadata: SnapshotMetadata,
        _s: Arc<SMHOF<T>>,
        _mm: Arc<MOF<T>>,
        _c: SnapshotConfig,
    ) -> Result<()> {
        let (tx, rx) = oneshot::channel();
        let id = self.net.push(self.me, peer, 0, Body::Snap(metadata));
        self.net.0.lock().unwrap().snap_waiters.insert(id, tx);
        match rx.await {
            Ok(r) => r,
            Err(_) => Err(net_err("verif: snapshot push failed")),
        }
    }
    async fn request_snapshot_from_leader(
        &self,
        _l: u32,
        _a: mpsc::Receiver<d_engine_proto::server::storage::SnapshotAck>,
        _p: &InstallSnapshotBackoffPolicy,
        _m: Arc<MOF<T>>,
    ) -> Result<mpsc::Receiver<d_engine_proto::server::storage::SnapshotChunk>> {
        Err(net_err("verif: request_snapshot_from_leader not simulated"))
    }
    async fn open_replication_stream(
        &self,
        peer_id: u32,
        _m: Arc<MOF<T>>,
        _c: bool,
    ) -> Result<ReplicationStream> {
        if self.net.0.lock().unwrap().unreachable.contains(&(self.me, peer_id)) {
            return Err(net_err("verif: peer unreachable"));
        }
        let (req_tx, mut req_rx) = mpsc::channel::<AppendEntriesRequest>(1024);
        let (resp_tx, mut resp_rx) = mpsc::unbounded_channel::<ArResult>();
        let sid = {
            let mut g = self.net.0.lock().unwrap();
            g.next_stream += 1;
            let sid = g.next_stream;
            g.streams.insert((self.me, peer_id), (sid, resp_tx));
            sid
        };
        let net = self.net.clone();
        let me = self.me;
        tokio::spawn(async move {
            while let Some(req) = req_rx.recv().await {
                net.push(me, peer_id, sid, Body::Ae(req));
            }
        });
        let receiver = futures::stream::poll_fn(move |cx| resp_rx.poll_recv(cx)).boxed();
        Ok(ReplicationStream {
            sender: req_tx,
            receiver,
        })
    }
}
