use std::io::Write;

/// Run a future on a paused, single-threaded runtime inside a LocalSet.
pub fn run_paused<F: std::future::Future>(f: F) -> F::Output {
    let rt = tokio::runtime::Builder::new_current_thread()
        .enable_all()
        .start_paused(true)
        .build()
        .unwrap();
    let local = tokio::task::LocalSet::new();
    local.block_on(&rt, f)
}

/// Let spawned tasks run until nothing moves any more (no timers are registered).
pub async fn yield_many(n: usize) {
    for _ in 0..n {
        tokio::task::yield_now().await;
    }
}

pub struct NdjsonWriter {
    w: std::io::BufWriter<std::fs::File>,
    pub lines: u64,
}
impl NdjsonWriter {
    pub fn create(path: &str) -> Self {
        Self {
            w: std::io::BufWriter::new(std::fs::File::create(path).expect("create trace file")),
            lines: 0,
        }
    }
    pub fn write(
        &mut self,
        v: &serde_json::Value,
    ) {
        serde_json::to_writer(&mut self.w, v).unwrap();
        self.w.write_all(b"\n").unwrap();
        self.lines += 1;
    }
    pub fn finish(mut self) {
        self.w.flush().unwrap();
    }
}

pub fn seed_from_env() -> u64 {
    std::env::var("VERIF_SEED").ok().and_then(|s| s.parse().ok()).unwrap_or(1)
}
