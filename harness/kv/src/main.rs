//! dv-kv: replays TLC-generated behaviours of spec/KV.tla into the REAL FileStateMachine and
//! RocksDBStateMachine of d-engine and records what the real code shows after every step.
//! The judging is done by TLC (spec/KVTrace.tla); this binary contains no reference semantics.
//!
//! usage: dv-kv replay --schedules <ndjson> --out <ndjson> --scratch <dir> [--jobs N]
//!
//! schedules file: first line {"hdr": {"keys": [[..]..], "prefixes": [[..]..], "tick_ms": n}},
//! then one behaviour per line {"id": "...", "eng": "file"|"rocks", "steps": [step..]}.
use std::collections::VecDeque;
use std::io::Write;
use std::panic::AssertUnwindSafe;
use std::path::{Path, PathBuf};
use std::sync::atomic::AtomicUsize;
use std::sync::{Arc, Mutex};
use std::time::{Duration, Instant};

use bytes::Bytes;
use d_engine_core::config::LeaseConfig;
use d_engine_core::{
    ApplyEntry, Command, DefaultStateMachineHandler, LogSizePolicy, SnapshotConfig, StateMachine,
    StateMachineHandler,
};
use d_engine_proto::server::storage::SnapshotMetadata;
use d_engine_server::node::RaftTypeConfig;
use d_engine_server::storage::{TtlLease, verif_kv_points};
use d_engine_server::{FileStateMachine, FileStorageEngine, RocksDBStateMachine, RocksDBStorageEngine};
use futures::FutureExt;
use serde_json::{Value, json};

type FileTc = RaftTypeConfig<FileStorageEngine, FileStateMachine>;
type RocksTc = RaftTypeConfig<RocksDBStorageEngine, RocksDBStateMachine>;

#[derive(Clone)]
enum Sm {
    File(Arc<FileStateMachine>),
    Rocks(Arc<RocksDBStateMachine>),
}

impl Sm {
    fn d(&self) -> Arc<dyn StateMachine> {
        match self {
            Sm::File(s) => s.clone(),
            Sm::Rocks(s) => s.clone(),
        }
    }
}

fn bytes_of(v: &Value) -> Vec<u8> {
    v.as_array().map(|a| a.iter().map(|x| x.as_i64().unwrap_or(0) as u8).collect()).unwrap_or_default()
}
fn is_absent(v: &Value) -> bool {
    v.as_array().map(|a| a.len() == 1 && a[0].as_i64() == Some(-1)).unwrap_or(true)
}
fn enc(b: &[u8]) -> Value {
    Value::Array(b.iter().map(|x| json!(*x as i64)).collect())
}
fn enc_opt(b: &Option<Bytes>) -> Value {
    match b {
        Some(b) => enc(b),
        None => json!([-1]),
    }
}

/// seconds per TTL unit of the schedules (header field ttl_s)
static TTL_S: std::sync::atomic::AtomicU64 = std::sync::atomic::AtomicU64::new(2);

fn to_command(c: &Value) -> Command {
    let key = Bytes::from(bytes_of(&c["k"]));
    match c["op"].as_str().unwrap_or("") {
        "put" => {
            let ttl = c["ttl"].as_u64().unwrap_or(0) * TTL_S.load(std::sync::atomic::Ordering::Relaxed);
            Command::Insert { key, value: Bytes::from(bytes_of(&c["v"])), ttl_secs: if ttl == 0 { None } else { Some(ttl) } }
        }
        "del" => Command::Delete { key },
        "cas" => Command::CompareAndSwap {
            key,
            expected: if is_absent(&c["e"]) { None } else { Some(Bytes::from(bytes_of(&c["e"]))) },
            value: Bytes::from(bytes_of(&c["v"])),
        },
        _ => Command::Noop,
    }
}

fn listing(dir: &Path, out: &mut Vec<(PathBuf, u64)>) -> std::io::Result<()> {
    for e in std::fs::read_dir(dir)? {
        let e = e?;
        let md = e.metadata()?;
        if md.is_dir() {
            listing(&e.path(), out)?;
        } else {
            out.push((e.path(), md.len()));
        }
    }
    Ok(())
}

/// Copy of a live data directory. RocksDB removes obsolete files (old WAL / MANIFEST) in the background shortly
/// after a flush; the copy is repeated until one pass saw a stable directory (same names and sizes before and
/// after, no file vanished), so that the copy is a state the directory really had.
fn copy_dir(src: &Path, dst: &Path) -> std::io::Result<()> {
    let mut last_err = None;
    for _ in 0..200 {
        let mut before = vec![];
        let r = listing(src, &mut before).and_then(|_| {
            let _ = std::fs::remove_dir_all(dst);
            copy_dir_once(src, dst)
        });
        let mut after = vec![];
        let r = r.and_then(|_| listing(src, &mut after));
        before.sort();
        after.sort();
        match r {
            Ok(()) if before == after => return Ok(()),
            Ok(()) => {}
            Err(e) => last_err = Some(e),
        }
        std::thread::sleep(Duration::from_millis(5));
    }
    Err(last_err.unwrap_or_else(|| std::io::Error::other("directory never stable")))
}

fn copy_dir_once(src: &Path, dst: &Path) -> std::io::Result<()> {
    std::fs::create_dir_all(dst)?;
    for e in std::fs::read_dir(src)? {
        let e = e?;
        let p = e.path();
        let q = dst.join(e.file_name());
        if e.file_type()?.is_dir() {
            copy_dir_once(&p, &q)?;
        } else {
            std::fs::copy(&p, &q)?;
        }
    }
    Ok(())
}

struct Hdr {
    keys: Vec<Vec<u8>>,
    prefixes: Vec<Vec<u8>>,
    tick_ms: u64,
}

struct Run<'a> {
    hdr: &'a Hdr,
    eng: String,
    root: PathBuf,
    generation: usize,
    dir: PathBuf,
    sm: Option<Sm>,
    log: Vec<Value>, // committed commands, index i+1
    snap: Option<(SnapshotMetadata, PathBuf)>,
    start: Instant,
    tick: u64,
}

async fn open(eng: &str, dir: &Path) -> Result<Sm, String> {
    let lease = Arc::new(TtlLease::new(LeaseConfig::default()));
    let sm = if eng == "file" {
        let mut s = FileStateMachine::new(dir.to_path_buf()).await.map_err(|e| format!("open: {e:?}"))?;
        s.set_lease(lease);
        Sm::File(Arc::new(s))
    } else {
        let mut s = RocksDBStateMachine::new(dir).map_err(|e| format!("open: {e:?}"))?;
        s.set_lease(lease);
        Sm::Rocks(Arc::new(s))
    };
    sm.d().start().await.map_err(|e| format!("start: {e:?}"))?;
    Ok(sm)
}

impl<'a> Run<'a> {
    fn sm(&self) -> Sm {
        self.sm.clone().expect("engine instance")
    }

    fn next_dir(&mut self) -> PathBuf {
        self.generation += 1;
        self.root.join(format!("g{}", self.generation))
    }

    fn entries(&self, first_index: u64, cmds: &[Value]) -> Vec<ApplyEntry> {
        cmds.iter()
            .enumerate()
            .map(|(i, c)| ApplyEntry { index: first_index + i as u64, term: 1, command: to_command(c) })
            .collect()
    }

    fn scan_json(sm: &Arc<dyn StateMachine>, p: &[u8]) -> Value {
        match sm.scan_prefix(p) {
            Ok(r) => json!({"e": r.entries.iter().map(|(k, v)| json!([enc(k), enc(v)])).collect::<Vec<_>>(), "rev": r.revision}),
            Err(e) => json!({"e": [], "rev": -1, "err": format!("{e:?}")}),
        }
    }

    fn observe(&self) -> Value {
        let sm = self.sm().d();
        let mut errs: Vec<String> = vec![];
        let get: Vec<Value> = self
            .hdr
            .keys
            .iter()
            .map(|k| match sm.get(k) {
                Ok(v) => enc_opt(&v),
                Err(e) => {
                    errs.push(format!("get: {e:?}"));
                    json!([-2])
                }
            })
            .collect();
        let keys: Vec<Bytes> = self.hdr.keys.iter().map(|k| Bytes::from(k.clone())).collect();
        let multi: Value = match sm.get_multi(&keys) {
            Ok(v) => Value::Array(v.iter().map(enc_opt).collect()),
            Err(e) => {
                errs.push(format!("get_multi: {e:?}"));
                json!([])
            }
        };
        let scan: Vec<Value> = self.hdr.prefixes.iter().map(|p| Self::scan_json(&sm, p)).collect();
        json!({"get": get, "multi": multi, "scan": scan, "applied": sm.last_applied().index, "len": sm.len(), "errs": errs})
    }

    /// process-crash semantics: everything written so far survives; the instance is abandoned
    /// (its Drop writes only into the abandoned directory) and a fresh instance opens the copy.
    async fn restart_on(&mut self, copy: PathBuf) -> Result<(), String> {
        self.sm = None; // abandoned instance dropped here, after the copy was taken
        self.dir = copy;
        self.sm = Some(open(&self.eng, &self.dir).await?);
        Ok(())
    }

    async fn apply_plain(&mut self, first: u64, cmds: &[Value]) -> Result<Value, String> {
        let ents = self.entries(first, cmds);
        let res = self.sm().d().apply_chunk(&ents).await.map_err(|e| format!("apply_chunk: {e:?}"))?;
        Ok(json!({"flags": res.iter().map(|r| r.succeeded).collect::<Vec<_>>(),
                  "idx": res.iter().map(|r| r.index).collect::<Vec<_>>()}))
    }

    /// runs `fut`-producing operation with a crash point: the data directory is copied when the
    /// engine reaches `site`; afterwards the copy is reopened with a fresh instance.
    fn arm_crash(&mut self, site: String) -> (PathBuf, Arc<Mutex<Option<String>>>) {
        let copy = self.next_dir();
        let src = self.dir.clone();
        let dst = copy.clone();
        let state: Arc<Mutex<Option<String>>> = Arc::new(Mutex::new(None));
        let st2 = state.clone();
        verif_kv_points::set(Some(Box::new(move |s: &'static str| {
            if s == site && st2.lock().unwrap().is_none() {
                let r = copy_dir(&src, &dst);
                *st2.lock().unwrap() = Some(match r {
                    Ok(()) => "ok".to_string(),
                    Err(e) => format!("TOOL: copy failed: {e}"),
                });
            }
        })));
        (copy, state)
    }

    async fn step(&mut self, st: &Value) -> Result<Value, String> {
        let t = st["t"].as_str().unwrap_or("");
        let mut out = json!({});
        match t {
            "init" => {}
            "apply" => {
                let cmds: Vec<Value> = st["cmds"].as_array().cloned().unwrap_or_default();
                let first = self.log.len() as u64 + 1;
                self.log.extend(cmds.iter().cloned());
                if let Some(site) = st["crashat"].as_str() {
                    let (copy, state) = self.arm_crash(site.to_string());
                    let r = self.apply_plain(first, &cmds).await;
                    verif_kv_points::set(None);
                    out = r?;
                    let hit = state.lock().unwrap().clone();
                    match hit {
                        Some(s) if s == "ok" => {
                            self.restart_on(copy).await?;
                            out["crashed"] = json!(true);
                        }
                        Some(s) => return Err(s),
                        None => out["crashed"] = json!(false), // point not reached on this engine
                    }
                } else {
                    out = self.apply_plain(first, &cmds).await?;
                }
            }
            "ckpt" => {
                if let Some(site) = st["crashat"].as_str() {
                    let (copy, state) = self.arm_crash(site.to_string());
                    let r = self.sm().d().flush_async().await;
                    verif_kv_points::set(None);
                    r.map_err(|e| format!("flush_async: {e:?}"))?;
                    let hit = state.lock().unwrap().clone();
                    match hit {
                        Some(s) if s == "ok" => {
                            self.restart_on(copy).await?;
                            out["crashed"] = json!(true);
                        }
                        Some(s) => return Err(s),
                        None => out["crashed"] = json!(false),
                    }
                } else {
                    self.sm().d().flush_async().await.map_err(|e| format!("flush_async: {e:?}"))?;
                }
            }
            "crash" => {
                let copy = self.next_dir();
                copy_dir(&self.dir, &copy).map_err(|e| format!("TOOL: copy: {e}"))?;
                self.restart_on(copy).await?;
                out["crashed"] = json!(true);
            }
            "stop" => {
                // graceful: stop() then drop, reopen the same directory
                self.sm().d().stop().map_err(|e| format!("stop: {e:?}"))?;
                self.sm = None;
                self.sm = Some(open(&self.eng, &self.dir).await?);
            }
            "reapply" | "replay" => {
                // what the Raft layer does after a restart / snapshot install: deliver the committed
                // entries above the index the state machine reports
                let r = self.sm().d().last_applied().index as usize;
                let n = self.log.len();
                let mode = st["mode"].as_str().unwrap_or("one");
                let mut flags: Vec<Value> = vec![];
                out["from"] = json!(r + 1);
                if r < n {
                    let cmds: Vec<Value> = self.log[r..n].to_vec();
                    if mode == "each" {
                        for (i, c) in cmds.iter().enumerate() {
                            let o = self.apply_plain((r + 1 + i) as u64, std::slice::from_ref(c)).await?;
                            flags.extend(o["flags"].as_array().cloned().unwrap_or_default());
                        }
                    } else {
                        let o = self.apply_plain((r + 1) as u64, &cmds).await?;
                        flags = o["flags"].as_array().cloned().unwrap_or_default();
                    }
                }
                out["flags"] = Value::Array(flags);
            }
            "scanc" => {
                // a scan and an apply of the next entries overlapping at the engine's window `w`
                let cmds: Vec<Value> = st["cmds"].as_array().cloned().unwrap_or_default();
                let first = self.log.len() as u64 + 1;
                self.log.extend(cmds.iter().cloned());
                let prefix = bytes_of(&st["p"]);
                let w = st["w"].as_str().unwrap_or("").to_string();
                let ents = self.entries(first, &cmds);
                let sm = self.sm().d();
                let slot: Arc<Mutex<Option<Value>>> = Arc::new(Mutex::new(None));
                if w == "rocks.scan.after_iter" {
                    // the apply happens inside the scan's window
                    let sm2 = sm.clone();
                    let slot2 = slot.clone();
                    verif_kv_points::set(Some(Box::new(move |s: &'static str| {
                        if s == "rocks.scan.after_iter" && slot2.lock().unwrap().is_none() {
                            let r = futures::executor::block_on(sm2.apply_chunk(&ents));
                            *slot2.lock().unwrap() = Some(match r {
                                Ok(res) => json!({"flags": res.iter().map(|r| r.succeeded).collect::<Vec<_>>()}),
                                Err(e) => json!({"err": format!("{e:?}")}),
                            });
                        }
                    })));
                    let sc = Self::scan_json(&sm, &prefix);
                    verif_kv_points::set(None);
                    let inner = slot.lock().unwrap().clone();
                    match inner {
                        Some(v) => {
                            if let Some(e) = v.get("err") {
                                return Err(format!("apply in scan window: {e}"));
                            }
                            out["flags"] = v["flags"].clone();
                            out["win"] = json!(true);
                        }
                        None => {
                            // window not reached (e.g. empty-prefix fast path): apply afterwards
                            let o = self.apply_plain(first, &cmds).await?;
                            out["flags"] = o["flags"].clone();
                            out["win"] = json!(false);
                        }
                    }
                    out["sc"] = sc;
                } else {
                    // the scan happens inside the apply's window
                    let sm2 = sm.clone();
                    let slot2 = slot.clone();
                    let w2 = w.clone();
                    verif_kv_points::set(Some(Box::new(move |s: &'static str| {
                        if s == w2 && slot2.lock().unwrap().is_none() {
                            *slot2.lock().unwrap() = Some(Self::scan_json(&sm2, &prefix));
                        }
                    })));
                    let r = self.apply_plain(first, &cmds).await;
                    verif_kv_points::set(None);
                    let o = r?;
                    out["flags"] = o["flags"].clone();
                    let inner = slot.lock().unwrap().clone();
                    match inner {
                        Some(v) => {
                            out["sc"] = v;
                            out["win"] = json!(true);
                        }
                        None => {
                            out["sc"] = Self::scan_json(&sm, &bytes_of(&st["p"]));
                            out["win"] = json!(false);
                        }
                    }
                }
            }
            "snap" => {
                let retained = st["retained"].as_u64().unwrap_or(1);
                let sdir = self.root.join(format!("snaps{}", self.generation));
                std::fs::create_dir_all(&sdir).map_err(|e| e.to_string())?;
                let mut cfg = SnapshotConfig::default();
                cfg.enable = true;
                cfg.retained_log_entries = retained;
                cfg.snapshots_dir = sdir.clone();
                let applied = self.sm().d().last_applied().index;
                let pol = LogSizePolicy::new(1000, Duration::from_secs(0));
                let cnt = Arc::new(AtomicUsize::new(0));
                // the label is computed by the real DefaultStateMachineHandler::create_snapshot, which
                // calls the engine's generate_snapshot_data
                let (meta, _archive) = match self.sm() {
                    Sm::File(s) => DefaultStateMachineHandler::<FileTc>::new(1, applied, s, cfg, pol, None, cnt)
                        .create_snapshot()
                        .await,
                    Sm::Rocks(s) => DefaultStateMachineHandler::<RocksTc>::new(1, applied, s, cfg, pol, None, cnt)
                        .create_snapshot()
                        .await,
                }
                .map_err(|e| format!("create_snapshot: {e:?}"))?;
                // create_snapshot keeps only the compressed archive; the directory form needed by
                // apply_snapshot_from_file is produced by the same engine call with the same label
                let li = meta.last_included.ok_or("snapshot without last_included")?;
                let ddir = self.root.join(format!("snapdir{}", self.generation));
                self.sm().d().generate_snapshot_data(ddir.clone(), li).await.map_err(|e| format!("generate_snapshot_data: {e:?}"))?;
                out["label"] = json!(li.index);
                self.snap = Some((meta, ddir));
            }
            "install" => {
                let (meta, ddir) = self.snap.clone().ok_or("no snapshot")?;
                // a different node: fresh, empty engine instance
                let nd = self.next_dir();
                self.sm = None;
                self.dir = nd;
                std::fs::create_dir_all(&self.dir).map_err(|e| e.to_string())?;
                self.sm = Some(open(&self.eng, &self.dir).await?);
                // the engines consume (hard-link / move) the files: install from a private copy
                let priv_copy = self.next_dir();
                copy_dir(&ddir, &priv_copy).map_err(|e| format!("TOOL: copy: {e}"))?;
                self.sm().d().apply_snapshot_from_file(&meta, priv_copy).await.map_err(|e| format!("apply_snapshot_from_file: {e:?}"))?;
                out["label"] = json!(meta.last_included.map(|l| l.index).unwrap_or(0));
            }
            "tick" => {
                self.tick += 1;
                let target = Duration::from_millis(self.tick * self.hdr.tick_ms);
                let el = self.start.elapsed();
                if target > el {
                    tokio::time::sleep(target - el).await;
                }
            }
            "cleanup" => {
                let r = self.sm().d().lease_background_cleanup().await.map_err(|e| format!("cleanup: {e:?}"))?;
                out["removed"] = Value::Array(r.iter().map(|k| enc(k)).collect());
            }
            other => return Err(format!("TOOL: unknown step {other}")),
        }
        Ok(out)
    }
}

async fn run_behaviour(hdr: &Hdr, b: &Value, scratch: &Path) -> Vec<Value> {
    let id = b["id"].as_str().unwrap_or("?").to_string();
    let eng = b["eng"].as_str().unwrap_or("file").to_string();
    let root = scratch.join(id.replace('/', "_"));
    let _ = std::fs::remove_dir_all(&root);
    let mut recs = vec![];
    let mut run = Run {
        hdr,
        eng: eng.clone(),
        root: root.clone(),
        generation: 0,
        dir: root.join("g0"),
        sm: None,
        log: vec![],
        snap: None,
        start: Instant::now(),
        tick: 0,
    };
    let mk = |i: usize, a: Value, res: Value, obs: Value, run: &Run| -> Value {
        let within = run.start.elapsed().as_millis() as i64 - (run.tick * hdr.tick_ms) as i64;
        json!({"id": id, "eng": eng, "i": i, "a": a, "res": res, "obs": obs, "tick": run.tick, "ms": within})
    };
    let _ = std::fs::create_dir_all(&run.dir);
    match open(&eng, &run.dir).await {
        Ok(sm) => run.sm = Some(sm),
        Err(e) => {
            recs.push(json!({"id": id, "eng": eng, "i": 0, "a": {"t": "init"}, "res": {"err": e}, "obs": {}, "tick": 0, "ms": 0}));
            return recs;
        }
    }
    run.start = Instant::now();
    recs.push(mk(0, json!({"t": "init"}), json!({}), run.observe(), &run));
    let steps = b["steps"].as_array().cloned().unwrap_or_default();
    for (i, st) in steps.iter().enumerate() {
        let r = AssertUnwindSafe(run.step(st)).catch_unwind().await;
        verif_kv_points::set(None);
        match r {
            Ok(Ok(res)) => {
                let obs = match std::panic::catch_unwind(AssertUnwindSafe(|| run.observe())) {
                    Ok(o) => o,
                    Err(_) => {
                        recs.push(mk(i + 1, st.clone(), json!({"err": "panic in observation"}), json!({}), &run));
                        break;
                    }
                };
                recs.push(mk(i + 1, st.clone(), res, obs, &run));
            }
            Ok(Err(e)) => {
                let key = if e.starts_with("TOOL:") { "toolerr" } else { "err" };
                recs.push(mk(i + 1, st.clone(), json!({key: e}), json!({}), &run));
                break;
            }
            Err(p) => {
                let msg = p.downcast_ref::<String>().cloned().or_else(|| p.downcast_ref::<&str>().map(|s| s.to_string())).unwrap_or_default();
                recs.push(mk(i + 1, st.clone(), json!({"err": format!("panic: {msg}")}), json!({}), &run));
                break;
            }
        }
    }
    run.sm = None;
    drop(run);
    let _ = std::fs::remove_dir_all(&root);
    recs
}

fn arg(args: &[String], name: &str) -> Option<String> {
    args.iter().position(|a| a == name).and_then(|i| args.get(i + 1).cloned())
}

fn main() {
    let args: Vec<String> = std::env::args().collect();
    if args.get(1).map(|s| s.as_str()) != Some("replay") {
        eprintln!("usage: dv-kv replay --schedules <ndjson> --out <ndjson> --scratch <dir> [--jobs N]");
        std::process::exit(2);
    }
    let sched = arg(&args, "--schedules").expect("--schedules");
    let outp = arg(&args, "--out").expect("--out");
    let scratch = PathBuf::from(arg(&args, "--scratch").expect("--scratch"));
    let jobs: usize = arg(&args, "--jobs").and_then(|s| s.parse().ok()).unwrap_or(4);
    std::panic::set_hook(Box::new(|_| {})); // panics of the code under test are recorded as data
    let text = std::fs::read_to_string(&sched).expect("read schedules");
    let mut lines = text.lines().filter(|l| !l.trim().is_empty());
    let h: Value = serde_json::from_str(lines.next().expect("header line")).expect("header json");
    let hdr = Arc::new(Hdr {
        keys: h["hdr"]["keys"].as_array().map(|a| a.iter().map(bytes_of).collect()).unwrap_or_default(),
        prefixes: h["hdr"]["prefixes"].as_array().map(|a| a.iter().map(bytes_of).collect()).unwrap_or_default(),
        tick_ms: h["hdr"]["tick_ms"].as_u64().unwrap_or(4000),
    });
    TTL_S.store(h["hdr"]["ttl_s"].as_u64().unwrap_or(2), std::sync::atomic::Ordering::Relaxed);
    let queue: Arc<Mutex<VecDeque<(usize, Value)>>> = Arc::new(Mutex::new(
        lines.enumerate().map(|(i, l)| (i, serde_json::from_str::<Value>(l).expect("schedule json"))).collect(),
    ));
    let total = queue.lock().unwrap().len();
    let results: Arc<Mutex<Vec<Option<Vec<Value>>>>> = Arc::new(Mutex::new(vec![None; total]));
    std::fs::create_dir_all(&scratch).expect("scratch");
    let mut handles = vec![];
    // timed (TTL) behaviours: spread the workers over one tick so that their tick boundaries do not coincide
    let timed = text.contains("\"t\":\"tick\"") || text.contains("\"t\": \"tick\"");
    for w in 0..jobs.max(1) {
        let stagger = if timed { Duration::from_millis(hdr.tick_ms * w as u64 / jobs.max(1) as u64) } else { Duration::ZERO };
        let q = queue.clone();
        let res = results.clone();
        let hdr = hdr.clone();
        let scratch = scratch.clone();
        handles.push(std::thread::spawn(move || {
            let rt = tokio::runtime::Builder::new_current_thread().enable_all().build().expect("rt");
            std::thread::sleep(stagger);
            loop {
                let item = q.lock().unwrap().pop_front();
                let Some((i, b)) = item else { break };
                let recs = rt.block_on(run_behaviour(&hdr, &b, &scratch));
                res.lock().unwrap()[i] = Some(recs);
            }
        }));
    }
    for h in handles {
        h.join().expect("worker");
    }
    let mut f = std::io::BufWriter::new(std::fs::File::create(&outp).expect("out"));
    for r in results.lock().unwrap().iter() {
        for rec in r.as_ref().expect("behaviour result") {
            writeln!(f, "{}", rec).unwrap();
        }
    }
    f.flush().unwrap();
}
