//! dv-snapxfer: feeds TLC-generated chunk streams (spec/SnapXfer.tla) through a real tokio channel
//! into the real `DefaultStateMachineHandler::apply_snapshot_stream_from_leader` and records what
//! the receiver's durable state (state machine, snapshot directory) looks like at every poll
//! boundary of the receiver future and at the end of every attempt.
//!
//! Nothing of the code under test is re-implemented here: the chunk streams come from the real
//! sender (`create_snapshot` + `load_snapshot_data` of a leader-side handler), the faults are edits of
//! those chunks dictated by the TLC behaviour, the receiver is the production handler + assembler.
use std::collections::BTreeMap;
use std::fmt::Debug;
use std::future::Future;
use std::marker::PhantomData;
use std::path::{Path, PathBuf};
use std::pin::Pin;
use std::sync::atomic::{AtomicBool, AtomicU8, AtomicUsize, Ordering};
use std::sync::{Arc, Mutex};
use std::task::{Context, Poll};
use std::time::Duration;

use async_trait::async_trait;
use bytes::Bytes;
use d_engine_core::*;
use d_engine_proto::common::LogId;
use d_engine_proto::server::storage::snapshot_ack::ChunkStatus;
use d_engine_proto::server::storage::{SnapshotAck, SnapshotChunk, SnapshotMetadata};
use d_engine_server::FileStateMachine;
use d_engine_server::verif_exports::RaftMembership;
use dv_common::mem::{MemEngine, MemSm};
use dv_common::net::SimTransport;
use dv_common::util::{NdjsonWriter, run_paused};
use futures::StreamExt;
use serde_json::{Value, json};
use tokio::sync::mpsc;

type R<T> = std::result::Result<T, Error>;

// ---------------------------------------------------------------------------------------------
// State machine kinds + probe wrapper
// ---------------------------------------------------------------------------------------------
#[async_trait(?Send)]
trait Kind: Debug + Send + Sync + Sized + 'static {
    type S: StateMachine + Debug;
    const NAME: &'static str;
    async fn open(dir: &Path) -> Arc<Self::S>;
    /// what a restarted process finds after the old instance died (process-crash semantics)
    async fn reopen(
        old: &Arc<Self::S>,
        dir: &Path,
    ) -> Arc<Self::S>;
}

#[derive(Debug)]
struct MemKind;
#[async_trait(?Send)]
impl Kind for MemKind {
    type S = MemSm;
    const NAME: &'static str = "mem";
    async fn open(_dir: &Path) -> Arc<MemSm> {
        Arc::new(MemSm::new())
    }
    async fn reopen(
        old: &Arc<MemSm>,
        _dir: &Path,
    ) -> Arc<MemSm> {
        Arc::new(old.crash_image())
    }
}

#[derive(Debug)]
struct FileKind;
#[async_trait(?Send)]
impl Kind for FileKind {
    type S = FileStateMachine;
    const NAME: &'static str = "file";
    async fn open(dir: &Path) -> Arc<FileStateMachine> {
        Arc::new(FileStateMachine::new(dir.to_path_buf()).await.expect("open FileStateMachine"))
    }
    async fn reopen(
        _old: &Arc<FileStateMachine>,
        dir: &Path,
    ) -> Arc<FileStateMachine> {
        Self::open(dir).await
    }
}

/// 0 = no crash point armed, 1 = at the entry of apply_snapshot_from_file, 2 = right after it
#[derive(Default)]
struct ProbeCtl {
    crash_at: AtomicU8,
    hit: AtomicBool,
    apply_calls: AtomicUsize,
    /// observation callback, run at the entry and at the exit of apply_snapshot_from_file
    note: Mutex<Option<Arc<dyn Fn() + Send + Sync>>>,
}
impl Debug for ProbeCtl {
    fn fmt(
        &self,
        f: &mut std::fmt::Formatter<'_>,
    ) -> std::fmt::Result {
        write!(f, "ProbeCtl")
    }
}
impl ProbeCtl {
    fn note(&self) {
        let cb = self.note.lock().unwrap().clone();
        if let Some(cb) = cb {
            cb();
        }
    }
}

/// Delegating wrapper: the only thing it adds is the crash point around apply_snapshot_from_file.
#[derive(Debug)]
struct Probe<S: StateMachine + Debug> {
    inner: Arc<S>,
    ctl: Arc<ProbeCtl>,
}

#[async_trait]
impl<S: StateMachine + Debug> StateMachine for Probe<S> {
    async fn start(&self) -> R<()> {
        self.inner.start().await
    }
    fn stop(&self) -> R<()> {
        self.inner.stop()
    }
    fn is_running(&self) -> bool {
        self.inner.is_running()
    }
    fn get(
        &self,
        k: &[u8],
    ) -> R<Option<Bytes>> {
        self.inner.get(k)
    }
    fn entry_term(
        &self,
        i: u64,
    ) -> Option<u64> {
        self.inner.entry_term(i)
    }
    async fn apply_chunk(
        &self,
        chunk: &[ApplyEntry],
    ) -> R<Vec<ApplyResult>> {
        self.inner.apply_chunk(chunk).await
    }
    fn len(&self) -> usize {
        self.inner.len()
    }
    fn update_last_applied(
        &self,
        l: LogId,
    ) {
        self.inner.update_last_applied(l)
    }
    fn last_applied(&self) -> LogId {
        self.inner.last_applied()
    }
    fn persist_last_applied(
        &self,
        l: LogId,
    ) -> R<()> {
        self.inner.persist_last_applied(l)
    }
    fn update_last_snapshot_metadata(
        &self,
        m: &SnapshotMetadata,
    ) -> R<()> {
        self.inner.update_last_snapshot_metadata(m)
    }
    fn snapshot_metadata(&self) -> Option<SnapshotMetadata> {
        self.inner.snapshot_metadata()
    }
    fn persist_last_snapshot_metadata(
        &self,
        m: &SnapshotMetadata,
    ) -> R<()> {
        self.inner.persist_last_snapshot_metadata(m)
    }
    async fn apply_snapshot_from_file(
        &self,
        metadata: &SnapshotMetadata,
        snapshot_path: PathBuf,
    ) -> R<()> {
        self.ctl.apply_calls.fetch_add(1, Ordering::SeqCst);
        self.ctl.note();
        if self.ctl.crash_at.load(Ordering::SeqCst) == 1 {
            self.ctl.hit.store(true, Ordering::SeqCst);
            std::future::pending::<()>().await;
        }
        let r = self.inner.apply_snapshot_from_file(metadata, snapshot_path).await;
        self.ctl.note();
        if self.ctl.crash_at.load(Ordering::SeqCst) == 2 {
            self.ctl.hit.store(true, Ordering::SeqCst);
            std::future::pending::<()>().await;
        }
        r
    }
    async fn generate_snapshot_data(
        &self,
        d: PathBuf,
        l: LogId,
    ) -> R<Bytes> {
        self.inner.generate_snapshot_data(d, l).await
    }
    fn save_hard_state(&self) -> R<()> {
        self.inner.save_hard_state()
    }
    fn flush(&self) -> R<()> {
        self.inner.flush()
    }
    async fn flush_async(&self) -> R<()> {
        self.inner.flush_async().await
    }
    async fn reset(&self) -> R<()> {
        self.inner.reset().await
    }
    fn scan_prefix(
        &self,
        p: &[u8],
    ) -> R<ScanResult> {
        self.inner.scan_prefix(p)
    }
}

#[derive(Debug)]
struct Tc<K: Kind>(PhantomData<K>);
impl<K: Kind> TypeConfig for Tc<K> {
    type SE = MemEngine;
    type SM = Probe<K::S>;
    type R = BufferedRaftLog<Self>;
    type M = RaftMembership<Self>;
    type TR = SimTransport<Self>;
    type E = ElectionHandler<Self>;
    type REP = ReplicationHandler<Self>;
    type C = DefaultCommitHandler<Self>;
    type SMH = DefaultStateMachineHandler<Self>;
    type SNP = LogSizePolicy;
    type PE = DefaultPurgeExecutor<Self>;
}
type Smh<K> = DefaultStateMachineHandler<Tc<K>>;

fn snap_cfg(
    dir: &Path,
    chunk_size: usize,
) -> SnapshotConfig {
    let mut c = SnapshotConfig::default();
    c.snapshots_dir = dir.to_path_buf();
    c.retained_log_entries = 0;
    c.chunk_size = chunk_size;
    c.receive_chunk_timeout_in_sec = 1;
    c.max_bandwidth_mbps = 0;
    c
}

fn handler<K: Kind>(
    node_id: u32,
    sm: Arc<Probe<K::S>>,
    cfg: SnapshotConfig,
) -> Arc<Smh<K>> {
    let policy = LogSizePolicy::new(
        cfg.max_log_entries_before_snapshot,
        cfg.snapshot_cool_down_since_last_check,
    );
    let la = sm.last_applied().index;
    Arc::new(Smh::<K>::new(node_id, la, sm, cfg, policy, None, Arc::new(AtomicUsize::new(0))))
}

// ---------------------------------------------------------------------------------------------
// Fixed data of a run: the three state-machine contents and the leader's snapshot files
// ---------------------------------------------------------------------------------------------
fn value(
    tag: &str,
    i: u64,
) -> Bytes {
    value_n(tag, i, 40)
}

fn value_n(
    tag: &str,
    i: u64,
    rounds: usize,
) -> Bytes {
    // incompressible-ish deterministic payload so that the archives are a few KB
    let mut x = 0x9E3779B97F4A7C15u64 ^ (i.wrapping_mul(0x100000001B3)) ^ (tag.len() as u64) << 32;
    for b in tag.bytes() {
        x = x.rotate_left(7) ^ b as u64;
    }
    let mut s = String::with_capacity(700);
    s.push_str(tag);
    for _ in 0..rounds {
        x ^= x << 13;
        x ^= x >> 7;
        x ^= x << 17;
        s.push_str(&format!("{x:016x}"));
    }
    Bytes::from(s)
}

/// (key, value) per log index; entry i of content `tag` at term `term`
fn content(
    tag: &str,
    count: u64,
    base: u64,
    rounds: usize,
) -> Vec<(Bytes, Bytes)> {
    (1..=count).map(|i| (Bytes::from(format!("k{:02}", base + i)), value_n(tag, i, rounds))).collect()
}

async fn populate<S: StateMachine>(
    sm: &S,
    kv: &[(Bytes, Bytes)],
    term: u64,
) {
    let entries: Vec<ApplyEntry> = kv
        .iter()
        .enumerate()
        .map(|(i, (k, v))| ApplyEntry {
            index: i as u64 + 1,
            term,
            command: Command::Insert {
                key: k.clone(),
                value: v.clone(),
                ttl_secs: None,
            },
        })
        .collect();
    sm.apply_chunk(&entries).await.expect("populate");
}

struct SnapRef {
    bytes: Vec<u8>,
    kv: Vec<(Bytes, Bytes)>,
    li: LogId,
    /// chunks as produced by the real sender for n = 1..=4 (index n-1)
    chunks: Vec<Vec<SnapshotChunk>>,
}

struct Fixture {
    old_kv: Vec<(Bytes, Bytes)>,
    old_li: LogId,
    prev_bytes: Vec<u8>,
    prev_name: String,
    a: SnapRef,
    b: SnapRef,
    universe: Vec<Bytes>,
}

async fn make_snapshot<K: Kind>(
    root: &Path,
    tag: &str,
    kv: Vec<(Bytes, Bytes)>,
    term: u64,
    max_chunks: usize,
) -> (SnapRef, String) {
    let dir = root.join(format!("leader-{tag}"));
    std::fs::create_dir_all(dir.join("snaps")).unwrap();
    let sm = K::open(&dir.join("sm")).await;
    populate(&*sm, &kv, term).await;
    let probe = Arc::new(Probe {
        inner: sm,
        ctl: Arc::new(ProbeCtl::default()),
    });
    let h = handler::<K>(1, probe.clone(), snap_cfg(&dir.join("snaps"), 1024));
    let (meta, path) = h.create_snapshot().await.expect("leader create_snapshot");
    let bytes = std::fs::read(&path).unwrap();
    let li = meta.last_included.unwrap();
    let mut chunks = vec![];
    for n in 1..=max_chunks {
        let cs = bytes.len().div_ceil(n);
        let hn = handler::<K>(1, probe.clone(), snap_cfg(&dir.join("snaps"), cs));
        let mut st = hn.load_snapshot_data(meta.clone()).await.expect("load_snapshot_data");
        let mut v = vec![];
        while let Some(c) = st.next().await {
            v.push(c.expect("sender chunk"));
        }
        assert_eq!(v.len(), n, "sender produced {} chunks for n={}", v.len(), n);
        chunks.push(v);
    }
    let name = path.file_name().unwrap().to_string_lossy().to_string();
    (SnapRef {
        bytes,
        kv,
        li,
        chunks,
    }, name)
}

async fn fixture<K: Kind>(
    root: &Path,
    max_chunks: usize,
) -> Fixture {
    let old_kv = vec![
        (Bytes::from("k01"), value("old", 1)),
        (Bytes::from("k02"), value("old", 2)),
        (Bytes::from("k03"), value("old", 3)),
    ];
    let (prev, prev_name) = make_snapshot::<K>(root, "prev", old_kv.clone(), 1, 1).await;
    let (a, an) = make_snapshot::<K>(root, "A", content("A", 5, 10, 40), 2, max_chunks).await;
    let (b, bn) = make_snapshot::<K>(root, "B", content("B", 7, 20, 1), 2, max_chunks).await;
    assert_eq!(prev_name, "snapshot-3-1.tar.gz");
    assert_eq!(an, "snapshot-5-2.tar.gz");
    assert_eq!(bn, "snapshot-7-2.tar.gz");
    let universe = (0..40u32).map(|i| Bytes::from(format!("k{i:02}"))).collect();
    Fixture {
        old_kv,
        old_li: prev.li,
        prev_bytes: prev.bytes,
        prev_name,
        a,
        b,
        universe,
    }
}

// ---------------------------------------------------------------------------------------------
// Observation of the durable state
// ---------------------------------------------------------------------------------------------
struct Observer<K: Kind> {
    fx: Arc<Fixture>,
    snaps: PathBuf,
    sm: Arc<Probe<K::S>>,
    meta0: Option<LogId>,
}

impl<K: Kind> Observer<K> {
    fn sm_class(&self) -> String {
        let mut kv = vec![];
        for k in &self.fx.universe {
            if let Ok(Some(v)) = self.sm.get(k) {
                kv.push((k.clone(), v));
            }
        }
        let la = self.sm.last_applied();
        let meta = self.sm.snapshot_metadata().and_then(|m| m.last_included);
        let n = self.sm.len();
        let is = |r: &[(Bytes, Bytes)]| kv.as_slice() == r && n == r.len();
        // "state" = contents + last applied id; the snapshot metadata label is recorded separately
        let _ = self.meta0;
        if is(&self.fx.old_kv) && la == self.fx.old_li {
            "old".into()
        } else if is(&self.fx.a.kv) && la == self.fx.a.li {
            "A".into()
        } else if is(&self.fx.b.kv) && la == self.fx.b.li {
            "B".into()
        } else {
            let kc = if is(&self.fx.old_kv) {
                "old"
            } else if is(&self.fx.a.kv) {
                "A"
            } else if is(&self.fx.b.kv) {
                "B"
            } else {
                "mixed"
            };
            format!("other(kv={kc},len={n},applied={}.{},meta={:?})", la.index, la.term, meta.map(|m| (m.index, m.term)))
        }
    }

    /// (durable state as the spec sees it, temp file present, unexpected directory entries)
    fn observe(&self) -> (Value, bool, Vec<String>) {
        let mut files = BTreeMap::new();
        for f in ["prev", "A", "B"] {
            files.insert(f.to_string(), "absent".to_string());
        }
        let mut tmp = false;
        let mut extra = vec![];
        if let Ok(rd) = std::fs::read_dir(&self.snaps) {
            for e in rd.flatten() {
                let name = e.file_name().to_string_lossy().to_string();
                let (logical, reference): (&str, &[u8]) = if name == self.fx.prev_name {
                    ("prev", &self.fx.prev_bytes)
                } else if name == "snapshot-5-2.tar.gz" {
                    ("A", &self.fx.a.bytes)
                } else if name == "snapshot-7-2.tar.gz" {
                    ("B", &self.fx.b.bytes)
                } else if name == "temp-snapshot.part.tar.gz" {
                    tmp = true;
                    continue;
                } else {
                    extra.push(name);
                    continue;
                };
                let class = match std::fs::read(e.path()) {
                    Ok(b) if b == reference => "ok",
                    _ => "bad",
                };
                files.insert(logical.to_string(), class.to_string());
            }
        }
        extra.sort();
        (json!({"files": files, "sm": self.sm_class()}), tmp, extra)
    }
}

enum Outcome {
    Done(R<()>),
    /// crash point of the probe reached / poll-boundary cut reached
    Crashed,
    /// the code under test panicked (recorded and judged like any other outcome)
    Panicked(String),
}

/// Polls the receiver future; before every poll and after completion the durable state is
/// observed (each poll boundary is a point where the process could die).
struct Observed<K: Kind, F: Future<Output = R<()>>> {
    inner: Option<Pin<Box<F>>>,
    obs: Arc<Observer<K>>,
    ctl: Arc<ProbeCtl>,
    profile: Arc<Mutex<Vec<Value>>>,
    polls: Arc<AtomicUsize>,
    cut_at: Option<usize>,
}

impl<K: Kind, F: Future<Output = R<()>>> Observed<K, F> {
    fn note(&self) {
        let (d, _, _) = self.obs.observe();
        let mut p = self.profile.lock().unwrap();
        if p.last() != Some(&d) {
            p.push(d);
        }
    }
    /// process crash: the future is abandoned without running any destructor
    fn abandon(&mut self) {
        if let Some(f) = self.inner.take() {
            std::mem::forget(f);
        }
    }
}

impl<K: Kind, F: Future<Output = R<()>>> Future for Observed<K, F> {
    type Output = Outcome;
    fn poll(
        self: Pin<&mut Self>,
        cx: &mut Context<'_>,
    ) -> Poll<Outcome> {
        let this = unsafe { self.get_unchecked_mut() };
        if this.inner.is_none() {
            return Poll::Ready(Outcome::Crashed);
        }
        this.note();
        let k = this.polls.fetch_add(1, Ordering::SeqCst);
        if this.cut_at == Some(k) {
            this.abandon();
            return Poll::Ready(Outcome::Crashed);
        }
        let inner = this.inner.as_mut().unwrap();
        let r = match std::panic::catch_unwind(std::panic::AssertUnwindSafe(|| inner.as_mut().poll(cx))) {
            Ok(r) => r,
            Err(p) => {
                let msg = p
                    .downcast_ref::<String>()
                    .cloned()
                    .or_else(|| p.downcast_ref::<&str>().map(|s| s.to_string()))
                    .unwrap_or_else(|| "panic".into());
                this.abandon();
                this.note();
                return Poll::Ready(Outcome::Panicked(msg));
            }
        };
        match r {
            Poll::Ready(r) => {
                this.inner = None;
                this.note();
                Poll::Ready(Outcome::Done(r))
            }
            Poll::Pending => {
                if this.ctl.hit.load(Ordering::SeqCst) {
                    this.note();
                    this.abandon();
                    return Poll::Ready(Outcome::Crashed);
                }
                Poll::Pending
            }
        }
    }
}

// ---------------------------------------------------------------------------------------------
// One behaviour
// ---------------------------------------------------------------------------------------------
fn build_chunk(
    fx: &Fixture,
    it: &Value,
    variant: u64,
) -> SnapshotChunk {
    let snap = it["snap"].as_str().unwrap();
    let sr = if snap == "A" { &fx.a } else { &fx.b };
    let total = it["total"].as_u64().unwrap() as usize;
    let id = it["id"].as_u64().unwrap() as usize;
    let mut c = sr.chunks[total - 1][id].clone();
    assert_eq!(c.seq as u64, it["seq"].as_u64().unwrap());
    assert_eq!(c.total_chunks as usize, total);
    // the real sender labels chunks with (last_included.term, its node id) = (2, 1); the spec's
    // other leader / term is 3
    c.leader_term = it["term"].as_u64().unwrap();
    c.leader_id = it["leader"].as_u64().unwrap() as u32;
    if !it["meta"].as_bool().unwrap() {
        c.metadata = None;
    }
    if !it["ok"].as_bool().unwrap() {
        // corruption in transit: either a payload byte or a checksum byte flips
        if variant % 2 == 0 {
            let mut d = c.data.to_vec();
            let p = (variant as usize / 2) % d.len();
            d[p] ^= 0x40;
            c.data = Bytes::from(d);
        } else {
            let mut d = c.chunk_checksum.to_vec();
            let p = (variant as usize / 2) % d.len();
            d[p] ^= 0x01;
            c.chunk_checksum = Bytes::from(d);
        }
    }
    c
}

fn status_name(s: i32) -> &'static str {
    match ChunkStatus::try_from(s) {
        Ok(ChunkStatus::Accepted) => "Accepted",
        Ok(ChunkStatus::ChecksumMismatch) => "ChecksumMismatch",
        Ok(ChunkStatus::OutOfOrder) => "OutOfOrder",
        Ok(ChunkStatus::Failed) => "Failed",
        Ok(ChunkStatus::Requested) => "Requested",
        _ => "Unspecified",
    }
}

/// completes when every task is blocked and no blocking file operation is in flight
/// (paused clock: the timer fires only when the runtime is otherwise idle)
async fn settle() {
    tokio::time::sleep(Duration::from_millis(1)).await;
}

async fn run_behaviour<K: Kind>(
    fx: &Arc<Fixture>,
    scratch: &Path,
    beh: &Value,
    serial: u64,
) -> Value {
    let dir = scratch.join(format!("r{serial}"));
    let snaps = dir.join("snaps");
    let smdir = dir.join("sm");
    std::fs::create_dir_all(&snaps).unwrap();
    std::fs::write(snaps.join(&fx.prev_name), &fx.prev_bytes).unwrap();
    let mut sm = K::open(&smdir).await;
    populate(&*sm, &fx.old_kv, fx.old_li.term).await;
    // the receiver's previous state is durable before the transfer starts
    sm.save_hard_state().expect("persist previous state");
    let meta0 = sm.snapshot_metadata().and_then(|m| m.last_included);
    let mut ctl = Arc::new(ProbeCtl::default());
    let mut probe = Arc::new(Probe {
        inner: sm.clone(),
        ctl: ctl.clone(),
    });
    let cfg = snap_cfg(&snaps, 1024);
    let mut h = handler::<K>(2, probe.clone(), cfg.clone());
    let mut out_attempts = vec![];

    for (ai, att) in beh["attempts"].as_array().unwrap().iter().enumerate() {
        let items: Vec<Value> = att["items"].as_array().unwrap().clone();
        let crash = att["crash"].as_array().cloned().unwrap_or_default();
        let crash_pc = crash.first().and_then(|v| v.as_str()).unwrap_or("").to_string();
        let crash_k = crash.get(1).and_then(|v| v.as_u64()).unwrap_or(0) as usize;
        let cut_at = att.get("cut").and_then(|v| v.as_u64()).map(|v| v as usize);
        ctl.hit.store(false, Ordering::SeqCst);
        ctl.crash_at.store(
            match crash_pc.as_str() {
                "apply" => 1,
                "ret" => 2,
                _ => 0,
            },
            Ordering::SeqCst,
        );
        let obs = Arc::new(Observer::<K> {
            fx: fx.clone(),
            snaps: snaps.clone(),
            sm: probe.clone(),
            meta0,
        });
        let (tx, rx) = mpsc::channel::<SnapshotChunk>(32);
        let (ack_tx, mut ack_rx) = mpsc::channel::<SnapshotAck>(64);
        let profile = Arc::new(Mutex::new(vec![]));
        let polls = Arc::new(AtomicUsize::new(0));
        {
            let (o, p) = (obs.clone(), profile.clone());
            *ctl.note.lock().unwrap() = Some(Arc::new(move || {
                let (d, _, _) = o.observe();
                let mut g = p.lock().unwrap();
                if g.last() != Some(&d) {
                    g.push(d);
                }
            }));
        }
        let hh = h.clone();
        let cfg2 = cfg.clone();
        let fut = async move { hh.apply_snapshot_stream_from_leader(2, rx, ack_tx, &cfg2).await };
        let mut observed = Box::pin(Observed::<K, _> {
            inner: Some(Box::pin(fut)),
            obs: obs.clone(),
            ctl: ctl.clone(),
            profile: profile.clone(),
            polls: polls.clone(),
            cut_at,
        });
        let lockstep = crash_pc == "recv";
        let fxc = fx.clone();
        let variant = serial * 7 + ai as u64;
        let driver = async move {
            let limit = if lockstep { crash_k } else { items.len() };
            if lockstep {
                settle().await; // receiver has opened its temp file and waits for the first item
            }
            for (i, it) in items.iter().take(limit).enumerate() {
                if it["k"] == "gap" {
                    tokio::time::sleep(Duration::from_millis(1500)).await;
                } else {
                    let c = build_chunk(&fxc, it, variant + i as u64);
                    if tx.send(c).await.is_err() {
                        break;
                    }
                }
                if lockstep {
                    settle().await;
                }
            }
            if lockstep {
                // the process dies here; the sender side of the channel stays open
                std::mem::forget(tx);
            } else {
                drop(tx);
                std::future::pending::<()>().await;
            }
        };
        tokio::pin!(driver);
        let outcome = tokio::select! {
            biased;
            o = &mut observed => o,
            _ = &mut driver => {
                // lock-step crash point reached while the receiver waits for the next item
                let o = unsafe { observed.as_mut().get_unchecked_mut() };
                if o.inner.is_some() { o.note(); o.abandon(); }
                Outcome::Crashed
            }
        };
        let mut acks = vec![];
        while let Ok(a) = ack_rx.try_recv() {
            acks.push(json!({"seq": a.seq, "status": status_name(a.status), "next": a.next_requested}));
        }
        let (after, tmp, extra) = obs.observe();
        let (result, err) = match &outcome {
            Outcome::Done(Ok(())) => ("ok".to_string(), String::new()),
            Outcome::Done(Err(e)) => ("err".to_string(), format!("{e} || {e:?}")),
            Outcome::Crashed => ("crashed".to_string(), String::new()),
            Outcome::Panicked(m) => ("panic".to_string(), m.clone()),
        };
        out_attempts.push(json!({
            "result": result, "err": err, "acks": acks, "after": after, "tmp": tmp, "extra": extra,
            "profile": profile.lock().unwrap().clone(), "polls": polls.load(Ordering::SeqCst),
            "apply_calls": ctl.apply_calls.load(Ordering::SeqCst),
            "smh_last_applied": h.last_applied(),
            "sm_meta": probe.snapshot_metadata().and_then(|m| m.last_included).map(|l| (l.index, l.term)),
        }));
        if matches!(outcome, Outcome::Crashed | Outcome::Panicked(_)) {
            // restart: new state machine instance from what is durable, new handler
            settle().await;
            sm = K::reopen(&sm, &smdir).await;
            ctl = Arc::new(ProbeCtl::default());
            probe = Arc::new(Probe {
                inner: sm.clone(),
                ctl: ctl.clone(),
            });
            h = handler::<K>(2, probe.clone(), cfg.clone());
            // what the restarted process finds (recovery of the state machine itself is not C17's subject)
            let o2 = Observer::<K> {
                fx: fx.clone(),
                snaps: snaps.clone(),
                sm: probe.clone(),
                meta0,
            };
            let n = out_attempts.len();
            out_attempts[n - 1]["after_restart"] = o2.observe().0;
        }
    }
    let _ = std::fs::remove_dir_all(&dir);
    json!({"id": beh["id"], "sm": K::NAME, "attempts": out_attempts})
}

async fn run_all<K: Kind>(
    cases: &str,
    out: &str,
    scratch: &Path,
) {
    let root = scratch.join(format!("fx-{}", K::NAME));
    let _ = std::fs::remove_dir_all(&root);
    std::fs::create_dir_all(&root).unwrap();
    let fx = Arc::new(fixture::<K>(&root, 4).await);
    let mut w = NdjsonWriter::create(out);
    w.write(&json!({"fixture": {"sm": K::NAME, "A_bytes": fx.a.bytes.len(), "B_bytes": fx.b.bytes.len(),
        "prev_bytes": fx.prev_bytes.len(),
        "A_chunk_sizes": fx.a.chunks.iter().map(|v| v.iter().map(|c| c.data.len()).collect::<Vec<_>>()).collect::<Vec<_>>(),
        "sender_term": fx.a.chunks[0][0].leader_term, "sender_id": fx.a.chunks[0][0].leader_id}}));
    let text = std::fs::read_to_string(cases).expect("read cases");
    let mut serial = 0u64;
    for line in text.lines() {
        if line.trim().is_empty() {
            continue;
        }
        let beh: Value = serde_json::from_str(line).expect("case json");
        serial += 1;
        if beh.get("sweep").and_then(|v| v.as_bool()).unwrap_or(false) {
            // cut the first attempt at every poll boundary in turn
            let mut j = 0usize;
            loop {
                let mut b = beh.clone();
                b["attempts"][0]["cut"] = json!(j);
                b["id"] = json!(format!("{}#cut{}", beh["id"].as_str().unwrap_or("?"), j));
                let r = run_behaviour::<K>(&fx, scratch, &b, serial * 1000 + j as u64).await;
                let finished = r["attempts"][0]["result"] != "crashed";
                w.write(&r);
                if finished || j > 400 {
                    break;
                }
                j += 1;
            }
        } else {
            let r = run_behaviour::<K>(&fx, scratch, &beh, serial).await;
            w.write(&r);
        }
    }
    w.finish();
    let _ = std::fs::remove_dir_all(&root);
}

fn arg(
    args: &[String],
    name: &str,
) -> Option<String> {
    args.iter().position(|a| a == name).and_then(|i| args.get(i + 1).cloned())
}

fn main() {
    let args: Vec<String> = std::env::args().collect();
    if args.len() < 2 || args[1] != "run" {
        eprintln!("usage: dv-snapxfer run --cases <ndjson> --out <ndjson> --scratch <dir> [--sm mem|file]");
        std::process::exit(2);
    }
    let cases = arg(&args, "--cases").expect("--cases");
    let out = arg(&args, "--out").expect("--out");
    let scratch = PathBuf::from(arg(&args, "--scratch").expect("--scratch"));
    std::fs::create_dir_all(&scratch).unwrap();
    let kind = arg(&args, "--sm").unwrap_or_else(|| "mem".into());
    // a panic in the code under test is data: it is caught per process and reported by the driver
    run_paused(async {
        match kind.as_str() {
            "mem" => run_all::<MemKind>(&cases, &out, &scratch).await,
            "file" => run_all::<FileKind>(&cases, &out, &scratch).await,
            o => panic!("unknown --sm {o}"),
        }
    });
}
