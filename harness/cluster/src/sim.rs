//! Step-mode simulated cluster: real `Raft<SimTc>` nodes stepped by schedule labels.
use std::collections::BTreeMap;
use std::sync::Arc;
use std::sync::atomic::Ordering;
use std::time::Duration;

use bytes::Bytes;
use d_engine_core::*;
use d_engine_proto::common::entry_payload::Payload;
use d_engine_proto::common::{Entry, membership_change};
use d_engine_proto::server::election::VoteResponse;
use d_engine_proto::server::replication::append_entries_response::Result as ArRes;
use d_engine_proto::server::replication::{AppendEntriesRequest, AppendEntriesResponse};
use dv_common::mem::{MemEngine, MemSm};
use dv_common::net::{Body, Msg, Net};
use dv_common::node::{NodeH, SimTc, build_node, node_meta};
use dv_common::util::yield_many;
use prost::Message;
use serde_json::{Value, json};
use tokio::task::JoinHandle;

pub const ROLE_FOLLOWER: i32 = 1; // NodeRole::Follower etc. (checked at start-up)

#[derive(Clone, Debug)]
pub struct ClusterCfg {
    pub n: u32,
    /// per node: the initial cluster that node's config file lists: Vec<(id, role, status)>
    pub initial: BTreeMap<u32, Vec<(u32, i32, i32)>>,
    pub cap: u64,
    pub lease_ms: u64,
    pub max_merge: usize,
    pub snapshot: bool,
    pub snap_threshold: u64,
    pub retained: u64,
    pub general_timeout_ms: u64,
}

impl ClusterCfg {
    pub fn uniform(n: u32) -> Self {
        let all: Vec<(u32, i32, i32)> = (1..=n).map(|i| (i, role_i32("F"), status_i32("A"))).collect();
        ClusterCfg {
            n,
            initial: (1..=n).map(|i| (i, all.clone())).collect(),
            cap: 100,
            lease_ms: 250,
            max_merge: 1000,
            snapshot: false,
            snap_threshold: 1000,
            retained: 1,
            general_timeout_ms: 5000,
        }
    }
    pub fn from_json(v: &Value) -> Self {
        let n = v.get("n").and_then(|x| x.as_u64()).unwrap_or(3) as u32;
        let mut c = ClusterCfg::uniform(n);
        if let Some(x) = v.get("cap").and_then(|x| x.as_u64()) {
            c.cap = x;
        }
        if let Some(x) = v.get("lease_ms").and_then(|x| x.as_u64()) {
            c.lease_ms = x;
        }
        if let Some(x) = v.get("max_merge").and_then(|x| x.as_u64()) {
            c.max_merge = x as usize;
        }
        if let Some(x) = v.get("snapshot").and_then(|x| x.as_bool()) {
            c.snapshot = x;
        }
        if let Some(x) = v.get("snap_threshold").and_then(|x| x.as_u64()) {
            c.snap_threshold = x;
        }
        if let Some(x) = v.get("retained").and_then(|x| x.as_u64()) {
            c.retained = x;
        }
        if let Some(x) = v.get("general_timeout_ms").and_then(|x| x.as_u64()) {
            c.general_timeout_ms = x;
        }
        // "initial": {"1": [[1,"F","A"]], "2": [[1,"F","A"],[2,"Ln","P"]] ...}
        if let Some(init) = v.get("initial").and_then(|x| x.as_object()) {
            c.initial.clear();
            for (k, lst) in init {
                let id: u32 = k.parse().unwrap();
                let mut members = vec![];
                for m in lst.as_array().unwrap() {
                    let a = m.as_array().unwrap();
                    members.push((
                        a[0].as_u64().unwrap() as u32,
                        role_i32(a[1].as_str().unwrap()),
                        status_i32(a[2].as_str().unwrap()),
                    ));
                }
                c.initial.insert(id, members);
            }
            c.n = c.initial.len() as u32;
        }
        c
    }
}

pub fn role_i32(s: &str) -> i32 {
    use d_engine_proto::common::NodeRole;
    match s {
        "F" => NodeRole::Follower as i32,
        "C" => NodeRole::Candidate as i32,
        "L" => NodeRole::Leader as i32,
        "Ln" => NodeRole::Learner as i32,
        _ => panic!("role {s}"),
    }
}
pub fn role_str(r: i32) -> &'static str {
    use d_engine_proto::common::NodeRole;
    if r == NodeRole::Follower as i32 {
        "F"
    } else if r == NodeRole::Candidate as i32 {
        "C"
    } else if r == NodeRole::Leader as i32 {
        "L"
    } else if r == NodeRole::Learner as i32 {
        "Ln"
    } else {
        "?"
    }
}
pub fn status_i32(s: &str) -> i32 {
    use d_engine_proto::common::NodeStatus;
    match s {
        "A" => NodeStatus::Active as i32,
        "P" => NodeStatus::Promotable as i32,
        "R" => NodeStatus::ReadOnly as i32,
        _ => panic!("status {s}"),
    }
}
pub fn status_str(s: i32) -> &'static str {
    use d_engine_proto::common::NodeStatus;
    if s == NodeStatus::Active as i32 {
        "A"
    } else if s == NodeStatus::Promotable as i32 {
        "P"
    } else if s == NodeStatus::ReadOnly as i32 {
        "R"
    } else {
        "Z"
    }
}

type ClientRx = MaybeCloneOneshotReceiver<std::result::Result<ClientResponse, tonic::Status>>;

pub struct ClientOp {
    pub id: u64,
    pub node: u32,
    pub kind: String,
    pub key: String,
    pub val: String,
    pub exp: String,
    pub policy: String,
    pub invoked_at: u64,
    pub rx: Option<ClientRx>,
    pub done: bool,
    /// the node crashed while this request was outstanding (the client's connection broke)
    pub lost: bool,
    pub ok: Option<bool>,
}

pub struct JoinOp {
    pub id: u64,
    pub node: u32,
    pub to: u32,
    pub rx: MaybeCloneOneshotReceiver<
        std::result::Result<d_engine_proto::server::cluster::JoinResponse, tonic::Status>,
    >,
    pub done: bool,
}

pub struct Slot {
    pub h: Option<NodeH>,
    /// the surviving store / state machine of a node that is down
    pub se: Arc<MemEngine>,
    pub sm: Arc<MemSm>,
    pub round: Option<JoinHandle<(Raft<SimTc>, Result<()>)>>,
    pub round_term: u64,
    pub last_view: Option<VerifView>,
    pub applied_seen: usize,
    pub incarnation: u64,
}

pub struct Cluster {
    pub cfg: ClusterCfg,
    pub net: Net,
    pub slots: BTreeMap<u32, Slot>,
    pub clock_ms: u64,
    pub clients: Vec<ClientOp>,
    pub joins: Vec<JoinOp>,
    pub events: Vec<Value>,
    /// messages consumed by the current step (content), for conformance checking
    pub delivered: Vec<Value>,
    /// content selector of the current step label (t / prev / cnt / lc / kind / mi), if given
    pub sel: Value,
    /// AR message id -> id of the AppendEntries request it answers
    pub ar_req: std::collections::HashMap<u64, u64>,
    /// records of the individual steps executed inside a macro step (Drain / Final / Recover)
    pub subrecs: Vec<Value>,
    pub step_no: u64,
    pub snap_dir: std::path::PathBuf,
}

fn node_config(
    c: &ClusterCfg,
    id: u32,
    snap_dir: &std::path::Path,
) -> RaftNodeConfig {
    let mut cfg = RaftNodeConfig::default();
    cfg.cluster.node_id = id;
    cfg.cluster.initial_cluster =
        c.initial[&id].iter().map(|(i, r, s)| node_meta(*i, *r, *s)).collect();
    cfg.raft.snapshot.enable = c.snapshot;
    cfg.raft.snapshot.max_log_entries_before_snapshot = c.snap_threshold;
    cfg.raft.snapshot.retained_log_entries = c.retained;
    cfg.raft.snapshot.snapshot_cool_down_since_last_check = Duration::from_secs(0);
    cfg.raft.snapshot.snapshots_dir = snap_dir.join(format!("n{id}"));
    cfg.raft.replication.append_entries_max_entries_per_replication = c.cap;
    cfg.raft.batching.max_merge_entries = c.max_merge;
    cfg.raft.read_consistency.lease_duration_ms = c.lease_ms;
    cfg.raft.learner_check_throttle_ms = 0;
    cfg.raft.general_raft_timeout_duration_in_ms = c.general_timeout_ms;
    cfg
}

impl Cluster {
    pub async fn new(
        cfg: ClusterCfg,
        snap_dir: std::path::PathBuf,
    ) -> Self {
        let net = Net::default();
        verif_clock::set(Some(1_000));
        let mut slots = BTreeMap::new();
        for (&id, _) in cfg.initial.iter() {
            let se = Arc::new(MemEngine::default());
            let sm = Arc::new(MemSm::new());
            let h = build_node(node_config(&cfg, id, &snap_dir), se.clone(), sm.clone(), net.clone())
                .await;
            slots.insert(
                id,
                Slot {
                    h: Some(h),
                    se,
                    sm,
                    round: None,
                    round_term: 0,
                    last_view: None,
                    applied_seen: 0,
                    incarnation: 1,
                },
            );
        }
        let mut c = Cluster {
            cfg,
            net,
            slots,
            clock_ms: 1_000,
            clients: vec![],
            joins: vec![],
            events: vec![],
            delivered: vec![],
            sel: Value::Null,
            ar_req: Default::default(),
            subrecs: vec![],
            step_no: 0,
            snap_dir,
        };
        c.settle().await;
        c
    }

    pub fn is_up(
        &self,
        n: u32,
    ) -> bool {
        self.slots.get(&n).map(|s| s.h.is_some()).unwrap_or(false)
    }
    pub fn is_busy(
        &self,
        n: u32,
    ) -> bool {
        self.slots.get(&n).map(|s| s.round.is_some()).unwrap_or(false)
    }
    fn raft(
        &mut self,
        n: u32,
    ) -> Option<&mut Raft<SimTc>> {
        self.slots.get_mut(&n)?.h.as_mut()?.raft.as_mut()
    }
    pub fn view(
        &self,
        n: u32,
    ) -> Option<VerifView> {
        self.slots.get(&n)?.h.as_ref()?.raft.as_ref().map(|r| r.verif_view())
    }

    /// Wait until the IO thread of node `n` has nothing left to do (unless held).
    fn wait_io(
        &self,
        n: u32,
    ) {
        let Some(s) = self.slots.get(&n) else { return };
        let Some(h) = s.h.as_ref() else { return };
        if h.se.l.hold.load(Ordering::SeqCst) {
            return;
        }
        for _ in 0..2_000 {
            if h.raft_log.durable_index() >= h.raft_log.last_entry_id() {
                break;
            }
            std::thread::sleep(Duration::from_micros(50));
        }
    }

    /// Run every node's internal pipeline to quiescence.
    pub async fn settle(&mut self) {
        for _round in 0..50 {
            yield_many(30).await;
            let ids: Vec<u32> = self.slots.keys().cloned().collect();
            let mut progressed = 0usize;
            for n in ids {
                if !self.is_up(n) || self.is_busy(n) {
                    continue;
                }
                self.wait_io(n);
                if let Some(r) = self.raft(n) {
                    match r.verif_internal().await {
                        Ok(k) => progressed += k,
                        Err(e) => {
                            self.events.push(json!({"e":"Fatal","n":n,"err":format!("{e:?}")}));
                        }
                    }
                }
            }
            if progressed == 0 {
                yield_many(30).await;
                // one more look: tasks may have produced internal events during the yields
                let mut pending = false;
                let ids: Vec<u32> = self.slots.keys().cloned().collect();
                for n in ids {
                    if !self.is_up(n) || self.is_busy(n) {
                        continue;
                    }
                    if let Some(r) = self.raft(n) {
                        if let Ok(k) = r.verif_internal().await {
                            if k > 0 {
                                pending = true;
                            }
                        }
                    }
                }
                if !pending {
                    break;
                }
            }
        }
        self.collect_async_events();
    }

    fn collect_async_events(&mut self) {
        // emitted network messages
        for m in self.net.drain_emitted() {
            match &m.body {
                Body::Ae(req) => {
                    self.events.push(json!({"e":"AESent","from":m.from,"to":m.to,"mid":m.id,
                        "t":req.term,"leader":req.leader_id,"prev":req.prev_log_index,"pt":req.prev_log_term,
                        "ents": req.entries.iter().map(|e| json!([e.index, e.term])).collect::<Vec<_>>(),
                        "lc":req.leader_commit_index}));
                }
                Body::Vote(req) => {
                    self.events.push(json!({"e":"VQSent","from":m.from,"to":m.to,"mid":m.id,
                        "t":req.term,"li":req.last_log_index,"lt":req.last_log_term}));
                }
                Body::Snap(meta) => {
                    let li = meta.last_included.unwrap_or_default();
                    self.events.push(json!({"e":"SnapSent","from":m.from,"to":m.to,"mid":m.id,
                        "idx":li.index,"t":li.term}));
                }
                _ => {}
            }
        }
        // applied entries + leader notifications
        let ids: Vec<u32> = self.slots.keys().cloned().collect();
        for n in ids {
            let s = self.slots.get_mut(&n).unwrap();
            let seq = s.sm.seq.lock().unwrap();
            for a in seq.iter().skip(s.applied_seen) {
                self.events.push(json!({"e":"Applied","n":n,"inc":s.incarnation,"idx":a.index,"t":a.term,
                    "cmd":cmd_str(&a.cmd),"c":cmd_json(&a.cmd),"ok":a.ok}));
            }
            s.applied_seen = seq.len();
            drop(seq);
            if let Some(h) = s.h.as_mut() {
                if h.leader_rx.has_changed().unwrap_or(false) {
                    let v = h.leader_rx.borrow_and_update().clone();
                    match v {
                        Some(li) => self.events.push(
                            json!({"e":"LeaderNotify","n":n,"leader":li.leader_id,"t":li.term}),
                        ),
                        None => self.events.push(json!({"e":"LeaderNotify","n":n,"leader":0,"t":0})),
                    }
                }
            }
        }
        // join responses
        for j in self.joins.iter_mut() {
            if j.done {
                continue;
            }
            use std::future::Future;
            let waker = futures::task::noop_waker();
            let mut cx = std::task::Context::from_waker(&waker);
            match std::pin::Pin::new(&mut j.rx).poll(&mut cx) {
                std::task::Poll::Ready(Ok(Ok(resp))) => {
                    j.done = true;
                    self.events.push(json!({"e":"JoinResp","id":j.id,"n":j.node,"to":j.to,"ok":resp.success,"status":resp.error}));
                }
                std::task::Poll::Ready(Ok(Err(st))) => {
                    j.done = true;
                    self.events.push(json!({"e":"JoinResp","id":j.id,"n":j.node,"to":j.to,"ok":false,
                        "status": format!("{:?}:{}", st.code(), st.message())}));
                }
                std::task::Poll::Ready(Err(_)) => {
                    j.done = true;
                    self.events.push(json!({"e":"JoinResp","id":j.id,"n":j.node,"to":j.to,"ok":false,"status":"channel closed"}));
                }
                std::task::Poll::Pending => {}
            }
        }
        // client responses
        for c in self.clients.iter_mut() {
            if c.done {
                continue;
            }
            if let Some(rx) = c.rx.as_mut() {
                use std::future::Future;
                let waker = futures::task::noop_waker();
                let mut cx = std::task::Context::from_waker(&waker);
                match std::pin::Pin::new(rx).poll(&mut cx) {
                    std::task::Poll::Ready(Ok(Ok(resp))) => {
                        c.done = true;
                        c.ok = Some(resp.error == ErrorCode::Success);
                        self.events.push(json!({"e":"ClientResp","id":c.id,"node":c.node,"kind":c.kind,
                            "key":c.key,"val":c.val,"exp":c.exp,"policy":c.policy,"invoked":c.invoked_at,
                            "err": resp.error as i32,
                            "ok": resp.error == ErrorCode::Success,
                            "wsucc": match &resp.result { Some(ClientResponsePayload::Write(w)) => json!(w.succeeded), _ => json!("na") },
                            "read": match &resp.result { Some(ClientResponsePayload::Read(r)) =>
                                json!(r.entries.iter().map(|e| json!([String::from_utf8_lossy(&e.key), String::from_utf8_lossy(&e.value)])).collect::<Vec<_>>()), _ => json!("na") },
                        }));
                    }
                    std::task::Poll::Ready(Ok(Err(status))) => {
                        c.done = true;
                        self.events.push(json!({"e":"ClientResp","id":c.id,"node":c.node,"kind":c.kind,
                            "key":c.key,"val":c.val,"exp":c.exp,"policy":c.policy,"invoked":c.invoked_at,
                            "err": -(status.code() as i32) - 1, "ok": false, "wsucc":"na","read":"na",
                            "status": format!("{:?}:{}", status.code(), status.message())}));
                    }
                    std::task::Poll::Ready(Err(_)) => {
                        c.done = true;
                        self.events.push(json!({"e":"ClientResp","id":c.id,"node":c.node,"kind":c.kind,
                            "key":c.key,"val":c.val,"exp":c.exp,"policy":c.policy,"invoked":c.invoked_at,
                            "err": -100, "ok": false, "wsucc":"na","read":"na","status":"channel closed"}));
                    }
                    std::task::Poll::Pending => {}
                }
            }
        }
    }

    async fn advance_to(
        &mut self,
        deadline: tokio::time::Instant,
    ) {
        let now = tokio::time::Instant::now();
        if deadline >= now {
            let d = deadline - now + Duration::from_millis(1);
            tokio::time::advance(d).await;
            self.clock_ms += d.as_millis() as u64;
            verif_clock::set(Some(self.clock_ms));
        }
    }

    // -----------------------------------------------------------------------------------------
    // Steps. Each returns Ok(true) if it was applicable and executed.
    // -----------------------------------------------------------------------------------------
    pub async fn step(
        &mut self,
        st: &Value,
    ) -> bool {
        self.step_no += 1;
        self.sel = st.clone();
        let a = st.get("a").and_then(|x| x.as_str()).unwrap_or("");
        let g = |k: &str| st.get(k).and_then(|x| x.as_u64()).unwrap_or(0);
        let done = match a {
            "Timeout" => self.do_timeout(g("n") as u32).await,
            "StartRound" => self.do_start_round(g("n") as u32).await,
            "DeliverVQ" => self.do_deliver_vq(g("from") as u32, g("to") as u32, g("dup") == 1).await,
            "DropVQ" => self.do_drop_vq(g("from") as u32, g("to") as u32).await,
            "FinishRound" => self.do_finish_round(g("n") as u32).await,
            "DeliverAE" => {
                self.do_deliver_ae(
                    g("from") as u32,
                    g("to") as u32,
                    (g("k").max(1)) as usize,
                    g("idx") as usize,
                    g("dup") == 1,
                )
                .await
            }
            "DeliverAR" => self.do_deliver_ar(g("from") as u32, g("to") as u32, g("idx") as usize).await,
            "DropMsg" => {
                self.do_drop(st.get("ty").and_then(|x| x.as_str()).unwrap_or("AE"), g("from") as u32, g("to") as u32, g("idx") as usize)
            }
            "BreakStream" => {
                let ok = self.net.break_stream(g("from") as u32, g("to") as u32);
                self.settle().await;
                ok
            }
            "Heartbeat" => self.do_heartbeat(g("n") as u32).await,
            "Client" => self.do_client(st).await,
            "ClientBatch" => self.do_client_batch(st).await,
            "Crash" => self.do_crash(g("n") as u32).await,
            "Stop" => self.do_stop(g("n") as u32).await,
            "Restart" => self.do_restart(g("n") as u32).await,
            "HoldApply" => self.do_hold_apply(g("n") as u32, g("on") == 1).await,
            "HoldIo" => self.do_hold_io(g("n") as u32, g("on") == 1).await,
            // DEClient!Apply(n): the state machine of a node whose apply pipeline is held catches up with the
            // commit index in one step (ApplyCompleted), then the hold is put back
            "ApplyNow" => {
                let n = g("n") as u32;
                let held = self.is_up(n) && self.slots[&n].h.as_ref().unwrap().sm.hold.load(Ordering::SeqCst);
                let ok = self.do_hold_apply(n, false).await;
                if ok && held {
                    self.slots[&n].h.as_ref().unwrap().sm.hold.store(true, Ordering::SeqCst);
                }
                ok
            }
            // every live node's apply pipeline is held from here on (schedules of the client-layer model)
            "LagAll" => {
                let ids: Vec<u32> = self.slots.keys().cloned().collect();
                for n in ids {
                    if self.is_up(n) {
                        self.slots[&n].h.as_ref().unwrap().sm.hold.store(true, Ordering::SeqCst);
                    }
                }
                true
            }
            "Advance" => {
                let ms = g("ms");
                tokio::time::advance(Duration::from_millis(ms)).await;
                self.clock_ms += ms;
                verif_clock::set(Some(self.clock_ms));
                self.settle().await;
                true
            }
            "LeaderTick" => self.do_leader_tick(g("n") as u32).await,
            "DeliverSnap" => self.do_deliver_snap(g("from") as u32, g("to") as u32, g("fail") == 1).await,
            "Settle" => {
                self.settle().await;
                true
            }
            "Drain" => self.do_drain(g("rounds").max(1) as usize).await,
            "Final" => self.do_final().await,
            "Recover" => self.do_recover(g("rounds").max(1) as usize).await,
            "Join" => self.do_join(g("n") as u32, g("to") as u32).await,
            "Zombie" => self.do_zombie(g("n") as u32, g("to") as u32).await,
            _ => false,
        };
        done
    }

    async fn do_timeout(
        &mut self,
        n: u32,
    ) -> bool {
        if !self.is_up(n) || self.is_busy(n) {
            return false;
        }
        let v = self.view(n).unwrap();
        if role_str(v.role) != "F" {
            return false;
        }
        let dl = self.raft(n).unwrap().verif_next_deadline();
        self.advance_to(dl).await;
        let _ = self.raft(n).unwrap().verif_tick().await;
        self.settle().await;
        true
    }

    async fn do_start_round(
        &mut self,
        n: u32,
    ) -> bool {
        if !self.is_up(n) || self.is_busy(n) {
            return false;
        }
        let v = self.view(n).unwrap();
        if role_str(v.role) != "C" {
            return false;
        }
        let dl = self.raft(n).unwrap().verif_next_deadline();
        self.advance_to(dl).await;
        let slot = self.slots.get_mut(&n).unwrap();
        slot.last_view = Some(v.clone());
        slot.round_term = v.term + 1;
        let mut raft = slot.h.as_mut().unwrap().raft.take().unwrap();
        let jh = tokio::task::spawn_local(async move {
            let r = raft.verif_tick().await;
            (raft, r)
        });
        slot.round = Some(jh);
        yield_many(50).await;
        // if the round completed at once (single-node shortcut / no peers), finish it now
        if self.slots[&n].round.as_ref().unwrap().is_finished() {
            self.finish_round_inner(n).await;
        } else {
            self.collect_async_events();
        }
        true
    }

    async fn finish_round_inner(
        &mut self,
        n: u32,
    ) {
        let jh = self.slots.get_mut(&n).unwrap().round.take().unwrap();
        let (raft, res) = jh.await.expect("round task panicked");
        self.events.push(json!({"e":"RoundEnd","n":n,"ok":res.is_ok(),
            "err": res.as_ref().err().map(|e| format!("{e:?}")).unwrap_or_default()}));
        self.slots.get_mut(&n).unwrap().h.as_mut().unwrap().raft = Some(raft);
        self.settle().await;
    }

    async fn do_finish_round(
        &mut self,
        n: u32,
    ) -> bool {
        if !self.is_busy(n) {
            return false;
        }
        self.net.fail_votes_of(n);
        yield_many(50).await;
        self.finish_round_inner(n).await;
        true
    }

    fn find_msg(
        &self,
        ty: &str,
        from: u32,
        to: u32,
        idx: usize,
    ) -> Option<Msg> {
        let sel = self.sel.clone();
        self.net
            .bag()
            .into_iter()
            .filter(|m| m.ty() == ty && m.from == from && m.to == to && msg_matches(m, &sel))
            .nth(idx)
    }

    async fn do_deliver_vq(
        &mut self,
        from: u32,
        to: u32,
        dup: bool,
    ) -> bool {
        if !self.is_up(to) || self.is_busy(to) {
            return false;
        }
        let Some(m) = self.find_msg("VQ", from, to, 0) else { return false };
        let Body::Vote(req) = m.body.clone() else { return false };
        self.delivered.push(msg_json(&m));
        if !dup {
            self.net.take(m.id);
        }
        let (tx, rx) = MaybeCloneOneshot::new();
        let before = self.view(to).unwrap();
        let _ = self
            .raft(to)
            .unwrap()
            .verif_inbound(vec![InboundEvent::ReceiveVoteRequest(req, tx)])
            .await;
        // step-down + replay goes through the internal queue
        let _ = self.raft(to).unwrap().verif_internal().await;
        let resp: Option<VoteResponse> = poll_once(rx).and_then(|r| r.ok()).and_then(|r| r.ok());
        if let Some(resp) = resp {
            self.events.push(json!({"e":"VoteResp","voter":to,"cand":from,"rt":req.term,
                "granted":resp.vote_granted,"term":resp.term,"li":resp.last_log_index,"lt":resp.last_log_term,
                "voterRole": role_str(before.role), "inc": self.slots[&to].incarnation}));
            if !dup {
                let w = self.net.0.lock().unwrap().vote_waiters.remove(&m.id);
                if let Some(w) = w {
                    let _ = w.send(Ok(resp));
                }
            }
        } else {
            self.events.push(json!({"e":"VoteNoResp","voter":to,"cand":from,"rt":req.term}));
            if !dup {
                self.net.0.lock().unwrap().vote_waiters.remove(&m.id);
            }
        }
        yield_many(30).await;
        self.maybe_auto_finish(from).await;
        self.settle().await;
        true
    }

    /// When every vote RPC of a round has been answered the candidate's tick returns by itself.
    async fn maybe_auto_finish(
        &mut self,
        cand: u32,
    ) {
        if self.is_busy(cand) {
            yield_many(30).await;
            if self.slots[&cand].round.as_ref().unwrap().is_finished() {
                self.finish_round_inner(cand).await;
            }
        }
    }

    async fn do_drop_vq(
        &mut self,
        from: u32,
        to: u32,
    ) -> bool {
        let Some(m) = self.find_msg("VQ", from, to, 0) else { return false };
        self.net.take(m.id);
        self.net.0.lock().unwrap().vote_waiters.remove(&m.id);
        yield_many(30).await;
        self.maybe_auto_finish(from).await;
        true
    }

    fn do_drop(
        &mut self,
        ty: &str,
        from: u32,
        to: u32,
        idx: usize,
    ) -> bool {
        let Some(m) = self.find_msg(ty, from, to, idx) else { return false };
        self.net.take(m.id);
        let mut g = self.net.0.lock().unwrap();
        g.vote_waiters.remove(&m.id);
        g.snap_waiters.remove(&m.id);
        true
    }

    async fn do_deliver_ae(
        &mut self,
        from: u32,
        to: u32,
        k: usize,
        idx: usize,
        dup: bool,
    ) -> bool {
        if !self.is_up(to) || self.is_busy(to) {
            return false;
        }
        let sel = if k > 1 { Value::Null } else { self.sel.clone() };
        let msgs: Vec<Msg> = self
            .net
            .bag()
            .into_iter()
            .filter(|m| m.ty() == "AE" && m.from == from && m.to == to && msg_matches(m, &sel))
            .skip(idx)
            .take(k)
            .collect();
        if msgs.is_empty() {
            return false;
        }
        let mut evs = vec![];
        let mut rxs = vec![];
        for m in &msgs {
            let Body::Ae(req) = m.body.clone() else { continue };
            self.delivered.push(msg_json(m));
            if !dup {
                self.net.take(m.id);
            }
            let (tx, rx) = MaybeCloneOneshot::new();
            rxs.push((m.clone(), rx));
            evs.push(InboundEvent::AppendEntries(req, vec![tx]));
        }
        let before = self.view(to).unwrap();
        let r = self.raft(to).unwrap().verif_inbound(evs).await;
        if let Err(e) = r {
            self.events.push(json!({"e":"Fatal","n":to,"err":format!("{e:?}")}));
        }
        let _ = self.raft(to).unwrap().verif_internal().await;
        for (m, rx) in rxs {
            let Body::Ae(req) = &m.body else { continue };
            let resp: Option<AppendEntriesResponse> =
                poll_once(rx).and_then(|r| r.ok()).and_then(|r| r.ok());
            match resp {
                Some(resp) => {
                    let (kind, mi, mt, ct, ci) = ar_fields(&resp);
                    self.events.push(json!({"e":"AEResp","node":to,"leader":from,"rt":req.term,
                        "prev":req.prev_log_index,"n":req.entries.len(),"lc":req.leader_commit_index,
                        "kind":kind,"mi":mi,"mt":mt,"ct":ct,"ci":ci,"term":resp.term,
                        "roleBefore": role_str(before.role), "commitBefore": before.commit_index,
                        "merged": msgs.len(), "mid": m.id}));
                    let arid = self.net.push(to, from, m.stream, Body::Ar(resp));
                    self.ar_req.insert(arid, m.id);
                }
                None => {
                    self.events.push(json!({"e":"AENoResp","node":to,"leader":from,"rt":req.term}));
                }
            }
        }
        self.settle().await;
        true
    }

    async fn do_deliver_ar(
        &mut self,
        from: u32,
        to: u32,
        idx: usize,
    ) -> bool {
        let Some(m) = self.find_msg("AR", from, to, idx) else { return false };
        if !self.is_up(to) || self.is_busy(to) {
            return false;
        }
        self.net.take(m.id);
        let mut mj = msg_json(&m);
        mj["req"] = json!(self.ar_req.get(&m.id).copied().unwrap_or(0));
        self.delivered.push(mj);
        let Body::Ar(resp) = m.body else { return false };
        let tx = {
            let g = self.net.0.lock().unwrap();
            g.streams.get(&(to, from)).filter(|(sid, _)| *sid == m.stream).map(|(_, tx)| tx.clone())
        };
        match tx {
            Some(tx) => {
                let _ = tx.send(Ok(resp));
            }
            None => {
                // stream is gone (leader stepped down / restarted / reconnected): response lost
                self.events.push(json!({"e":"ARLost","from":from,"to":to}));
            }
        }
        self.settle().await;
        true
    }

    async fn do_heartbeat(
        &mut self,
        n: u32,
    ) -> bool {
        if !self.is_up(n) || self.is_busy(n) {
            return false;
        }
        let v = self.view(n).unwrap();
        if role_str(v.role) != "L" {
            return false;
        }
        let dl = self.raft(n).unwrap().verif_next_deadline();
        self.advance_to(dl).await;
        let _ = self.raft(n).unwrap().verif_tick().await;
        self.settle().await;
        true
    }

    /// Leader tick without forcing the heartbeat deadline (deadline sweeps only).
    async fn do_leader_tick(
        &mut self,
        n: u32,
    ) -> bool {
        if !self.is_up(n) || self.is_busy(n) {
            return false;
        }
        let v = self.view(n).unwrap();
        if role_str(v.role) != "L" {
            return false;
        }
        let _ = self.raft(n).unwrap().verif_tick().await;
        self.settle().await;
        true
    }

    /// Several client commands handed to the node in ONE drain of its command channel
    /// (`push_client_cmd` x n, then one `flush_cmd_buffers`).
    async fn do_client_batch(
        &mut self,
        st: &Value,
    ) -> bool {
        let n = st.get("n").and_then(|x| x.as_u64()).unwrap_or(0) as u32;
        if !self.is_up(n) || self.is_busy(n) {
            return false;
        }
        let ops: Vec<Value> = st.get("ops").and_then(|x| x.as_array()).cloned().unwrap_or_default();
        let mut cmds = vec![];
        for op in ops.iter() {
            let mut op = op.clone();
            op["n"] = json!(n);
            if let Some(c) = self.make_cmd(&op, n) {
                cmds.push(c);
            }
        }
        if cmds.is_empty() {
            return false;
        }
        let r = self.raft(n).unwrap().verif_client(cmds).await;
        if let Err(e) = r {
            self.events.push(json!({"e":"ClientCmdErr","n":n,"err":format!("{e:?}")}));
        }
        self.settle().await;
        true
    }

    async fn do_client(
        &mut self,
        st: &Value,
    ) -> bool {
        let n = st.get("n").and_then(|x| x.as_u64()).unwrap_or(0) as u32;
        if !self.is_up(n) || self.is_busy(n) {
            return false;
        }
        let Some(cmd) = self.make_cmd(st, n) else { return false };
        let r = self.raft(n).unwrap().verif_client(vec![cmd]).await;
        if let Err(e) = r {
            self.events.push(json!({"e":"ClientCmdErr","n":n,"err":format!("{e:?}")}));
        }
        self.settle().await;
        true
    }

    /// Build one client command, register it as an outstanding operation, emit ClientInvoke.
    fn make_cmd(
        &mut self,
        st: &Value,
        n: u32,
    ) -> Option<ClientCmd> {
        let s = |k: &str| st.get(k).and_then(|x| x.as_str()).unwrap_or("").to_string();
        let kind = s("op");
        let key = s("key");
        let val = s("val");
        let exp = s("exp");
        let policy = s("policy");
        let id = self.clients.len() as u64 + 1;
        let (tx, rx) = MaybeCloneOneshot::new();
        let kb = Bytes::from(key.clone().into_bytes());
        let cmd = match kind.as_str() {
            "put" => ClientCmd::Propose(
                ClientWriteRequest {
                    client_id: id as u32,
                    command: Some(WriteOperation::Insert {
                        key: kb,
                        value: Bytes::from(val.clone().into_bytes()),
                        ttl_secs: None,
                    }),
                },
                tx,
            ),
            "del" => ClientCmd::Propose(
                ClientWriteRequest {
                    client_id: id as u32,
                    command: Some(WriteOperation::Delete { key: kb }),
                },
                tx,
            ),
            "cas" => ClientCmd::Propose(
                ClientWriteRequest {
                    client_id: id as u32,
                    command: Some(WriteOperation::CompareAndSwap {
                        key: kb,
                        expected: if exp == "-" {
                            None
                        } else {
                            Some(Bytes::from(exp.clone().into_bytes()))
                        },
                        new_value: Bytes::from(val.clone().into_bytes()),
                    }),
                },
                tx,
            ),
            "empty" => ClientCmd::Propose(
                ClientWriteRequest {
                    client_id: id as u32,
                    command: None,
                },
                tx,
            ),
            "read" => ClientCmd::Read(
                ClientReadRequest {
                    client_id: id as u32,
                    keys: vec![kb],
                    consistency_policy: match policy.as_str() {
                        "lin" => Some(ReadConsistencyPolicy::LinearizableRead),
                        "lease" => Some(ReadConsistencyPolicy::LeaseRead),
                        "ev" => Some(ReadConsistencyPolicy::EventualConsistency),
                        _ => None,
                    },
                },
                tx,
            ),
            _ => return None,
        };
        self.events.push(json!({"e":"ClientInvoke","id":id,"node":n,"kind":kind,"key":key,"val":val,
            "exp":exp,"policy":policy}));
        self.clients.push(ClientOp {
            id,
            node: n,
            kind,
            key,
            val,
            exp,
            policy,
            invoked_at: self.step_no,
            rx: Some(rx),
            done: false,
            lost: false,
            ok: None,
        });
        Some(cmd)
    }
    /// Record one inner step of a macro step as a trace record of its own.
    async fn sub(
        &mut self,
        label: Value,
        applied: bool,
    ) {
        let st = self.project().await;
        let ev = std::mem::take(&mut self.events);
        let dl = std::mem::take(&mut self.delivered);
        self.subrecs.push(json!({"a": label, "applied": applied, "st": st, "ev": ev, "msgs": dl}));
    }

    /// Quiet period: deliver every message in FIFO order, finish open rounds, let every leader send a
    /// heartbeat; repeated `rounds` times. No timeouts, no faults.
    async fn do_drain(
        &mut self,
        rounds: usize,
    ) -> bool {
        for _ in 0..rounds {
            for _ in 0..200 {
                let bag = self.net.bag();
                let Some(m) = bag.into_iter().find(|m| {
                    matches!(m.ty(), "VQ" | "AE" | "AR" | "SNAP")
                }) else {
                    break;
                };
                self.sel = Value::Null;
                let deliverable = self.is_up(m.to) && !self.is_busy(m.to);
                let (label, ok) = match m.ty() {
                    "VQ" => {
                        if deliverable {
                            (json!({"a":"DeliverVQ","from":m.from,"to":m.to}), self.do_deliver_vq(m.from, m.to, false).await)
                        } else {
                            (json!({"a":"DropVQ","from":m.from,"to":m.to}), self.do_drop_vq(m.from, m.to).await)
                        }
                    }
                    "AE" => {
                        if deliverable {
                            (json!({"a":"DeliverAE","from":m.from,"to":m.to,"k":1}), self.do_deliver_ae(m.from, m.to, 1, 0, false).await)
                        } else {
                            (json!({"a":"DropMsg","ty":"AE","from":m.from,"to":m.to}), self.do_drop("AE", m.from, m.to, 0))
                        }
                    }
                    "AR" => {
                        if deliverable {
                            (json!({"a":"DeliverAR","from":m.from,"to":m.to}), self.do_deliver_ar(m.from, m.to, 0).await)
                        } else {
                            (json!({"a":"DropMsg","ty":"AR","from":m.from,"to":m.to}), self.do_drop("AR", m.from, m.to, 0))
                        }
                    }
                    _ => (json!({"a":"DeliverSnap","from":m.from,"to":m.to}), self.do_deliver_snap(m.from, m.to, false).await),
                };
                if !ok {
                    self.net.take(m.id);
                }
                self.sub(label, ok).await;
            }
            let ids: Vec<u32> = self.slots.keys().cloned().collect();
            for n in ids.iter() {
                if self.is_busy(*n) {
                    let ok = self.do_finish_round(*n).await;
                    self.sub(json!({"a":"FinishRound","n":*n}), ok).await;
                }
            }
            for n in ids {
                if self.is_up(n) && !self.is_busy(n) {
                    if let Some(v) = self.view(n) {
                        if role_str(v.role) == "L" {
                            let ok = self.do_heartbeat(n).await;
                            self.sub(json!({"a":"Heartbeat","n":n}), ok).await;
                        }
                    }
                }
            }
        }
        self.delivered.clear();
        true
    }

    /// C30 epilogue: let every deadline pass, tick every leader, then list the requests that still
    /// have no response (requests whose node crashed meanwhile are excluded: that client lost its
    /// connection).
    async fn do_final(&mut self) -> bool {
        let ms = self.cfg.general_timeout_ms + 200;
        tokio::time::advance(Duration::from_millis(ms)).await;
        self.clock_ms += ms;
        verif_clock::set(Some(self.clock_ms));
        let ids: Vec<u32> = self.slots.keys().cloned().collect();
        for n in ids.iter() {
            if self.is_busy(*n) {
                let ok = self.do_finish_round(*n).await;
                self.sub(json!({"a":"FinishRound","n":*n}), ok).await;
            }
        }
        for n in ids {
            if self.is_up(n) && !self.is_busy(n) {
                if let Some(v) = self.view(n) {
                    if role_str(v.role) == "L" {
                        let _ = self.raft(n).unwrap().verif_tick().await;
                        self.settle().await;
                        self.sub(json!({"a":"LeaderTick","n":n}), true).await;
                    }
                }
            }
        }
        self.settle().await;
        let out: Vec<Value> = self
            .clients
            .iter()
            .filter(|c| !c.done && !c.lost)
            .map(|c| json!({"id": c.id, "node": c.node, "kind": c.kind, "policy": c.policy,
                "nodeRole": self.view(c.node).map(|v| role_str(v.role)).unwrap_or("Down")}))
            .collect();
        self.events.push(json!({"e":"Outstanding","ops": out}));
        true
    }

    /// C32 epilogue: faults stop (every node restarted, every message deliverable); a fair
    /// deterministic scheduler runs `rounds` rounds; then the cluster must have a leader, accept a
    /// write and have applied every committed entry on every live voter.
    async fn do_recover(
        &mut self,
        rounds: usize,
    ) -> bool {
        let ids: Vec<u32> = self.slots.keys().cloned().collect();
        for n in ids.iter() {
            if !self.is_up(*n) {
                let ok = self.do_restart(*n).await;
                self.sub(json!({"a":"Restart","n":*n}), ok).await;
            }
            let held = self.slots[n].h.as_ref().map(|h| {
                h.sm.hold.store(false, Ordering::SeqCst);
                h.se.l.hold.load(Ordering::SeqCst)
            });
            if held == Some(true) {
                self.do_hold_io(*n, false).await;
                self.sub(json!({"a":"HoldIo","n":*n,"on":0}), true).await;
            }
        }
        self.do_drain(1).await;
        let mut write_ok = false;
        let mut turn = 0usize;
        for _ in 0..rounds {
            // current leaders with the highest term
            let leaders: Vec<(u32, u64)> = ids
                .iter()
                .filter_map(|n| self.view(*n).filter(|v| role_str(v.role) == "L").map(|v| (*n, v.term)))
                .collect();
            let maxt = ids.iter().filter_map(|n| self.view(*n).map(|v| v.term)).max().unwrap_or(0);
            let leader = leaders.iter().find(|(_, t)| *t == maxt).map(|(n, _)| *n);
            match leader {
                Some(l) => {
                    let before = self.clients.len();
                    let st = json!({"a":"Client","n":l,"op":"put","key":"k1","val":format!("recover{}", self.step_no)});
                    let ok = self.do_client(&st).await;
                    self.sub(st.clone(), ok).await;
                    for _ in 0..6 {
                        self.do_drain(1).await;
                        if self.clients.len() > before && self.clients[before].done {
                            break;
                        }
                    }
                    if self.clients.len() > before {
                        write_ok = self.clients[before].ok == Some(true);
                    }
                    if write_ok {
                        break;
                    }
                }
                None => {
                    // fair choice: the up voter with the most up-to-date log (ties: lowest id) times out and
                    // runs an election; every message is delivered. (Any fixed symmetric rotation can livelock
                    // a correct Raft; randomised timers are not modelled here.)
                    let mut cands: Vec<(u64, u64, u32)> = vec![];
                    for n in ids.iter() {
                        if let Some(v) = self.view(*n) {
                            if matches!(role_str(v.role), "F" | "C") {
                                let h = self.slots[n].h.as_ref().unwrap();
                                let lid = h.raft_log.last_log_id().unwrap_or_default();
                                cands.push((lid.term, lid.index, *n));
                            }
                        }
                    }
                    if cands.is_empty() {
                        break;
                    }
                    cands.sort_by(|a, b| b.0.cmp(&a.0).then(b.1.cmp(&a.1)).then(a.2.cmp(&b.2)));
                    let c = cands[0].2;
                    turn += 1;
                    if role_str(self.view(c).unwrap().role) == "F" {
                        let ok = self.do_timeout(c).await;
                        self.sub(json!({"a":"Timeout","n":c}), ok).await;
                    }
                    let ok = self.do_start_round(c).await;
                    self.sub(json!({"a":"StartRound","n":c}), ok).await;
                    self.do_drain(2).await;
                }
            }
        }
        self.do_drain(1).await;
        write_ok = write_ok || self.clients.iter().any(|c| c.val.starts_with("recover") && c.ok == Some(true));
        let mut leader = 0u32;
        let mut lcommit = 0u64;
        let mut lagging = vec![];
        // bounded quiet period: keep delivering + heartbeating until every live voter has applied the
        // leader's commit index (at most 10 more rounds)
        for _extra in 0..10 {
            let views: Vec<(u32, VerifView)> = ids.iter().filter_map(|n| self.view(*n).map(|v| (*n, v))).collect();
            let maxt = views.iter().map(|(_, v)| v.term).max().unwrap_or(0);
            leader = views.iter().find(|(_, v)| role_str(v.role) == "L" && v.term == maxt).map(|(n, _)| *n).unwrap_or(0);
            lcommit = views.iter().find(|(n, _)| *n == leader).map(|(_, v)| v.commit_index).unwrap_or(0);
            lagging.clear();
            for (n, v) in views.iter() {
                if matches!(role_str(v.role), "F" | "L" | "C") {
                    let applied = self.slots[n].h.as_ref().unwrap().sm.applied.lock().unwrap().index;
                    if applied < lcommit {
                        lagging.push(json!([n, applied, v.commit_index]));
                    }
                }
            }
            if leader != 0 && lagging.is_empty() {
                break;
            }
            self.do_drain(1).await;
        }
        self.events.push(json!({"e":"Recovered","leader":leader,"writeOk":write_ok,"leaderCommit":lcommit,
            "lagging": lagging, "rounds": rounds}));
        self.delivered.clear();
        true
    }

    /// Node `n` asks node `to` to join the cluster as a promotable learner (what
    /// `LearnerState::join_cluster` sends through the transport).
    async fn do_join(
        &mut self,
        n: u32,
        to: u32,
    ) -> bool {
        if !self.is_up(to) || self.is_busy(to) {
            return false;
        }
        let (tx, rx) = MaybeCloneOneshot::new();
        let req = d_engine_proto::server::cluster::JoinRequest {
            node_id: n,
            node_role: role_i32("Ln"),
            address: format!("127.0.0.1:{}", 9000 + n),
            status: status_i32("P"),
        };
        let id = self.joins.len() as u64 + 1;
        let known = self.slots[&to].h.as_ref().map(|h| h.membership.clone());
        let already = match known {
            Some(m) => m.contains_node(n).await,
            None => false,
        };
        self.events.push(json!({"e":"JoinInvoke","id":id,"n":n,"to":to,"alreadyMember":already,
            "toRole": role_str(self.view(to).unwrap().role)}));
        self.joins.push(JoinOp { id, node: n, to, rx, done: false });
        let _ = self.raft(to).unwrap().verif_inbound(vec![InboundEvent::JoinCluster(req, tx)]).await;
        self.settle().await;
        true
    }

    /// The health monitor of leader `to` reports node `n` as a zombie (leads to BatchRemove).
    async fn do_zombie(
        &mut self,
        n: u32,
        to: u32,
    ) -> bool {
        if !self.is_up(to) || self.is_busy(to) {
            return false;
        }
        let tx = self.raft(to).unwrap().internal_event_sender();
        let _ = tx.send(InternalEvent::ZombieDetected(n));
        self.settle().await;
        true
    }

    async fn do_crash(
        &mut self,
        n: u32,
    ) -> bool {
        if !self.is_up(n) {
            return false;
        }
        if self.is_busy(n) {
            // crash in the middle of an election round
            self.net.fail_votes_of(n);
            yield_many(50).await;
            let jh = self.slots.get_mut(&n).unwrap().round.take().unwrap();
            if let Ok((raft, _)) = jh.await {
                self.slots.get_mut(&n).unwrap().h.as_mut().unwrap().raft = Some(raft);
            }
        }
        for c in self.clients.iter_mut() {
            if c.node == n && !c.done {
                c.lost = true;
            }
        }
        let slot = self.slots.get_mut(&n).unwrap();
        let mut h = slot.h.take().unwrap();
        // What a process crash leaves behind: everything written to the store (page cache level).
        // The IO thread is stopped *before* the image is taken only if it is held; otherwise it
        // has already been run to quiescence by settle().
        let se_img = Arc::new(h.se.crash_image());
        let sm_img = Arc::new(h.sm.crash_image());
        h.se.l.hold.store(false, Ordering::SeqCst);
        h.sm.hold.store(false, Ordering::SeqCst);
        let log = h.raft_log.clone();
        h.crash();
        // stop the IO thread of the dead incarnation (writes go to the discarded store instance)
        log.close().await;
        slot.se = se_img;
        slot.sm = sm_img;
        slot.applied_seen = 0;
        self.net.forget_node(n);
        self.settle().await;
        true
    }

    async fn do_stop(
        &mut self,
        n: u32,
    ) -> bool {
        if !self.is_up(n) || self.is_busy(n) {
            return false;
        }
        let slot = self.slots.get_mut(&n).unwrap();
        let mut h = slot.h.take().unwrap();
        h.se.l.hold.store(false, Ordering::SeqCst);
        h.sm.hold.store(false, Ordering::SeqCst);
        h.graceful_stop().await;
        slot.se = Arc::new(h.se.crash_image());
        slot.sm = Arc::new(h.sm.crash_image());
        slot.applied_seen = 0;
        self.net.forget_node(n);
        self.settle().await;
        true
    }

    async fn do_restart(
        &mut self,
        n: u32,
    ) -> bool {
        if self.is_up(n) || !self.slots.contains_key(&n) {
            return false;
        }
        let cfg = node_config(&self.cfg, n, &self.snap_dir);
        let (se, sm) = {
            let s = &self.slots[&n];
            (s.se.clone(), s.sm.clone())
        };
        let h = build_node(cfg, se, sm, self.net.clone()).await;
        let slot = self.slots.get_mut(&n).unwrap();
        slot.h = Some(h);
        slot.incarnation += 1;
        self.settle().await;
        true
    }

    async fn do_hold_apply(
        &mut self,
        n: u32,
        on: bool,
    ) -> bool {
        if !self.is_up(n) {
            return false;
        }
        self.slots[&n].h.as_ref().unwrap().sm.hold.store(on, Ordering::SeqCst);
        self.settle().await;
        true
    }
    async fn do_hold_io(
        &mut self,
        n: u32,
        on: bool,
    ) -> bool {
        if !self.is_up(n) {
            return false;
        }
        self.slots[&n].h.as_ref().unwrap().se.l.hold.store(on, Ordering::SeqCst);
        if !on {
            // the IO task picks the backlog up on its next wake-up; an explicit flush is that wake-up
            let log = self.slots[&n].h.as_ref().unwrap().raft_log.clone();
            let _ = log.flush().await;
        }
        self.settle().await;
        true
    }

    async fn do_deliver_snap(
        &mut self,
        from: u32,
        to: u32,
        fail: bool,
    ) -> bool {
        let Some(m) = self.find_msg("SNAP", from, to, 0) else { return false };
        self.net.take(m.id);
        let w = self.net.0.lock().unwrap().snap_waiters.remove(&m.id);
        if fail || !self.is_up(to) || self.is_busy(to) || !self.is_up(from) {
            drop(w);
            self.settle().await;
            return true;
        }
        let Body::Snap(meta) = m.body else { return false };
        // Stream the leader's real snapshot through the leader's real loader and the
        // follower's real InstallSnapshotChunk path.
        let res = crate::snap::push_snapshot(self, from, to, meta).await;
        if let Some(w) = w {
            let _ = w.send(res.map_err(|e| {
                Error::System(SystemError::Network(NetworkError::ServiceUnavailable(e)))
            }));
        }
        self.settle().await;
        true
    }

    // -----------------------------------------------------------------------------------------
    // Projection
    // -----------------------------------------------------------------------------------------
    pub async fn project(&mut self) -> Value {
        let mut nodes = serde_json::Map::new();
        let ids: Vec<u32> = self.slots.keys().cloned().collect();
        for n in ids {
            nodes.insert(n.to_string(), self.project_node(n).await);
        }
        let net: Vec<Value> = self.net.bag().iter().map(msg_json).collect();
        json!({"nodes": nodes, "net": net, "clock": self.clock_ms})
    }

    async fn project_node(
        &mut self,
        n: u32,
    ) -> Value {
        let peers: Vec<u32> = self.slots.keys().cloned().collect();
        let slot = self.slots.get(&n).unwrap();
        let none_vote = json!({"id":0,"t":0,"c":false});
        let hs = match slot.h.as_ref() {
            Some(h) => {
                let g = *h.se.m.hs.lock().unwrap();
                hs_json(&g)
            }
            None => {
                let g = *slot.se.m.hs.lock().unwrap();
                hs_json(&g)
            }
        };
        match slot.h.as_ref() {
            None => {
                let ents: Vec<Entry> = slot.se.l.snapshot_cache().into_values().collect();
                let pb = slot.se.l.purge_boundary.lock().unwrap().unwrap_or_default();
                json!({"up":false,"busy":false,"role":"Down","term":0,"vote":none_vote,"commit":0,
                    "log": ents.iter().map(entry_json).collect::<Vec<_>>(),
                    "first": ents.first().map(|e| e.index).unwrap_or(0),
                    "base": pb.index, "baseTerm": pb.term,
                    "applied": slot.sm.applied.lock().unwrap().index,
                    "kv": kv_json(&slot.sm), "leader":0, "noop":0, "lease":false, "leaseAny": false,
                    "next": json!({}), "match": json!({}), "durable":0,
                    "persisted": ents.last().map(|e| e.index).unwrap_or(0),
                    "hs": hs, "view": json!({}), "inc": slot.incarnation, "snapIdx": snap_idx(&slot.sm),
                    "initSize": self.cfg.initial[&n].len()})
            }
            Some(h) => {
                let first = h.raft_log.first_entry_id();
                let last = h.raft_log.last_entry_id();
                let ents: Vec<Entry> = if last > 0 {
                    h.raft_log.get_entries_range(first.max(1)..=last).unwrap_or_default()
                } else {
                    vec![]
                };
                let pb = h.se.l.purge_boundary.lock().unwrap().unwrap_or_default();
                let (view, busy) = match h.raft.as_ref() {
                    Some(r) => (r.verif_view(), false),
                    None => {
                        let mut v = slot.last_view.clone().unwrap();
                        v.term = slot.round_term;
                        v.voted_for = Some((n, slot.round_term, false));
                        (v, true)
                    }
                };
                let mut next = serde_json::Map::new();
                let mut mtch = serde_json::Map::new();
                if let Some(r) = h.raft.as_ref() {
                    if role_str(view.role) == "L" {
                        for p in peers.iter().filter(|p| **p != n) {
                            let (nx, mi) = r.verif_peer_index(*p);
                            if let Some(nx) = nx {
                                next.insert(p.to_string(), json!(nx));
                            }
                            if let Some(mi) = mi {
                                mtch.insert(p.to_string(), json!(mi));
                            }
                        }
                    }
                }
                let vote = match view.voted_for {
                    Some((id, t, c)) => json!({"id":id,"t":t,"c":c}),
                    None => none_vote,
                };
                let members = h.membership.members().await;
                let mut mv = serde_json::Map::new();
                for m in members {
                    mv.insert(m.id.to_string(), json!([role_str(m.role), status_str(m.status)]));
                }
                json!({"up":true,"busy":busy,"role":role_str(view.role),"term":view.term,"vote":vote,
                    "commit":view.commit_index,
                    "log": ents.iter().map(entry_json).collect::<Vec<_>>(),
                    "first": first, "base": pb.index, "baseTerm": pb.term,
                    "applied": h.sm.applied.lock().unwrap().index,
                    "kv": kv_json(&h.sm), "leader": view.current_leader.unwrap_or(0),
                    "noop": view.noop_log_id.unwrap_or(0), "lease": view.lease_valid_for_term,
                    "leaseAny": view.lease_valid_any,
                    "next": next, "match": mtch, "durable": h.raft_log.durable_index(),
                    "persisted": h.se.l.last_index(),
                    "hs": hs, "view": mv, "inc": slot.incarnation,
                    "snapIdx": h.smh.get_latest_snapshot_metadata().and_then(|m| m.last_included).map(|l| l.index).unwrap_or(0),
                    "initSize": self.cfg.initial[&n].len()})
            }
        }
    }

    /// Enabled scheduler choices in the current real state (for the random driver).
    pub fn enabled(&self) -> Vec<Value> {
        let mut out = vec![];
        for (&n, s) in self.slots.iter() {
            match s.h.as_ref() {
                None => out.push(json!({"a":"Restart","n":n})),
                Some(h) => {
                    if s.round.is_some() {
                        out.push(json!({"a":"FinishRound","n":n}));
                        out.push(json!({"a":"Crash","n":n}));
                        continue;
                    }
                    let v = h.raft.as_ref().unwrap().verif_view();
                    match role_str(v.role) {
                        "F" => out.push(json!({"a":"Timeout","n":n})),
                        "C" => out.push(json!({"a":"StartRound","n":n})),
                        "L" => out.push(json!({"a":"Heartbeat","n":n})),
                        _ => {}
                    }
                    out.push(json!({"a":"Crash","n":n}));
                    out.push(json!({"a":"Stop","n":n}));
                    let io_held = h.se.l.hold.load(Ordering::SeqCst);
                    let ap_held = h.sm.hold.load(Ordering::SeqCst);
                    out.push(json!({"a":"HoldIo","n":n,"on": if io_held {0} else {1}}));
                    out.push(json!({"a":"HoldApply","n":n,"on": if ap_held {0} else {1}}));
                }
            }
        }
        // membership: configured learners may ask any up node to join; rarely a zombie report
        for (&n, _) in self.slots.iter() {
            let is_learner_cfg = self.cfg.initial[&n]
                .iter()
                .any(|(id, r, _)| *id == n && *r == role_i32("Ln"));
            if !is_learner_cfg {
                continue;
            }
            for (&to, s) in self.slots.iter() {
                if to != n && s.h.is_some() && s.round.is_none() {
                    out.push(json!({"a":"Join","n":n,"to":to}));
                }
            }
        }
        let mut seen = std::collections::BTreeSet::new();
        for m in self.net.bag() {
            let key = (m.ty(), m.from, m.to);
            if !seen.insert(key) {
                continue;
            }
            let to_ok = self.is_up(m.to) && !self.is_busy(m.to);
            match m.ty() {
                "VQ" => {
                    if to_ok {
                        out.push(json!({"a":"DeliverVQ","from":m.from,"to":m.to}));
                    }
                    out.push(json!({"a":"DropVQ","from":m.from,"to":m.to}));
                }
                "AE" => {
                    if to_ok {
                        out.push(json!({"a":"DeliverAE","from":m.from,"to":m.to,"k":1}));
                    }
                    out.push(json!({"a":"DropMsg","ty":"AE","from":m.from,"to":m.to}));
                }
                "AR" => {
                    if to_ok {
                        out.push(json!({"a":"DeliverAR","from":m.from,"to":m.to}));
                    }
                    out.push(json!({"a":"DropMsg","ty":"AR","from":m.from,"to":m.to}));
                }
                "SNAP" => {
                    out.push(json!({"a":"DeliverSnap","from":m.from,"to":m.to}));
                }
                _ => {}
            }
        }
        out
    }

    pub async fn shutdown(mut self) {
        let ids: Vec<u32> = self.slots.keys().cloned().collect();
        for n in ids {
            if self.is_busy(n) {
                self.net.fail_votes_of(n);
                yield_many(50).await;
                let jh = self.slots.get_mut(&n).unwrap().round.take().unwrap();
                if let Ok((raft, _)) = jh.await {
                    self.slots.get_mut(&n).unwrap().h.as_mut().unwrap().raft = Some(raft);
                }
            }
            if let Some(mut h) = self.slots.get_mut(&n).unwrap().h.take() {
                h.se.l.hold.store(false, Ordering::SeqCst);
                h.sm.hold.store(false, Ordering::SeqCst);
                let log = h.raft_log.clone();
                h.crash();
                log.close().await;
            }
        }
        verif_clock::set(None);
    }
}

/// Does message `m` match the optional content fields of a schedule label?
pub fn msg_matches(
    m: &Msg,
    sel: &Value,
) -> bool {
    let g = |k: &str| sel.get(k).and_then(|x| x.as_u64());
    match &m.body {
        Body::Vote(r) => g("t").map(|t| t == r.term).unwrap_or(true),
        Body::Ae(r) => {
            g("t").map(|t| t == r.term).unwrap_or(true)
                && g("prev").map(|p| p == r.prev_log_index).unwrap_or(true)
                && g("cnt").map(|c| c == r.entries.len() as u64).unwrap_or(true)
                && g("lc").map(|c| c == r.leader_commit_index).unwrap_or(true)
        }
        Body::Ar(r) => {
            let (kind, mi, _, _, _) = ar_fields(r);
            g("t").map(|t| t == r.term).unwrap_or(true)
                && g("mi").map(|x| x == mi).unwrap_or(true)
                && sel.get("kind").and_then(|x| x.as_str()).map(|k| k.is_empty() || k == kind).unwrap_or(true)
        }
        _ => true,
    }
}

fn snap_idx(sm: &MemSm) -> u64 {
    sm.snap_meta.lock().unwrap().as_ref().and_then(|m| m.last_included).map(|l| l.index).unwrap_or(0)
}

fn hs_json(h: &Option<HardState>) -> Value {
    match h {
        None => json!({"saved":false,"term":0,"vid":0,"vt":0}),
        Some(h) => json!({"saved":true,"term":h.current_term,
            "vid": h.voted_for.map(|v| v.voted_for_id).unwrap_or(0),
            "vt": h.voted_for.map(|v| v.voted_for_term).unwrap_or(0)}),
    }
}

fn kv_json(sm: &MemSm) -> Value {
    Value::Array(
        sm.kv_sorted()
            .into_iter()
            .map(|(k, v)| json!([String::from_utf8_lossy(&k), String::from_utf8_lossy(&v)]))
            .collect(),
    )
}

pub fn poll_once<F: std::future::Future + Unpin>(mut f: F) -> Option<F::Output> {
    let waker = futures::task::noop_waker();
    let mut cx = std::task::Context::from_waker(&waker);
    match std::pin::Pin::new(&mut f).poll(&mut cx) {
        std::task::Poll::Ready(v) => Some(v),
        std::task::Poll::Pending => None,
    }
}

pub fn cmd_json(c: &Command) -> Value {
    let s = |b: &Bytes| String::from_utf8_lossy(b).to_string();
    match c {
        Command::Noop => json!({"op":"noop","key":"","val":"","exp":""}),
        Command::Insert { key, value, .. } => json!({"op":"put","key":s(key),"val":s(value),"exp":""}),
        Command::Delete { key } => json!({"op":"del","key":s(key),"val":"","exp":""}),
        Command::CompareAndSwap { key, expected, value } => json!({"op":"cas","key":s(key),"val":s(value),
            "exp": expected.as_ref().map(s).unwrap_or_else(|| "-".into())}),
    }
}

pub fn cmd_str(c: &Command) -> String {
    let s = |b: &Bytes| String::from_utf8_lossy(b).to_string();
    match c {
        Command::Noop => "noop".into(),
        Command::Insert { key, value, ttl_secs } => match ttl_secs {
            None => format!("put:{}:{}", s(key), s(value)),
            Some(t) => format!("putttl:{}:{}:{}", s(key), s(value), t),
        },
        Command::Delete { key } => format!("del:{}", s(key)),
        Command::CompareAndSwap { key, expected, value } => format!(
            "cas:{}:{}:{}",
            s(key),
            expected.as_ref().map(s).unwrap_or_else(|| "-".into()),
            s(value)
        ),
    }
}

pub fn entry_json(e: &Entry) -> Value {
    let (k, v) = match e.payload.as_ref().and_then(|p| p.payload.as_ref()) {
        Some(Payload::Noop(_)) => ("noop", "".to_string()),
        Some(Payload::Config(mc)) => ("cfg", cfg_str(mc)),
        Some(Payload::Command(data)) => {
            match d_engine_proto::client::WriteCommand::decode(&data[..]) {
                Ok(wc) => match Command::try_from(wc) {
                    Ok(c) => ("cmd", cmd_str(&c)),
                    Err(_) => ("cmd", "undecodable".into()),
                },
                Err(_) => ("cmd", "undecodable".into()),
            }
        }
        None => ("none", "".into()),
    };
    json!({"i": e.index, "t": e.term, "k": k, "v": v, "ids": cfg_ids(e)})
}

/// node ids a membership entry talks about (empty for every other entry)
pub fn cfg_ids(e: &Entry) -> Vec<u32> {
    match e.payload.as_ref().and_then(|p| p.payload.as_ref()) {
        Some(Payload::Config(mc)) => match &mc.change {
            Some(membership_change::Change::AddNode(a)) => vec![a.node_id],
            Some(membership_change::Change::RemoveNode(r)) => vec![r.node_id],
            Some(membership_change::Change::Promote(p)) => vec![p.node_id],
            Some(membership_change::Change::BatchPromote(b)) => b.node_ids.clone(),
            Some(membership_change::Change::BatchRemove(b)) => b.node_ids.clone(),
            None => vec![],
        },
        _ => vec![],
    }
}

fn cfg_str(mc: &d_engine_proto::common::MembershipChange) -> String {
    match &mc.change {
        Some(membership_change::Change::AddNode(_)) => "add".into(),
        Some(membership_change::Change::RemoveNode(_)) => "remove".into(),
        Some(membership_change::Change::Promote(_)) => "promote".into(),
        Some(membership_change::Change::BatchPromote(_)) => "batchpromote".into(),
        Some(membership_change::Change::BatchRemove(_)) => "batchremove".into(),
        None => "none".into(),
    }
}

pub fn ar_fields(r: &AppendEntriesResponse) -> (&'static str, u64, u64, u64, u64) {
    match &r.result {
        Some(ArRes::Success(s)) => {
            let lm = s.last_match.unwrap_or_default();
            ("ok", lm.index, lm.term, 0, 0)
        }
        Some(ArRes::Conflict(c)) => {
            ("conflict", 0, 0, c.conflict_term.unwrap_or(0), c.conflict_index.unwrap_or(0))
        }
        Some(ArRes::HigherTerm(t)) => ("higher", 0, *t, 0, 0),
        None => ("none", 0, 0, 0, 0),
    }
}

pub fn msg_json(m: &Msg) -> Value {
    match &m.body {
        Body::Vote(r) => json!({"ty":"VQ","from":m.from,"to":m.to,"t":r.term,"li":r.last_log_index,"lt":r.last_log_term}),
        Body::Ae(r) => ae_json(m.from, m.to, r),
        Body::Ar(r) => {
            let (kind, mi, mt, ct, ci) = ar_fields(r);
            json!({"ty":"AR","from":m.from,"to":m.to,"t":r.term,"kind":kind,"mi":mi,"mt":mt,"ct":ct,"ci":ci})
        }
        Body::Snap(meta) => {
            let li = meta.last_included.unwrap_or_default();
            json!({"ty":"SNAP","from":m.from,"to":m.to,"idx":li.index,"t":li.term})
        }
        Body::Join(j) => json!({"ty":"JOIN","from":m.from,"to":m.to,"node":j.node_id}),
    }
}

pub fn ae_json(
    from: u32,
    to: u32,
    r: &AppendEntriesRequest,
) -> Value {
    json!({"ty":"AE","from":from,"to":to,"t":r.term,"prev":r.prev_log_index,"pt":r.prev_log_term,
        "ents": r.entries.iter().map(entry_json).collect::<Vec<_>>(), "lc": r.leader_commit_index})
}
