//! Snapshot push through the real loader (leader side: DefaultStateMachineHandler::load_snapshot_data)
//! and the real installer (follower side: InboundEvent::InstallSnapshotChunk ->
//! apply_snapshot_stream_from_leader).
use d_engine_core::*;
use d_engine_proto::server::storage::SnapshotMetadata;
use futures::StreamExt;
use serde_json::json;

use crate::sim::{Cluster, poll_once};

pub async fn push_snapshot(
    c: &mut Cluster,
    from: u32,
    to: u32,
    meta: SnapshotMetadata,
) -> std::result::Result<(), String> {
    let smh = match c.slots.get(&from).and_then(|s| s.h.as_ref()) {
        Some(h) => h.smh.clone(),
        None => return Err("leader down".into()),
    };
    let mut stream = smh.load_snapshot_data(meta.clone()).await.map_err(|e| format!("load: {e:?}"))?;
    let mut chunks = vec![];
    while let Some(ch) = stream.next().await {
        match ch {
            Ok(ch) => chunks.push(ch),
            Err(e) => return Err(format!("chunk stream: {e:?}")),
        }
    }
    let n = chunks.len();
    let (tx, rx) = tokio::sync::mpsc::channel(n.max(1) + 1);
    for ch in chunks {
        let _ = tx.send(ch).await;
    }
    drop(tx);
    let (rtx, rrx) = MaybeCloneOneshot::new();
    let li = meta.last_included.unwrap_or_default();
    {
        let Some(r) = c.slots.get_mut(&to).and_then(|s| s.h.as_mut()).and_then(|h| h.raft.as_mut()) else {
            return Err("follower down".into());
        };
        let _ = r.verif_inbound(vec![InboundEvent::InstallSnapshotChunk(rx, rtx)]).await;
        let _ = r.verif_internal().await;
    }
    let resp = poll_once(rrx).and_then(|r| r.ok()).and_then(|r| r.ok());
    match resp {
        Some(r) => {
            c.events.push(json!({"e":"SnapInstall","from":from,"to":to,"idx":li.index,"t":li.term,
                "chunks":n,"ok":r.success,"term":r.term}));
            if r.success { Ok(()) } else { Err("follower reported failure".into()) }
        }
        None => {
            c.events.push(json!({"e":"SnapInstall","from":from,"to":to,"idx":li.index,"t":li.term,
                "chunks":n,"ok":false,"term":0}));
            Err("no snapshot response".into())
        }
    }
}
