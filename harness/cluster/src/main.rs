//! dv-cluster: drive real d-engine Raft nodes from schedules (TLC-generated or random) and
//! write full-state ndjson traces.
mod sim;
mod snap;

use dv_common::util::{NdjsonWriter, run_paused};
use rand::prelude::*;
use serde_json::{Value, json};
use sim::{Cluster, ClusterCfg};

fn arg(
    args: &[String],
    name: &str,
) -> Option<String> {
    args.iter().position(|a| a == name).and_then(|i| args.get(i + 1)).cloned()
}

fn main() {
    let args: Vec<String> = std::env::args().collect();
    let mode = args.get(1).cloned().unwrap_or_default();
    let out = arg(&args, "--out").unwrap_or_else(|| "trace.ndjson".into());
    let scratch = arg(&args, "--scratch").unwrap_or_else(|| "/verif/.work/snap".into());
    let mut w = NdjsonWriter::create(&out);
    match mode.as_str() {
        "replay" => {
            let path = arg(&args, "--schedules").expect("--schedules");
            let text = std::fs::read_to_string(&path).expect("read schedules");
            let mut run = 0u64;
            for line in text.lines() {
                let line = line.trim();
                if line.is_empty() {
                    continue;
                }
                let sched: Value = serde_json::from_str(line).expect("schedule json");
                run += 1;
                run_one(&mut w, run, &sched, &scratch, None);
            }
        }
        "random" => {
            let runs: u64 = arg(&args, "--runs").and_then(|s| s.parse().ok()).unwrap_or(10);
            let depth: usize = arg(&args, "--depth").and_then(|s| s.parse().ok()).unwrap_or(40);
            let seed: u64 = arg(&args, "--seed").and_then(|s| s.parse().ok()).unwrap_or(1);
            let cfgv: Value = arg(&args, "--cfg")
                .map(|s| serde_json::from_str(&s).expect("cfg json"))
                .unwrap_or(json!({"n":3}));
            let profile = arg(&args, "--profile").unwrap_or_else(|| "default".into());
            for run in 1..=runs {
                let sched = json!({"id": format!("rnd-{seed}-{run}"), "cfg": cfgv, "steps": []});
                let rng = StdRng::seed_from_u64(seed.wrapping_mul(1_000_003).wrapping_add(run));
                run_one(&mut w, run, &sched, &scratch, Some((rng, depth, profile.clone())));
            }
        }
        _ => {
            eprintln!("usage: dv-cluster replay --schedules F --out T | random --runs N --depth D --seed S --out T");
            std::process::exit(2);
        }
    }
    w.finish();
}

fn run_one(
    w: &mut NdjsonWriter,
    run: u64,
    sched: &Value,
    scratch: &str,
    random: Option<(StdRng, usize, String)>,
) {
    let cfg = ClusterCfg::from_json(sched.get("cfg").unwrap_or(&json!({})));
    let id = sched.get("id").cloned().unwrap_or(json!(run));
    let steps: Vec<Value> = sched.get("steps").and_then(|s| s.as_array()).cloned().unwrap_or_default();
    let snap_dir = std::path::PathBuf::from(format!("{scratch}/run{run}-{}", std::process::id()));
    let _ = std::fs::create_dir_all(&snap_dir);
    let sd = snap_dir.clone();
    run_paused(async move {
        let mut c = Cluster::new(cfg.clone(), sd).await;
        let st = c.project().await;
        let ev = std::mem::take(&mut c.events);
        w.write(&json!({"run":run,"id":id,"step":0,"a":{"a":"Init"},"applied":true,"st":st,"ev":ev,"msgs":[],
            "cfg": {"n": cfg.n, "cap": cfg.cap, "lease_ms": cfg.lease_ms}, "cfgIn": sched.get("cfg").cloned().unwrap_or(json!({}))}));
        let mut i = 0u64;
        match random {
            None => {
                for s in steps {
                    i += 1;
                    let label = s.get("a").cloned().unwrap_or(s.clone());
                    let label = if label.is_object() { label } else { s.clone() };
                    let applied = c.step(&label).await;
                    for sr in std::mem::take(&mut c.subrecs) {
                        let mut sr = sr;
                        sr["run"] = json!(run); sr["id"] = id.clone(); sr["step"] = json!(i); sr["sub"] = json!(true);
                        w.write(&sr);
                        i += 1;
                    }
                    let label = if label["a"] == "Drain" { json!({"a":"DrainEnd"}) } else { label };
                    let st = c.project().await;
                    let ev = std::mem::take(&mut c.events);
                    let dl = std::mem::take(&mut c.delivered);
                    let mut rec = json!({"run":run,"id":id,"step":i,"a":label,"applied":applied,"st":st,"ev":ev,"msgs":dl});
                    if let Some(exp) = s.get("exp") {
                        rec["exp"] = exp.clone();
                    }
                    w.write(&rec);
                }
            }
            Some((mut rng, depth, profile)) => {
                let mut nclient = 0u32;
                for _ in 0..depth {
                    i += 1;
                    let mut en = c.enabled();
                    // client operations on any up node
                    let ups: Vec<u32> = c.slots.keys().cloned().filter(|n| c.is_up(*n) && !c.is_busy(*n)).collect();
                    for &n in &ups {
                        nclient += 1;
                        let key = if rng.random_bool(0.5) { "k1" } else { "k2" };
                        en.push(json!({"a":"Client","n":n,"op":"put","key":key,"val":format!("v{nclient}")}));
                    }
                    // batches: several commands in one drain of the command channel (write + CAS + linearizable read)
                    for &n in &ups {
                        nclient += 1;
                        let k = if rng.random_bool(0.5) { "k1" } else { "k2" };
                        let exp = match rng.random_range(0..3) { 0 => "-".to_string(), 1 => format!("v{}", nclient.saturating_sub(rng.random_range(1..6))), _ => format!("c{}", nclient.saturating_sub(rng.random_range(1..6))) };
                        en.push(json!({"a":"ClientBatch","n":n,"ops":[
                            {"op":"put","key":k,"val":format!("v{nclient}")},
                            {"op":"cas","key":k,"val":format!("c{nclient}"),"exp":exp},
                            {"op":"read","key":k,"policy":"lin"}]}));
                        en.push(json!({"a":"Client","n":n,"op":"cas","key":k,"val":format!("d{nclient}"),"exp": if rng.random_bool(0.5) {"-".to_string()} else {format!("v{}", nclient.saturating_sub(1))}}));
                    }
                    if profile == "reads" {
                        for &n in &ups {
                            let key = if rng.random_bool(0.5) { "k1" } else { "k2" };
                            for pol in ["lin", "lease", "ev"] {
                                en.push(json!({"a":"Client","n":n,"op":"read","key":key,"policy":pol}));
                            }
                        }
                        en.push(json!({"a":"Advance","ms":60}));
                        en.push(json!({"a":"Advance","ms":200}));
                    }
                    // weights by profile
                    let wt = |s: &Value| -> u32 {
                        let a = s["a"].as_str().unwrap_or("");
                        match (profile.as_str(), a) {
                            ("reads", "Crash") => 1,
                            ("reads", "Stop") => 0,
                            ("reads", "Client") => 6,
                            ("reads", "Advance") => 10,
                            ("reads", "Timeout") => 3,
                            ("reads", "DropMsg") => 8,
                            ("reads", "Heartbeat") => 25,
                            // slow state-machine apply under reads (apply gate of linearizable reads)
                            ("reads", "HoldApply") => if s["on"] == 0 { 5 } else { 3 },
                            ("member", "Crash") => 1,
                            ("member", "Stop") => 1,
                            ("member", "Join") => 12,
                            ("member", "Timeout") => 3,
                            ("member", "Client") => 3,
                            ("member", "DropMsg") => 2,
                            ("member", "DropVQ") => 3,
                            ("holds", "HoldIo") => 6,
                            ("holds", "HoldApply") => 6,
                            (_, "HoldIo") => if s["on"] == 0 { 8 } else { 0 },
                            (_, "HoldApply") => if s["on"] == 0 { 8 } else { 0 },
                            (_, "Crash") => 2,
                            (_, "Stop") => 1,
                            (_, "Restart") => 30,
                            (_, "Timeout") => 6,
                            (_, "StartRound") => 25,
                            (_, "FinishRound") => 10,
                            (_, "DeliverVQ") => 40,
                            (_, "DropVQ") => 6,
                            (_, "DeliverAE") => 40,
                            (_, "DeliverAR") => 40,
                            (_, "DropMsg") => 4,
                            (_, "Heartbeat") => 12,
                            (_, "Client") => 6,
                            (_, "ClientBatch") => 3,
                            (_, "DeliverSnap") => 20,
                            (_, "Join") => 3,
                            _ => 1,
                        }
                    };
                    if en.is_empty() {
                        break;
                    }
                    en.retain(|s| wt(s) > 0);
                    let total: u32 = en.iter().map(&wt).sum();
                    let mut pick = rng.random_range(0..total);
                    let mut chosen = en[0].clone();
                    for s in &en {
                        let x = wt(s);
                        if pick < x {
                            chosen = s.clone();
                            break;
                        }
                        pick -= x;
                    }
                    // occasional batching / duplication variants
                    if chosen["a"] == "DeliverAE" {
                        let r: u32 = rng.random_range(0..10);
                        if r == 0 {
                            chosen["dup"] = json!(1);
                        } else if r <= 2 {
                            chosen["k"] = json!(2);
                        } else if r == 3 {
                            chosen["idx"] = json!(1);
                        }
                    }
                    let applied = c.step(&chosen).await;
                    for sr in std::mem::take(&mut c.subrecs) {
                        let mut sr = sr;
                        sr["run"] = json!(run); sr["id"] = id.clone(); sr["step"] = json!(i); sr["sub"] = json!(true);
                        w.write(&sr);
                        i += 1;
                    }
                    let st = c.project().await;
                    let ev = std::mem::take(&mut c.events);
                    let dl = std::mem::take(&mut c.delivered);
                    w.write(&json!({"run":run,"id":id,"step":i,"a":chosen,"applied":applied,"st":st,"ev":ev,"msgs":dl}));
                }
            }
        }
        // epilogues: C30 (no silently dropped request), C32 (recovery once faults stop)
        for lbl in [json!({"a":"Final"}), json!({"a":"Recover","rounds":16})] {
            i += 1;
            let applied = c.step(&lbl).await;
            for sr in std::mem::take(&mut c.subrecs) {
                let mut sr = sr;
                sr["run"] = json!(run); sr["id"] = id.clone(); sr["step"] = json!(i); sr["sub"] = json!(true);
                w.write(&sr);
                i += 1;
            }
            let lbl = if lbl["a"] == "Final" { json!({"a":"FinalEnd"}) } else if lbl["a"] == "Recover" { json!({"a":"RecoverEnd"}) } else { lbl };
            let st = c.project().await;
            let ev = std::mem::take(&mut c.events);
            let dl = std::mem::take(&mut c.delivered);
            w.write(&json!({"run":run,"id":id,"step":i,"a":lbl,"applied":applied,"st":st,"ev":ev,"msgs":dl}));
        }
        c.shutdown().await;
    });
    let _ = std::fs::remove_dir_all(&snap_dir);
}
