fn main() { eprintln!("not built yet"); std::process::exit(2); }
