//! dv-funcs: function-style properties. TLC enumerates the input space of a reference semantics
//! (spec/Config.tla, ClientCodec.tla, ReadRoute.tla, MergeAE.tla) and computes the expected
//! outcome; every enumerated case is executed here against the real d-engine code and the
//! observation is written as one ndjson record. One sub-command per property.
mod codec;
mod config;
mod engine;
mod merge;
mod mget;
mod route;
mod sim;
mod snap;

pub fn arg(
    args: &[String],
    name: &str,
) -> Option<String> {
    args.iter().position(|a| a == name).and_then(|i| args.get(i + 1)).cloned()
}

fn main() {
    let args: Vec<String> = std::env::args().collect();
    let mode = args.get(1).cloned().unwrap_or_default();
    let cases = arg(&args, "--cases").unwrap_or_default();
    let out = arg(&args, "--out").unwrap_or_else(|| "out.ndjson".into());
    let scratch = arg(&args, "--scratch").unwrap_or_else(|| "/verif/.work/funcs-scratch".into());
    let _ = std::fs::create_dir_all(&scratch);
    let rc = match mode.as_str() {
        "config" => config::run(&cases, &out, &scratch),
        "codec" => codec::run(&cases, &out, &scratch),
        "route" => route::run(&cases, &out, &scratch),
        "merge" => merge::run(&cases, &out, &scratch),
        "mget" => mget::run(&cases, &out, &scratch, &arg(&args, "--sm").unwrap_or_else(|| "file".into())),
        _ => {
            eprintln!("usage: dv-funcs config|codec|mget|merge|route --cases F --out F --scratch D");
            2
        }
    };
    std::process::exit(rc);
}
