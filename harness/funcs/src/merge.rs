//! C36: every TLC-enumerated (follower, queue) case is executed on two identically prepared real
//! followers (dv_common simulated node: production Raft loop pieces, BufferedRaftLog, replication
//! handler): node M gets the whole queue in ONE `verif_inbound` call (real `merge_append_entries` + the
//! real workflow fanning its single response out), node S gets one request per call. Log, commit index
//! and every sender's response of both runs are recorded.
use std::io::{BufRead, Write};
use std::sync::Arc;

use d_engine_core::*;
use d_engine_proto::common::entry_payload::Payload;
use d_engine_proto::common::{Entry, EntryPayload, NodeRole, NodeStatus, Noop};
use d_engine_proto::server::replication::append_entries_response::Result as ArRes;
use d_engine_proto::server::replication::{AppendEntriesRequest, AppendEntriesResponse};
use dv_common::mem::{MemEngine, MemSm};
use dv_common::net::Net;
use dv_common::node::{NodeH, build_node, node_meta};
use dv_common::util::{run_paused, yield_many};
use serde_json::{Value, json};

pub fn poll_once<F: std::future::Future + Unpin>(mut f: F) -> Option<F::Output> {
    let waker = futures::task::noop_waker();
    let mut cx = std::task::Context::from_waker(&waker);
    match std::pin::Pin::new(&mut f).poll(&mut cx) {
        std::task::Poll::Ready(v) => Some(v),
        std::task::Poll::Pending => None,
    }
}

fn entry(
    i: u64,
    t: u64,
) -> Entry {
    Entry {
        index: i,
        term: t,
        payload: Some(EntryPayload {
            payload: Some(Payload::Noop(Noop {})),
        }),
    }
}

/// "1:1,2:1" -> entries
fn parse_ents(s: &str) -> Vec<Entry> {
    if s == "-" || s.is_empty() {
        return vec![];
    }
    s.split(',')
        .map(|x| {
            let (i, t) = x.split_once(':').unwrap();
            entry(i.parse().unwrap(), t.parse().unwrap())
        })
        .collect()
}

fn ack_str(r: &AppendEntriesResponse) -> String {
    format!("{}@{}", ack_body(r), r.term)
}

fn ack_body(r: &AppendEntriesResponse) -> String {
    match &r.result {
        Some(ArRes::Success(s)) => {
            let lm = s.last_match.unwrap_or_default();
            format!("ok.{}.{}", lm.index, lm.term)
        }
        Some(ArRes::Conflict(c)) => format!("conflict.{}.{}", c.conflict_term.unwrap_or(0), c.conflict_index.unwrap_or(0)),
        Some(ArRes::HigherTerm(t)) => format!("higher.{t}"),
        None => "none".into(),
    }
}

async fn follower(
    mm: usize,
    scratch: &std::path::Path,
) -> NodeH {
    let mut cfg = RaftNodeConfig::default();
    cfg.cluster.node_id = 2;
    cfg.cluster.initial_cluster = (1..=3)
        .map(|i| node_meta(i, NodeRole::Follower as i32, NodeStatus::Active as i32))
        .collect();
    cfg.raft.snapshot.enable = false;
    cfg.raft.snapshot.snapshots_dir = scratch.join("snap-n2");
    cfg.raft.batching.max_merge_entries = mm;
    build_node(cfg, Arc::new(MemEngine::default()), Arc::new(MemSm::new()), Net::default()).await
}

async fn settle(h: &mut NodeH) {
    for _ in 0..6 {
        yield_many(10).await;
        let n = h.raft.as_mut().unwrap().verif_internal().await.unwrap_or(0);
        if n == 0 {
            break;
        }
    }
}

/// Deliver `reqs` in one `verif_inbound` call; returns one ack string per request.
async fn deliver(
    h: &mut NodeH,
    reqs: &[AppendEntriesRequest],
) -> Vec<String> {
    let mut evs = vec![];
    let mut rxs = vec![];
    for r in reqs {
        let (tx, rx) = MaybeCloneOneshot::new();
        rxs.push(rx);
        evs.push(InboundEvent::AppendEntries(r.clone(), vec![tx]));
    }
    let res = h.raft.as_mut().unwrap().verif_inbound(evs).await;
    settle(h).await;
    let mut acks = vec![];
    for rx in rxs {
        let a = match poll_once(rx) {
            Some(Ok(Ok(resp))) => ack_str(&resp),
            Some(Ok(Err(st))) => format!("status.{:?}", st.code()),
            Some(Err(_)) => "dropped".into(),
            None => "pending".into(),
        };
        acks.push(a);
    }
    if let Err(e) = res {
        acks.push(format!("error:{e:?}"));
    }
    acks
}

fn project(h: &NodeH) -> (String, u64, u64) {
    let first = h.raft_log.first_entry_id();
    let last = h.raft_log.last_entry_id();
    let ents: Vec<Entry> = if last > 0 {
        h.raft_log.get_entries_range(first.max(1)..=last).unwrap_or_default()
    } else {
        vec![]
    };
    let log = if ents.is_empty() {
        "-".to_string()
    } else {
        ents.iter().map(|e| format!("{}:{}", e.index, e.term)).collect::<Vec<_>>().join(",")
    };
    let v = h.raft.as_ref().unwrap().verif_view();
    (log, v.commit_index, v.term)
}

struct Case {
    id: u64,
    flog: String,
    fcommit: u64,
    fterm: u64,
    mm: usize,
    reqs: Vec<AppendEntriesRequest>,
}

async fn prepare(
    c: &Case,
    scratch: &std::path::Path,
) -> std::result::Result<NodeH, String> {
    let mut h = follower(c.mm, scratch).await;
    settle(&mut h).await;
    // the follower's past: one AppendEntries of leader 1 in term `fterm` carrying the whole log
    let prep = AppendEntriesRequest {
        term: c.fterm,
        leader_id: 1,
        prev_log_index: 0,
        prev_log_term: 0,
        entries: parse_ents(&c.flog),
        leader_commit_index: c.fcommit,
    };
    let a = deliver(&mut h, &[prep]).await;
    let (log, commit, term) = project(&h);
    if log != c.flog || commit != c.fcommit || term != c.fterm || !a[0].starts_with("ok") {
        return Err(format!("preparation failed: log={log} commit={commit} term={term} ack={a:?}"));
    }
    Ok(h)
}

pub fn run(
    cases: &str,
    out: &str,
    scratch: &str,
) -> i32 {
    let scratch = std::path::PathBuf::from(scratch);
    let f = std::io::BufReader::new(std::fs::File::open(cases).expect("open cases"));
    let mut w = std::io::BufWriter::new(std::fs::File::create(out).expect("create out"));
    let mut list = vec![];
    for line in f.lines() {
        let line = line.unwrap();
        if line.trim().is_empty() {
            continue;
        }
        let v: Value = serde_json::from_str(&line).expect("case json");
        let reqs = v["q"]
            .as_array()
            .unwrap()
            .iter()
            .map(|r| AppendEntriesRequest {
                term: r["t"].as_u64().unwrap(),
                leader_id: 1,
                prev_log_index: r["prev"].as_u64().unwrap(),
                prev_log_term: r["pt"].as_u64().unwrap(),
                entries: parse_ents(r["ents"].as_str().unwrap()),
                leader_commit_index: r["lc"].as_u64().unwrap(),
            })
            .collect();
        list.push(Case {
            id: v["id"].as_u64().unwrap(),
            flog: v["flog"].as_str().unwrap().to_string(),
            fcommit: v["fcommit"].as_u64().unwrap(),
            fterm: v["fterm"].as_u64().unwrap(),
            mm: v["mm"].as_u64().unwrap() as usize,
            reqs,
        });
    }
    std::panic::set_hook(Box::new(|_| {}));
    let rc = run_paused(async move {
        for c in &list {
            let mut m = match prepare(c, &scratch).await {
                Ok(h) => h,
                Err(e) => {
                    eprintln!("case {}: {e}", c.id);
                    return 2;
                }
            };
            let mut s = match prepare(c, &scratch).await {
                Ok(h) => h,
                Err(e) => {
                    eprintln!("case {}: {e}", c.id);
                    return 2;
                }
            };
            // merged: the whole queue is in the inbound buffer when the node looks at it
            let macks = deliver(&mut m, &c.reqs).await;
            // sequential: one request at a time
            let mut sacks = vec![];
            for r in &c.reqs {
                sacks.extend(deliver(&mut s, std::slice::from_ref(r)).await);
            }
            let (ml, mc, mt) = project(&m);
            let (sl, sc, stt) = project(&s);
            let rec = json!({"id": c.id,
                "M": {"log": ml, "commit": mc, "term": mt, "acks": macks},
                "S": {"log": sl, "commit": sc, "term": stt, "acks": sacks}});
            serde_json::to_writer(&mut w, &rec).unwrap();
            w.write_all(b"\n").unwrap();
            m.graceful_stop().await;
            s.graceful_stop().await;
        }
        w.flush().unwrap();
        0
    });
    rc
}
