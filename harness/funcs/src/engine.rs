//! A real single-node d-engine (EmbeddedEngine: production NodeBuilder wiring, Raft loop, commit handler,
//! state-machine worker, gRPC service on 127.0.0.1) plus the two real clients: the embedded client of the
//! engine and a `GrpcClient` connected to the node's loopback gRPC service.
use std::fmt::Debug;
use std::path::Path;
use std::sync::Arc;
use std::time::Duration;

use d_engine_client::{Client, ClientBuilder};
use d_engine_core::{StateMachine, StorageEngine};
use d_engine_server::{EmbeddedClient, EmbeddedEngine};

pub fn free_port() -> u16 {
    let l = std::net::TcpListener::bind("127.0.0.1:0").expect("bind");
    l.local_addr().unwrap().port()
}

pub struct Single<SE: StorageEngine + Debug + 'static, SM: StateMachine + Debug + 'static> {
    pub engine: EmbeddedEngine<SE, SM>,
    pub embedded: Arc<EmbeddedClient<SE, SM>>,
    pub port: u16,
}

/// `raft_toml`: extra lines for the `[raft.*]` tables (complete tables).
pub async fn start_single<SE, SM>(
    dir: &Path,
    se: Arc<SE>,
    sm: Arc<SM>,
    raft_toml: &str,
) -> Result<Single<SE, SM>, String>
where
    SE: StorageEngine + Debug + 'static,
    SM: StateMachine + Debug + 'static,
{
    std::fs::create_dir_all(dir).map_err(|e| e.to_string())?;
    let port = free_port();
    let d = dir.display();
    let toml = format!(
        "[cluster]\nnode_id = 1\nlisten_address = \"127.0.0.1:{port}\"\ninitial_cluster = [\n  {{ id = 1, address = \"127.0.0.1:{port}\", role = 1, status = 3 }}\n]\ndb_root_dir = \"{d}/db\"\nlog_dir = \"{d}/logs\"\n\n[raft]\ngeneral_raft_timeout_duration_in_ms = 3000\n\n[raft.snapshot]\nenable = false\nsnapshots_dir = \"{d}/snapshots\"\n\n{raft_toml}\n"
    );
    let cfg_path = dir.join("node.toml");
    std::fs::write(&cfg_path, toml).map_err(|e| e.to_string())?;
    let engine = EmbeddedEngine::start_custom(se, sm, Some(cfg_path.to_str().unwrap()))
        .await
        .map_err(|e| format!("start_custom: {e:?}"))?;
    engine.wait_ready(Duration::from_secs(20)).await.map_err(|e| format!("wait_ready: {e:?}"))?;
    let embedded = engine.client();
    Ok(Single {
        engine,
        embedded,
        port,
    })
}

pub async fn grpc_client(port: u16) -> Result<Client, String> {
    let mut last = String::new();
    for _ in 0..50 {
        match ClientBuilder::new(vec![format!("http://127.0.0.1:{port}")])
            .connect_timeout(Duration::from_secs(3))
            .request_timeout(Duration::from_secs(5))
            .build()
            .await
        {
            Ok(c) => return Ok(c),
            Err(e) => {
                last = format!("{e:?}");
                tokio::time::sleep(Duration::from_millis(100)).await;
            }
        }
    }
    Err(format!("grpc client: {last}"))
}

pub fn hex(b: &[u8]) -> String {
    b.iter().map(|x| format!("{x:02x}")).collect()
}
pub fn unhex(s: &str) -> Vec<u8> {
    (0..s.len() / 2).map(|i| u8::from_str_radix(&s[2 * i..2 * i + 2], 16).unwrap()).collect()
}

pub fn runtime() -> tokio::runtime::Runtime {
    tokio::runtime::Builder::new_multi_thread().worker_threads(4).enable_all().build().unwrap()
}
