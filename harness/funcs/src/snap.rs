//! Snapshot push through the real loader / installer (filled in with the snapshot round).
use d_engine_proto::server::storage::SnapshotMetadata;

use crate::sim::Cluster;

pub async fn push_snapshot(
    _c: &mut Cluster,
    _from: u32,
    _to: u32,
    _meta: SnapshotMetadata,
) -> std::result::Result<(), String> {
    Err("snapshot push not simulated yet".into())
}
