//! C13: read-policy routing. Every TLC-enumerated case of ReadRoute.tla is executed:
//!  * path "raft": `ClientCmd::Read` pushed into real simulated nodes (copied cluster sim: production Raft
//!    role states, replication, lease) of all four roles; the leader is exercised with a fresh lease and a
//!    reachable quorum, a fresh lease and undelivered quorum traffic, and an expired lease;
//!  * paths "embedded" / "grpc": a real 3-node loopback cluster (EmbeddedEngine x 3 in this process): reads
//!    through each node's embedded client and through the node's gRPC service (tonic stub, node-targeted),
//!    on the leader and on a follower; the quorum is made unreachable by stopping both followers.
//! The observation is the outcome class: served / notleader / pending (no answer, or a time-out).
use std::collections::BTreeMap;
use std::io::{BufRead, Write};
use std::sync::Arc;
use std::time::Duration;

use bytes::Bytes;
use d_engine_core::config::ReadConsistencyPolicy as P;
use d_engine_proto::client::raft_client_service_client::RaftClientServiceClient;
use d_engine_proto::client::{ClientReadRequest, client_response::SuccessResult};
use d_engine_server::{EmbeddedClient, EmbeddedEngine};
use dv_common::mem::{MemEngine, MemSm};
use dv_common::util::run_paused;
use serde_json::{Value, json};

use crate::engine::free_port;
use crate::sim::{Cluster, ClusterCfg, role_str};

const LEASE_MS: u64 = 250;

// ------------------------------------------------------------------------------------------------
// Raft command path on simulated nodes
// ------------------------------------------------------------------------------------------------
async fn st(
    c: &mut Cluster,
    v: Value,
) -> bool {
    let r = c.step(&v).await;
    r
}

/// issue one read on node n; returns (outcome, detail)
async fn sim_read(
    c: &mut Cluster,
    n: u32,
    req: &str,
    drain_after: bool,
) -> (String, String) {
    c.events.clear();
    let policy = match req {
        "lin" => "lin",
        "lease" => "lease",
        "ev" => "ev",
        _ => "",
    };
    let id = c.clients.len() as u64 + 1;
    if !st(c, json!({"a":"Client","n":n,"op":"read","key":"k","policy":policy})).await {
        return ("setup-failed".into(), "client step not applicable".into());
    }
    if drain_after {
        st(c, json!({"a":"Drain","rounds":3})).await;
    }
    for e in c.events.iter() {
        if e["e"] == "ClientResp" && e["id"].as_u64() == Some(id) {
            if e["ok"].as_bool() == Some(true) {
                return ("served".into(), e["read"].to_string());
            }
            let status = e["status"].as_str().unwrap_or("").to_string();
            if status.to_lowercase().contains("not leader") || e["err"].as_i64() == Some(d_engine_core::client::ErrorCode::NotLeader as i64) {
                return ("notleader".into(), status);
            }
            return ("error".into(), format!("{} {}", e["err"], status));
        }
    }
    ("pending".into(), String::new())
}

async fn raft_config(
    dflt: &str,
    allow: bool,
    cases: &[Value],
    scratch: &std::path::Path,
    out: &mut Vec<Value>,
) {
    let members = json!([[1, "F", "A"], [2, "F", "A"], [3, "F", "A"], [4, "Ln", "R"]]);
    let cfg = ClusterCfg::from_json(&json!({"n": 4, "lease_ms": LEASE_MS, "read_default": dflt, "allow_override": allow,
        "initial": {"1": members, "2": members, "3": members, "4": members}}));
    let mut c = Cluster::new(cfg, scratch.join(format!("route-{dflt}-{allow}"))).await;
    let mut setup = vec![];
    for s in [
        json!({"a":"Timeout","n":1}),
        json!({"a":"StartRound","n":1}),
        json!({"a":"DeliverVQ","from":1,"to":2}),
        json!({"a":"DeliverVQ","from":1,"to":3}),
        json!({"a":"FinishRound","n":1}),
        json!({"a":"Drain","rounds":3}),
        json!({"a":"Client","n":1,"op":"put","key":"k","val":"v"}),
        json!({"a":"Drain","rounds":3}),
        json!({"a":"Timeout","n":3}),
    ] {
        let ok = st(&mut c, s.clone()).await;
        setup.push(json!({"step": s, "applied": ok}));
    }
    let role_of = |c: &Cluster, n: u32| c.view(n).map(|v| role_str(v.role).to_string()).unwrap_or_default();
    let node_for = |role: &str| -> u32 {
        match role {
            "L" => 1,
            "F" => 2,
            "C" => 3,
            _ => 4,
        }
    };
    // non-leaders first (no message is delivered while they are read)
    for case in cases.iter().filter(|k| k["role"] != "L") {
        let role = case["role"].as_str().unwrap();
        let n = node_for(role);
        let actual = role_of(&c, n);
        let (o, d) = if actual != role {
            ("setup-failed".to_string(), format!("node {n} has role {actual}"))
        } else {
            sim_read(&mut c, n, case["req"].as_str().unwrap(), false).await
        };
        out.push(json!({"id": case["id"], "outcome": o, "detail": d, "role": actual}));
    }
    // the leader in its three situations
    for (lease, quorum) in [("valid", "reachable"), ("valid", "unreachable"), ("expired", "unreachable")] {
        for case in cases.iter().filter(|k| k["role"] == "L" && k["lease"] == lease && k["quorum"] == quorum) {
            st(&mut c, json!({"a":"Drain","rounds":3})).await;
            st(&mut c, json!({"a":"Heartbeat","n":1})).await;
            st(&mut c, json!({"a":"Drain","rounds":3})).await;
            if lease == "expired" {
                st(&mut c, json!({"a":"Advance","ms": 2 * LEASE_MS + 50})).await;
            }
            let v = c.view(1).unwrap();
            let actual = role_str(v.role).to_string();
            let lease_now = if v.lease_valid_for_term { "valid" } else { "expired" };
            let (o, d) = if actual != "L" || lease_now != lease {
                ("setup-failed".to_string(), format!("role {actual} lease {lease_now}"))
            } else {
                sim_read(&mut c, 1, case["req"].as_str().unwrap(), quorum == "reachable").await
            };
            out.push(json!({"id": case["id"], "outcome": o, "detail": d, "role": actual, "lease": lease_now}));
        }
    }
    let _ = setup;
    c.shutdown().await;
}

// ------------------------------------------------------------------------------------------------
// embedded / gRPC paths on a real loopback cluster
// ------------------------------------------------------------------------------------------------
type Eng = EmbeddedEngine<MemEngine, MemSm>;
type Cli = Arc<EmbeddedClient<MemEngine, MemSm>>;

fn policy(req: &str) -> Option<P> {
    match req {
        "lin" => Some(P::LinearizableRead),
        "lease" => Some(P::LeaseRead),
        "ev" => Some(P::EventualConsistency),
        _ => None,
    }
}

fn classify_err(msg: &str) -> String {
    let m = msg.to_lowercase();
    if m.contains("not leader") || m.contains("notleader") {
        "notleader".into()
    } else if m.contains("timed out") || m.contains("timeout") || m.contains("deadline") {
        "pending".into()
    } else {
        "error".into()
    }
}

async fn embedded_read(
    cli: &Cli,
    req: &str,
) -> (String, String) {
    let keys = [Bytes::from_static(b"k")];
    match cli.get_multi_with_consistency(&keys, policy(req).unwrap()).await {
        Ok(v) => ("served".into(), format!("{v:?}")),
        Err(e) => {
            let s = format!("{e:?}");
            (classify_err(&s), s)
        }
    }
}

async fn grpc_read(
    port: u16,
    req: &str,
) -> (String, String) {
    let mut cl = match RaftClientServiceClient::connect(format!("http://127.0.0.1:{port}")).await {
        Ok(c) => c,
        Err(e) => return ("error".into(), format!("connect: {e:?}")),
    };
    let r = ClientReadRequest {
        client_id: 77,
        keys: vec![Bytes::from_static(b"k")],
        consistency_policy: policy(req).map(|p| d_engine_proto::client::ReadConsistencyPolicy::from(p) as i32),
    };
    match tokio::time::timeout(Duration::from_secs(10), cl.handle_client_read(r)).await {
        Err(_) => ("pending".into(), "harness timeout".into()),
        Ok(Err(status)) => {
            let s = format!("{:?}:{}", status.code(), status.message());
            (classify_err(&s), s)
        }
        Ok(Ok(resp)) => {
            let resp = resp.into_inner();
            if resp.error == 0 {
                match resp.success_result {
                    Some(SuccessResult::ReadData(d)) => ("served".into(), format!("{} results", d.results.len())),
                    _ => ("error".into(), "no read data".into()),
                }
            } else if resp.error == d_engine_proto::error::ErrorCode::NotLeader as i32 {
                ("notleader".into(), format!("error code {}", resp.error))
            } else {
                ("error".into(), format!("error code {}", resp.error))
            }
        }
    }
}

fn policy_name(p: &str) -> &'static str {
    match p {
        "lease" => "LeaseRead",
        "ev" => "EventualConsistency",
        _ => "LinearizableRead",
    }
}

async fn server_config(
    dflt: String,
    allow: bool,
    cases: Vec<Value>,
    scratch: std::path::PathBuf,
) -> Vec<Value> {
    let mut out = vec![];
    let fail = |cases: &[Value], why: String| -> Vec<Value> {
        cases.iter().map(|c| json!({"id": c["id"], "outcome": "setup-failed", "detail": why})).collect()
    };
    let ports: Vec<u16> = (0..3).map(|_| free_port()).collect();
    let members: Vec<String> = (0..3)
        .map(|i| format!("  {{ id = {}, address = \"127.0.0.1:{}\", role = 1, status = 3 }}", i + 1, ports[i]))
        .collect();
    let lease_ms = 2000u64;
    let mut engines: BTreeMap<u32, (Eng, Cli, u16)> = BTreeMap::new();
    for i in 0..3u32 {
        let dir = scratch.join(format!("srv-{dflt}-{allow}-n{}", i + 1));
        let _ = std::fs::remove_dir_all(&dir);
        std::fs::create_dir_all(&dir).unwrap();
        let d = dir.display();
        let toml = format!(
            "[cluster]\nnode_id = {id}\nlisten_address = \"127.0.0.1:{port}\"\ninitial_cluster = [\n{members}\n]\ndb_root_dir = \"{d}/db\"\nlog_dir = \"{d}/logs\"\n\n[raft]\ngeneral_raft_timeout_duration_in_ms = 600\n\n[raft.election]\nelection_timeout_min = 2500\nelection_timeout_max = 3500\n\n[raft.snapshot]\nenable = false\nsnapshots_dir = \"{d}/snapshots\"\n\n[raft.read_consistency]\ndefault_policy = \"{pol}\"\nallow_client_override = {allow}\nlease_duration_ms = {lease_ms}\n",
            id = i + 1,
            port = ports[i as usize],
            members = members.join(",\n"),
            pol = policy_name(&dflt),
        );
        let cfg_path = dir.join("node.toml");
        std::fs::write(&cfg_path, toml).unwrap();
        match EmbeddedEngine::start_custom(Arc::new(MemEngine::default()), Arc::new(MemSm::new()), Some(cfg_path.to_str().unwrap())).await {
            Ok(e) => {
                let c = e.client();
                engines.insert(i + 1, (e, c, ports[i as usize]));
            }
            Err(e) => return fail(&cases, format!("start node {}: {e:?}", i + 1)),
        }
    }
    for (_, (e, _, _)) in engines.iter() {
        if let Err(err) = e.wait_ready(Duration::from_secs(30)).await {
            return fail(&cases, format!("wait_ready: {err:?}"));
        }
    }
    tokio::time::sleep(Duration::from_millis(300)).await;
    let leader = engines.iter().find(|(_, (e, _, _))| e.is_leader()).map(|(id, _)| *id);
    let Some(leader) = leader else { return fail(&cases, "no leader".into()) };
    let follower = *engines.keys().find(|id| **id != leader).unwrap();
    let mut wrote = false;
    for _ in 0..10 {
        if engines[&leader].1.put(b"k", b"v").await.is_ok() {
            wrote = true;
            break;
        }
        tokio::time::sleep(Duration::from_millis(200)).await;
    }
    if !wrote {
        return fail(&cases, "initial write failed".into());
    }
    tokio::time::sleep(Duration::from_millis(300)).await;

    // one batch of reads on a node, all issued concurrently
    async fn batch(
        node: &(Eng, Cli, u16),
        want_leader: bool,
        cases: Vec<&Value>,
    ) -> Vec<Value> {
        let before = node.0.is_leader();
        let futs = cases.iter().map(|c| {
            let req = c["req"].as_str().unwrap().to_string();
            let path = c["path"].as_str().unwrap().to_string();
            let cli = node.1.clone();
            let port = node.2;
            async move {
                if path == "embedded" {
                    embedded_read(&cli, &req).await
                } else {
                    grpc_read(port, &req).await
                }
            }
        });
        let res = futures::future::join_all(futs).await;
        let after = node.0.is_leader();
        cases
            .iter()
            .zip(res)
            .map(|(c, (o, d))| {
                if before != want_leader || after != want_leader {
                    json!({"id": c["id"], "outcome": "role-changed", "detail": format!("leader before={before} after={after}; {o} {d}")})
                } else {
                    json!({"id": c["id"], "outcome": o, "detail": d})
                }
            })
            .collect()
    }
    let sel = |role_leader: bool, lease: &str, quorum: &str| -> Vec<&Value> {
        cases
            .iter()
            .filter(|c| (c["role"] == "L") == role_leader && c["role"].as_str().map(|r| r == "L" || r == "F").unwrap_or(false))
            .filter(|c| !role_leader || (c["lease"] == lease && c["quorum"] == quorum))
            .collect()
    };
    // follower and leader while the cluster is healthy
    out.extend(batch(&engines[&follower], false, sel(false, "", "")).await);
    out.extend(batch(&engines[&leader], true, sel(true, "valid", "reachable")).await);
    // quorum unreachable: stop both followers; the leader's lease is still fresh
    let ids: Vec<u32> = engines.keys().cloned().filter(|i| *i != leader).collect();
    let stops = ids.iter().map(|i| engines[i].0.stop());
    let _ = futures::future::join_all(stops).await;
    out.extend(batch(&engines[&leader], true, sel(true, "valid", "unreachable")).await);
    tokio::time::sleep(Duration::from_millis(2 * lease_ms + 500)).await;
    out.extend(batch(&engines[&leader], true, sel(true, "expired", "unreachable")).await);
    let _ = engines[&leader].0.stop().await;
    // candidates / learners are not driven on the server paths
    for c in cases.iter().filter(|c| c["role"] == "C" || c["role"] == "Ln") {
        out.push(json!({"id": c["id"], "outcome": "not-driven", "detail": "role not driven on this path"}));
    }
    out
}

pub fn run(
    cases: &str,
    out: &str,
    scratch: &str,
) -> i32 {
    let scratch = std::path::PathBuf::from(scratch);
    let all: Vec<Value> = std::io::BufReader::new(std::fs::File::open(cases).expect("open cases"))
        .lines()
        .map(|l| l.unwrap())
        .filter(|l| !l.trim().is_empty())
        .map(|l| serde_json::from_str(&l).expect("case json"))
        .collect();
    let mut groups: BTreeMap<(String, bool, bool), Vec<Value>> = BTreeMap::new();
    for c in all {
        let k = (c["dflt"].as_str().unwrap().to_string(), c["allow"].as_bool().unwrap(), c["path"] == "raft");
        groups.entry(k).or_default().push(c);
    }
    let mut results: Vec<Value> = vec![];
    // 1. Raft command path (deterministic, paused clock)
    {
        let sim_groups: Vec<_> = groups.iter().filter(|(k, _)| k.2).map(|(k, v)| (k.clone(), v.clone())).collect();
        let sc = scratch.clone();
        let r = run_paused(async move {
            let mut out = vec![];
            for ((dflt, allow, _), cases) in sim_groups {
                raft_config(&dflt, allow, &cases, &sc, &mut out).await;
            }
            out
        });
        results.extend(r);
    }
    d_engine_core::verif_clock::set(None);
    // 2. server paths (real time, real sockets), all configurations concurrently
    {
        let srv_groups: Vec<_> = groups.iter().filter(|(k, _)| !k.2).map(|(k, v)| (k.clone(), v.clone())).collect();
        if !srv_groups.is_empty() {
            let rt = crate::engine::runtime();
            let sc = scratch.clone();
            let r: Vec<Value> = rt.block_on(async move {
                let hs: Vec<_> = srv_groups
                    .into_iter()
                    .map(|((dflt, allow, _), cases)| tokio::spawn(server_config(dflt, allow, cases, sc.clone())))
                    .collect();
                let mut out = vec![];
                for h in hs {
                    match h.await {
                        Ok(v) => out.extend(v),
                        Err(e) => eprintln!("server config task failed: {e:?}"),
                    }
                }
                out
            });
            results.extend(r);
        }
    }
    let mut w = std::io::BufWriter::new(std::fs::File::create(out).expect("create out"));
    for r in results {
        serde_json::to_writer(&mut w, &r).unwrap();
        w.write_all(b"\n").unwrap();
    }
    w.flush().unwrap();
    0
}
