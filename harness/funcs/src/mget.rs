//! C35: every TLC-enumerated (state, key list) case is executed against a real single-node engine with
//! the File or RocksDB state machine: the state is established with client writes, then the key list is
//! read through the real embedded client (default / linearizable / lease / eventual) and through the real
//! GrpcClient over the node's loopback gRPC service (server default / linearizable / lease / eventual).
use std::collections::BTreeMap;
use std::fmt::Debug;
use std::io::{BufRead, Write};
use std::sync::Arc;

use bytes::Bytes;
use d_engine_client::Client;
use d_engine_core::client::ClientApi;
use d_engine_core::config::ReadConsistencyPolicy as P;
use d_engine_core::{StateMachine, StorageEngine};
use d_engine_server::storage::TtlLease;
use d_engine_server::{FileStateMachine, FileStorageEngine, RocksDBStateMachine, RocksDBStorageEngine};
use serde_json::{Value, json};

use crate::engine::{Single, grpc_client, hex, runtime, start_single, unhex};

fn res_json<E: Debug>(r: Result<Vec<Option<Bytes>>, E>) -> Value {
    match r {
        Ok(v) => Value::Array(v.into_iter().map(|o| o.map(|b| json!(hex(&b))).unwrap_or(Value::Null)).collect()),
        Err(e) => json!({"err": format!("{e:?}")}),
    }
}

async fn drive<SE, SM>(
    single: &Single<SE, SM>,
    grpc: &Client,
    lines: &[String],
    w: &mut impl Write,
) -> Result<(), String>
where
    SE: StorageEngine + Debug + 'static,
    SM: StateMachine + Debug + 'static,
{
    let mut cur: BTreeMap<String, Option<String>> = BTreeMap::new();
    for line in lines {
        let v: Value = serde_json::from_str(line).map_err(|e| e.to_string())?;
        // 1. establish the state
        for (k, want) in v["state"].as_object().unwrap() {
            let want: Option<String> = want.as_str().map(|s| s.to_string());
            if cur.get(k).cloned().unwrap_or(None) == want && cur.contains_key(k) {
                continue;
            }
            let kb = unhex(k);
            let mut ok = false;
            for _ in 0..5 {
                let r = match &want {
                    Some(val) => single.embedded.put(&kb, unhex(val)).await,
                    None => single.embedded.delete(&kb).await,
                };
                if r.is_ok() {
                    ok = true;
                    break;
                }
                tokio::time::sleep(std::time::Duration::from_millis(100)).await;
            }
            if !ok {
                return Err(format!("could not establish state for key {k}"));
            }
            cur.insert(k.clone(), want);
        }
        // 2. the reads
        let keys: Vec<Bytes> = v["keys"].as_array().unwrap().iter().map(|k| Bytes::from(unhex(k.as_str().unwrap()))).collect();
        let mut reads = serde_json::Map::new();
        let e = &single.embedded;
        reads.insert("embedded/default".into(), res_json(ClientApi::get_multi(&**e, &keys).await));
        reads.insert("embedded/lin".into(), res_json(e.get_multi_with_consistency(&keys, P::LinearizableRead).await));
        reads.insert("embedded/lease".into(), res_json(e.get_multi_with_consistency(&keys, P::LeaseRead).await));
        reads.insert("embedded/eventual".into(), res_json(e.get_multi_with_consistency(&keys, P::EventualConsistency).await));
        let g = &**grpc;
        reads.insert("grpc/default".into(), res_json(ClientApi::get_multi(g, &keys).await));
        reads.insert("grpc/lin".into(), res_json(ClientApi::get_multi_with_policy(g, &keys, Some(P::LinearizableRead)).await));
        reads.insert("grpc/lease".into(), res_json(ClientApi::get_multi_with_policy(g, &keys, Some(P::LeaseRead)).await));
        reads.insert("grpc/eventual".into(), res_json(ClientApi::get_multi_with_policy(g, &keys, Some(P::EventualConsistency)).await));
        let rec = json!({"id": v["id"], "reads": reads});
        serde_json::to_writer(&mut *w, &rec).unwrap();
        w.write_all(b"\n").unwrap();
    }
    Ok(())
}

pub fn run(
    cases: &str,
    out: &str,
    scratch: &str,
    sm_kind: &str,
) -> i32 {
    let rt = runtime();
    let scratch = std::path::PathBuf::from(scratch);
    let lines: Vec<String> = std::io::BufReader::new(std::fs::File::open(cases).expect("open cases"))
        .lines()
        .map(|l| l.unwrap())
        .filter(|l| !l.trim().is_empty())
        .collect();
    let mut w = std::io::BufWriter::new(std::fs::File::create(out).expect("create out"));
    let sm_kind = sm_kind.to_string();
    rt.block_on(async move {
        let dir = scratch.join(format!("mget-{sm_kind}"));
        let _ = std::fs::remove_dir_all(&dir);
        std::fs::create_dir_all(&dir).unwrap();
        let lease = Arc::new(TtlLease::new(d_engine_core::LeaseConfig::default()));
        let r = if sm_kind == "rocksdb" {
            let se = Arc::new(RocksDBStorageEngine::new(dir.join("storage")).expect("rocksdb storage"));
            let mut sm = RocksDBStateMachine::new(dir.join("state_machine")).expect("rocksdb sm");
            sm.set_lease(lease);
            match start_single(&dir, se, Arc::new(sm), "").await {
                Ok(s) => match grpc_client(s.port).await {
                    Ok(g) => {
                        let r = drive(&s, &g, &lines, &mut w).await;
                        let _ = s.engine.stop().await;
                        r
                    }
                    Err(e) => Err(e),
                },
                Err(e) => Err(e),
            }
        } else {
            let se = Arc::new(FileStorageEngine::new(dir.join("storage")).expect("file storage"));
            let mut sm = FileStateMachine::new(dir.join("state_machine")).await.expect("file sm");
            sm.set_lease(lease);
            match start_single(&dir, se, Arc::new(sm), "").await {
                Ok(s) => match grpc_client(s.port).await {
                    Ok(g) => {
                        let r = drive(&s, &g, &lines, &mut w).await;
                        let _ = s.engine.stop().await;
                        r
                    }
                    Err(e) => Err(e),
                },
                Err(e) => Err(e),
            }
        };
        w.flush().unwrap();
        match r {
            Ok(()) => 0,
            Err(e) => {
                eprintln!("mget: {e}");
                2
            }
        }
    })
}
