//! C37: every TLC-enumerated write operation is submitted through the real embedded client or the real
//! GrpcClient to a real single-node engine whose state machine (dv_common MemSm) records the `Command`
//! values it is given at `apply_chunk`; the record is what "reaches the state machine".
use std::io::{BufRead, Write};
use std::sync::Arc;

use bytes::Bytes;
use d_engine_core::Command;
use d_engine_core::client::ClientApi;
use dv_common::mem::{MemEngine, MemSm};
use serde_json::{Value, json};

use crate::engine::{grpc_client, hex, runtime, start_single, unhex};

fn cmd_json(c: &Command) -> Value {
    match c {
        Command::Noop => json!({"cmd":"noop"}),
        Command::Insert {
            key,
            value,
            ttl_secs,
        } => json!({"cmd":"insert","key":hex(key),"value":hex(value),"expected":Value::Null,
                    "ttl": ttl_secs.map(|t| t.to_string())}),
        Command::Delete { key } => json!({"cmd":"delete","key":hex(key),"value":Value::Null,"expected":Value::Null,"ttl":Value::Null}),
        Command::CompareAndSwap {
            key,
            expected,
            value,
        } => json!({"cmd":"cas","key":hex(key),"value":hex(value),"expected":expected.as_ref().map(|e| hex(e)),"ttl":Value::Null}),
    }
}

pub fn run(
    cases: &str,
    out: &str,
    scratch: &str,
) -> i32 {
    let rt = runtime();
    let scratch = std::path::PathBuf::from(scratch);
    let lines: Vec<String> = std::io::BufReader::new(std::fs::File::open(cases).expect("open cases"))
        .lines()
        .map(|l| l.unwrap())
        .filter(|l| !l.trim().is_empty())
        .collect();
    let mut w = std::io::BufWriter::new(std::fs::File::create(out).expect("create out"));
    let rc = rt.block_on(async move {
        let se = Arc::new(MemEngine::default());
        let sm = Arc::new(MemSm::new());
        let single = match start_single(&scratch.join("codec-node"), se, sm.clone(), "").await {
            Ok(s) => s,
            Err(e) => {
                eprintln!("engine start failed: {e}");
                return 2;
            }
        };
        let grpc = match grpc_client(single.port).await {
            Ok(c) => c,
            Err(e) => {
                eprintln!("{e}");
                return 2;
            }
        };
        for line in lines {
            let v: Value = serde_json::from_str(&line).expect("case json");
            let b = |k: &str| -> Option<Vec<u8>> { v[k].as_str().map(unhex) };
            let key = b("key").unwrap_or_default();
            let value = b("value").unwrap_or_default();
            let expected = b("expected");
            let ttl: Option<u64> = v["ttl"].as_str().map(|s| s.parse().unwrap());
            let kind = v["kind"].as_str().unwrap();
            let path = v["path"].as_str().unwrap();
            let before = sm.seq.lock().unwrap().len();
            let res: Result<String, String> = match (path, kind) {
                ("embedded", "put") => single.embedded.put(&key, &value).await.map(|_| "ok".into()).map_err(|e| format!("{e:?}")),
                ("embedded", "put_ttl") => ClientApi::put_with_ttl(&*single.embedded, &key, &value, ttl.unwrap())
                    .await
                    .map(|_| "ok".into())
                    .map_err(|e| format!("{e:?}")),
                ("embedded", "delete") => single.embedded.delete(&key).await.map(|_| "ok".into()).map_err(|e| format!("{e:?}")),
                ("embedded", "cas") => ClientApi::compare_and_swap(&*single.embedded, &key, expected.clone(), &value)
                    .await
                    .map(|s| format!("ok:{s}"))
                    .map_err(|e| format!("{e:?}")),
                ("grpc", "put") => ClientApi::put(&*grpc, &key, &value).await.map(|_| "ok".into()).map_err(|e| format!("{e:?}")),
                ("grpc", "put_ttl") => ClientApi::put_with_ttl(&*grpc, &key, &value, ttl.unwrap())
                    .await
                    .map(|_| "ok".into())
                    .map_err(|e| format!("{e:?}")),
                ("grpc", "delete") => ClientApi::delete(&*grpc, &key).await.map(|_| "ok".into()).map_err(|e| format!("{e:?}")),
                ("grpc", "cas") => ClientApi::compare_and_swap(&*grpc, &key, expected.clone(), &value)
                    .await
                    .map(|s| format!("ok:{s}"))
                    .map_err(|e| format!("{e:?}")),
                _ => Err("unknown case".into()),
            };
            // the write is acknowledged after apply; give a failed/timeout call a moment before reading the record
            if res.is_err() {
                tokio::time::sleep(std::time::Duration::from_millis(200)).await;
            }
            let applied: Vec<Value> = sm.seq.lock().unwrap()[before..]
                .iter()
                .filter(|a| a.cmd != Command::Noop)
                .map(|a| cmd_json(&a.cmd))
                .collect();
            let rec = json!({"id": v["id"], "result": match &res { Ok(s) => s.clone(), Err(e) => format!("err:{e}") }, "applied": applied});
            serde_json::to_writer(&mut w, &rec).unwrap();
            w.write_all(b"\n").unwrap();
        }
        w.flush().unwrap();
        let _ = single.engine.stop().await;
        0
    });
    let _ = Bytes::new();
    rc
}
