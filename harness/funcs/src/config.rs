//! C34: every TLC-enumerated abstract configuration is mapped to concrete u64 values, given to the
//! real `RaftConfig::validate` and `RaftNodeConfig::validate`, and the property's consequent is
//! evaluated on the concrete numbers with u128 arithmetic (mirror of `Safe` in spec/Config.tla).
use std::collections::HashMap;
use std::io::{BufRead, Write};
use std::panic::{AssertUnwindSafe, catch_unwind};
use std::path::Path;

use d_engine_core::{FlushPolicy, RaftConfig, RaftNodeConfig};
use d_engine_proto::common::{NodeRole, NodeStatus};
use d_engine_proto::server::cluster::NodeMeta;
use serde_json::{Value, json};

/// harness-side projection of the error message onto the check that produced it
fn classify(msg: &str) -> String {
    let table: [(&str, &str); 16] = [
        ("learner_catchup_threshold", "learner_catchup_threshold"),
        ("general_raft_timeout_duration_in_ms", "general_raft_timeout"),
        ("rpc_append_entries_clock_in_ms", "heartbeat"),
        ("append_entries_max_entries_per_replication", "per_request"),
        ("max_batch_size", "batch"),
        ("max_merge_entries", "max_merge_entries"),
        ("must be less than election_timeout_max", "election_order"),
        ("rpc_peer_connectinon_monitor_interval_in_sec", "monitor_interval"),
        ("lease cleanup_interval_ms", "lease_cleanup_interval"),
        ("max_log_entries_before_snapshot", "max_log_entries_before_snapshot"),
        ("cleanup_retain_count", "cleanup_retain_count"),
        ("chunk_size", "chunk_size"),
        ("retained_log_entries", "retained"),
        ("lease_duration_ms must be greater than 0", "lease_zero"),
        ("must be strictly less than election_timeout_min", "lease_window"),
        ("idle_flush_interval_ms", "idle_flush"),
    ];
    for (pat, name) in table {
        if msg.contains(pat) {
            return name.to_string();
        }
    }
    format!("other:{msg}")
}

struct Vals {
    lease: u64,
    rtt: u64,
    et_min: u64,
    et_max: u64,
    hb: u64,
    batch: u64,
    per_req: u64,
    retained: u64,
}

fn build(
    v: &Vals,
    other: &str,
    scratch: &Path,
) -> RaftConfig {
    let mut c = RaftConfig::default();
    c.read_consistency.lease_duration_ms = v.lease;
    c.read_consistency.network_rtt_p99_ms = v.rtt;
    c.election.election_timeout_min = v.et_min;
    c.election.election_timeout_max = v.et_max;
    c.replication.rpc_append_entries_clock_in_ms = v.hb;
    c.replication.append_entries_max_entries_per_replication = v.per_req;
    c.batching.max_batch_size = v.batch as usize;
    c.snapshot.retained_log_entries = v.retained;
    c.snapshot.snapshots_dir = scratch.join("snapshots");
    match other {
        "none" => {}
        "lct0" => c.learner_catchup_threshold = 0,
        "gen0" => c.general_raft_timeout_duration_in_ms = 0,
        "merge0" => c.batching.max_merge_entries = 0,
        "mon0" => c.election.rpc_peer_connectinon_monitor_interval_in_sec = 0,
        "ttl99" => c.state_machine.lease.cleanup_interval_ms = 99,
        "snapmax0" => c.snapshot.max_log_entries_before_snapshot = 0,
        "retain0" => c.snapshot.cleanup_retain_count = 0,
        "chunk0" => c.snapshot.chunk_size = 0,
        "idle0" => {
            c.persistence.flush_policy = FlushPolicy::Batch {
                idle_flush_interval_ms: 0,
            }
        }
        // who may choose the read policy does not change what a safe lease window is (the leader lease also backs the
        // linearizable fast path)
        "noovr" => c.read_consistency.allow_client_override = false,
        "noovr_ev" => {
            c.read_consistency.allow_client_override = false;
            c.read_consistency.default_policy = d_engine_core::config::ReadConsistencyPolicy::EventualConsistency;
        }
        "leasedef" => c.read_consistency.default_policy = d_engine_core::config::ReadConsistencyPolicy::LeaseRead,
        o => panic!("unknown scenario {o}"),
    }
    c
}

fn node_config(
    raft: RaftConfig,
    scratch: &Path,
) -> RaftNodeConfig {
    let mut n = RaftNodeConfig::default();
    n.cluster.node_id = 1;
    n.cluster.initial_cluster = vec![NodeMeta {
        id: 1,
        address: "127.0.0.1:9081".into(),
        role: NodeRole::Follower as i32,
        status: NodeStatus::Active as i32,
    }];
    n.cluster.db_root_dir = scratch.join("db");
    n.cluster.log_dir = scratch.join("logs");
    n.raft = raft;
    n
}

/// Mirror of `Unsafe(c)` in Config.tla on concrete numbers (u128: no overflow possible).
fn unsafe_parts(v: &Vals) -> Vec<&'static str> {
    let mut out = vec![];
    let (lease, rtt, et_min, et_max) = (v.lease as u128, v.rtt as u128, v.et_min as u128, v.et_max as u128);
    if !(2 * lease + rtt < 2 * et_min) {
        out.push("lease-window");
    }
    if !(et_min < et_max) {
        out.push("election-order");
    }
    if v.hb == 0 {
        out.push("zero-heartbeat");
    }
    if v.batch == 0 {
        out.push("zero-batch");
    }
    if v.per_req == 0 {
        out.push("zero-per-request");
    }
    if v.retained < 1 {
        out.push("zero-retained");
    }
    out
}

fn outcome<T>(r: std::thread::Result<d_engine_core::Result<T>>) -> String {
    match r {
        Ok(Ok(_)) => "ok".into(),
        Ok(Err(e)) => classify(&e.to_string()),
        Err(_) => "panic".into(),
    }
}

pub fn run(
    cases: &str,
    out: &str,
    scratch: &str,
) -> i32 {
    let scratch = Path::new(scratch);
    let f = std::io::BufReader::new(std::fs::File::open(cases).expect("open cases"));
    let mut w = std::io::BufWriter::new(std::fs::File::create(out).expect("create out"));
    let mut points: HashMap<String, u64> = HashMap::new();
    std::panic::set_hook(Box::new(|_| {}));

    // self-test of the wiring: the all-default configuration must be accepted on both entry points
    {
        let mut d = RaftConfig::default();
        d.snapshot.snapshots_dir = scratch.join("snapshots");
        let r = outcome(catch_unwind(AssertUnwindSafe(|| d.validate())));
        let n = outcome(catch_unwind(AssertUnwindSafe(|| node_config(d.clone(), scratch).validate())));
        if r != "ok" || n != "ok" {
            eprintln!("default configuration rejected: raft={r} node={n}");
            return 2;
        }
    }

    for line in f.lines() {
        let line = line.expect("read");
        if line.trim().is_empty() {
            continue;
        }
        let v: Value = serde_json::from_str(&line).expect("case json");
        if let Some(p) = v.get("points") {
            for (name, qc) in p.as_object().unwrap() {
                let q = qc[0].as_i64().unwrap() as i128;
                let c = qc[1].as_i64().unwrap() as i128;
                let x = q * (1i128 << 62) + c;
                assert!(x >= 0 && x <= u64::MAX as i128, "point {name} outside u64");
                points.insert(name.clone(), x as u64);
            }
            continue;
        }
        let p = |k: &str| -> u64 { *points.get(v[k].as_str().unwrap()).expect("unknown point") };
        let vals = Vals {
            lease: p("lease"),
            rtt: p("rtt"),
            et_min: p("etMin"),
            et_max: p("etMax"),
            hb: p("hb"),
            batch: p("batch"),
            per_req: p("perReq"),
            retained: p("retained"),
        };
        let other = v["other"].as_str().unwrap();
        let cfg = build(&vals, other, scratch);
        let r = outcome(catch_unwind(AssertUnwindSafe(|| cfg.validate())));
        let ncfg = node_config(cfg, scratch);
        let n = outcome(catch_unwind(AssertUnwindSafe(move || ncfg.validate())));
        let rec = json!({"id": v["id"], "raft": r, "node": n, "unsafe": unsafe_parts(&vals),
            "vals": [vals.lease, vals.rtt, vals.et_min, vals.et_max, vals.hb, vals.batch, vals.per_req, vals.retained]});
        serde_json::to_writer(&mut w, &rec).unwrap();
        w.write_all(b"\n").unwrap();
    }
    w.flush().unwrap();
    0
}
